"""C09 -- file data written through libext2fs reads back exactly.

(1) TLC model-checks the property-level spec (spec/FileData.tla) and the implementation-shaped specs
    (spec/FileBuf.tla refining it; spec/ExtentMap.tla, spec/IndMap.tla with their own invariants) on small constants.
(2) Histories over the same operation alphabet are concretised (cut points -> byte offsets from a boundary
    catalogue, per filesystem profile) and executed by harness/filedrv.c through the public API on filesystems made
    by the built mke2fs; every logged line is validated by TLC against Trace_FileData (every read result = model,
    sizes, frame condition, mapped/unmapped blocks, consistency at close).
(2b) Space accounting (spec/SpaceAcct.tla, model-checked; its relations are conjoined with every trace line): every
    line carries the accounting record of the driver (free counts, units mapped / i_blocks per file, units marked but
    unmapped, mapped but unmarked, mapped twice).  Two spec-enumerated families are added to the universe
    (Emit_SpaceLadder): the ENOSPC LADDER (tree-growth situation x r = 0..6 free units x operation) and the SESSION
    SHAPES (one allocating operation per open..close session of the filesystem, all ordered pairs).
(3) ExtentMap / IndMap conformance: implementation tests per transition class; the leaf-extent list / the set of
    mapped blocks after the call must be what the transcription computes (Trace_ExtentMap, Trace_IndMap)."""
import os, sys, json, random, shutil, subprocess, time, itertools, concurrent.futures as cf
from common import VERIF, fast_tmp, seed, die_broken, NPROC, tool_env, run as crun
import build, tlc as T, tracecheck
from evidence import Evidence, Verdict

PID = "C09"
SPEC = os.path.join(VERIF, "spec")
JOBS = max(2, min(6, NPROC // 2))
UUID = "11111111-2222-3333-4444-555555555555"
NCUTS = 7

# ------------------------------------------------------------------ filesystem profiles
PROFILES = {
    "ext4_1k":  dict(mkfs=["-t", "ext4", "-O", "^has_journal", "-b", "1024"], size="16M", bs=1024, cl=1, kind=0, map="extent"),
    "ext4_4k":  dict(mkfs=["-t", "ext4", "-O", "^has_journal,metadata_csum,64bit", "-b", "4096"], size="48M", bs=4096, cl=1, kind=0, map="extent"),
    "ext2_1k":  dict(mkfs=["-t", "ext2", "-b", "1024"], size="16M", bs=1024, cl=1, kind=0, map="ind"),
    "bigalloc": dict(mkfs=["-t", "ext4", "-O", "^has_journal,bigalloc", "-C", "16384", "-b", "1024"], size="32M", bs=1024, cl=16, kind=0, map="extent"),
    "inline":   dict(mkfs=["-t", "ext4", "-O", "^has_journal,inline_data", "-b", "1024"], size="16M", bs=1024, cl=1, kind=1, map="inline"),
    "full":     dict(mkfs=["-t", "ext4", "-O", "^has_journal", "-b", "1024"], size="8M", bs=1024, cl=1, kind=0, map="extent", fill=40),
    # ENOSPC ladder: small filesystems, filled down to LADDER_ROOM free blocks (the preludes of the deepest situations
    # need ~700); the ballast of each history absorbs the rest
    "lad_ext4": dict(mkfs=["-t", "ext4", "-O", "^has_journal", "-b", "1024"], size="4M", bs=1024, cl=1, kind=0, map="extent", fill=1000),
    "lad_ext2": dict(mkfs=["-t", "ext2", "-b", "1024"], size="4M", bs=1024, cl=1, kind=0, map="ind", fill=1000),
}
DEV_FALLOC = "DevFallocLeakOnInsertFail"      # named deviation = key of the known finding (SpaceAcct!DevFallocLeak)
SPACE_CONSTS = dict(NOwn=3, Units=0, MaxFree=6, MaxMeta=2, RootSlots=4, LeafCap=84, AddrPB=256)
INLINE_MAX = 60 + 96      # inline area limit of a 256-byte inode is probed per build (see probe_inline_max); this is only a default


def consistency_oracle(image, b):
    """THE consistency oracle (single seam: the independent reader will be plugged in here).
    Returns (consistent: bool, detail: str).  For now: e2fsck -fn of the built tree, exit status 0."""
    rc, out, err = crun([os.path.join(b, "e2fsck", "e2fsck"), "-fn", image], timeout=120, env=tool_env(b))
    if rc == 0:
        return True, ""
    txt = out.decode("utf8", "replace")
    keep = [l for l in txt.splitlines() if l and not l.startswith("Pass ") and not l.startswith("e2fsck ")]
    return False, "e2fsck -fn exit %d: %s" % (rc, " | ".join(keep)[:400])


def make_templates(b, work, names):
    """One pristine image per profile (mke2fs of the built tree; the nearly-full one is filled by the driver)."""
    out = {}
    env = tool_env(b)
    drv = build.driver(b, "filedrv")
    for n in names:
        p = PROFILES[n]
        img = os.path.join(work, "tmpl_%s.img" % n)
        cmd = [os.path.join(b, "misc", "mke2fs"), "-q", "-F"] + p["mkfs"] + ["-U", UUID, "-E", "hash_seed=" + UUID, img, p["size"]]
        rc, o, e = crun(cmd, timeout=120, env=env)
        if rc != 0:
            die_broken("mke2fs failed for profile %s: %s" % (n, (o + e).decode()[-500:]))
        if p.get("fill"):
            pr = subprocess.run([drv, img], input=("fill %d\n" % p["fill"]).encode(), stdout=subprocess.PIPE, stderr=subprocess.PIPE, env=env, timeout=120)
            if pr.returncode != 0:
                die_broken("filling the nearly-full template failed: %s" % pr.stderr.decode()[-300:])
        ok, det = consistency_oracle(img, b)
        if not ok:
            die_broken("template image %s is not consistent: %s" % (n, det))
        out[n] = img
    return out


# ------------------------------------------------------------------ concretisation tables (DESIGN 2.3)
def tables(pname, tier):
    """Order-preserving maps cut index -> byte offset; 'pre' = number of leading cuts covered by the fragmenting prelude."""
    p = PROFILES[pname]
    bs, cl = p["bs"], p["cl"]
    A = bs // 4
    cap = (bs - 12) // 12          # entries of one extent-tree leaf block: 84 (1k), 340 (4k)
    t = []
    def add(name, cuts, pre=0):
        assert len(cuts) == NCUTS and cuts[0] == 0 and all(x < y for x, y in zip(cuts, cuts[1:])), (name, cuts)
        t.append(dict(name=name, cuts=cuts, pre=pre))
    add("blkpm", [0, bs - 1, bs, bs + 1, 2 * bs, 3 * bs, 3 * bs + 17])
    add("aligned", [0, bs, 2 * bs, 3 * bs, 5 * bs, 8 * bs, 9 * bs])
    add("mixed", [0, 100, bs, 2 * bs + 1, 4 * bs, 6 * bs, 6 * bs + 512])
    add("ind12", [0, 11 * bs, 12 * bs - 1, 12 * bs, 12 * bs + 1, 13 * bs, 14 * bs])
    if p["map"] in ("extent", "inline"):
        add("leaf4", [0, 3 * bs, 4 * bs, 5 * bs, 5 * bs + 1, 6 * bs, 8 * bs], pre=5)
        if pname != "full":
            add("leafcap", [0, (cap - 1) * bs, cap * bs, (cap + 1) * bs, (cap + 2) * bs, (cap + 6) * bs, (cap + 7) * bs - 5], pre=4)
    if p["map"] == "ind" or tier == "thorough":
        add("dind", [0, 12 * bs, (12 + A) * bs - 1, (12 + A) * bs, (12 + A) * bs + 1, (13 + A) * bs, (14 + A) * bs])
        add("dind_al", [0, 11 * bs, 12 * bs, (12 + A - 1) * bs, (12 + A) * bs, (12 + A + 1) * bs, (12 + 2 * A) * bs])
    if p["map"] == "ind" and tier == "thorough":
        T3 = 12 + A + A * A
        add("tind", [0, 12 * bs, (12 + A) * bs, T3 * bs - 1, T3 * bs, T3 * bs + 1, (T3 + 1) * bs])
    if cl > 1:
        add("clpm", [0, bs, (cl - 1) * bs, cl * bs - 1, cl * bs, cl * bs + 1, (cl + 1) * bs])
        add("clal", [0, cl * bs, 2 * cl * bs, (2 * cl + 1) * bs, (3 * cl - 1) * bs, 3 * cl * bs, 4 * cl * bs])
    if p["map"] == "inline":
        M = INLINE_MAX
        add("inl_small", [0, 4, 7, 20, 59, 60, 61])
        add("inl_edge", [0, 30, 60, M - 1, M, M + 1, bs])
        add("inl_blk", [0, 59, 60, bs - 1, bs, bs + 1, 2 * bs])
    return t


def catalogue(pname):
    p = PROFILES[pname]
    bs, cl = p["bs"], p["cl"]
    A = bs // 4
    cap = (bs - 12) // 12
    c = set()
    for k in (1, 2, 3, 4, 5, 11, 12, 13, cl, 2 * cl, cl + 1, 12 + A, 13 + A):
        for d in (-1, 0, 1):
            c.add(k * bs + d)
    for v in (1, 4, 59, 60, 61, 100, 512, INLINE_MAX - 1, INLINE_MAX, INLINE_MAX + 1):
        c.add(v)
    if p["map"] != "ind" and pname != "full":
        c.update([(cap - 1) * bs, cap * bs, (cap + 1) * bs])
    return sorted(x for x in c if x > 0)


def random_table(rng, pname):
    cuts = [0] + sorted(rng.sample(catalogue(pname), NCUTS - 1))
    return dict(name="rnd", cuts=cuts, pre=0)


# ------------------------------------------------------------------ histories (abstract operations on cut indices)
def gen_history(rng, tabs, bs, nops, obs):
    """tabs: (table of file 0, table of file 1).  Returns the script lines after the mkfile/cuts header."""
    al = [[c % bs == 0 for c in tb["cuts"]] for tb in tabs]
    lines = ["obs %d" % obs]
    tag = 0
    pre = min(tabs[0]["pre"], tabs[1]["pre"])
    if tabs[0]["pre"] and tabs[1]["pre"]:
        lines.append("iwrite 0 %d 1 0 %d 2" % (tabs[0]["pre"], tabs[1]["pre"]))
        tag = 2
    size = [tabs[0]["pre"] if pre else 0, tabs[1]["pre"] if pre else 0]
    for _ in range(nops):
        f = 0 if rng.random() < 0.7 else 1
        k = rng.random()
        alc = [i for i in range(NCUTS) if al[f][i]]
        if k < 0.36 or (size[f] == 0 and k < 0.6):
            a = rng.randrange(NCUTS - 1); b = rng.randrange(a + 1, NCUTS)
            if rng.random() < 0.5:
                b = min(NCUTS - 1, a + rng.choice([1, 1, 2]))
            tag += 1
            if tag > 60:
                break
            lines.append("write %d %d %d %d" % (f, a, b, tag)); size[f] = max(size[f], b)
        elif k < 0.52:
            a = rng.randrange(NCUTS)
            if rng.random() < 0.5 and size[f] > 0:
                a = rng.randrange(size[f] + 1)
            lines.append("setsize %d %d" % (f, a)); size[f] = a
        elif k < 0.64 and len(alc) >= 2:
            a, b = sorted(rng.sample(alc, 2))
            lines.append("punch %d %d %d" % (f, a, b))
        elif k < 0.76 and len(alc) >= 2:
            a, b = sorted(rng.sample(alc, 2))
            lines.append("falloc %d %d %d %d" % (f, a, b, rng.randrange(5)))
        elif k < 0.84:
            lines.append("read %d" % f)
        elif k < 0.90:
            lines.append("flush %d" % f)
        elif k < 0.96:
            lines.append("reopen %d" % f)
        else:
            lines.append("remount")
    lines.append("end")
    return lines


def header(pname, tabs, meta=None):
    k = PROFILES[pname]["kind"]
    return ["mkfile 0 %d" % k, "mkfile 1 %d" % k] + (["mkballast"] if meta and meta.get("strict") else []) + [
            "cuts 0 %d %s" % (NCUTS, " ".join(map(str, tabs[0]["cuts"]))),
            "cuts 1 %d %s" % (NCUTS, " ".join(map(str, tabs[1]["cuts"]))), "begin"]


KEEP = ("e", "f", "a", "b", "tag", "mode", "ret", "full", "acct")
DEFAULTS = (("path", []), ("nd", 0), ("dcut", -9), ("pair", 0))


def execute(job):
    """Run one history; returns dict(trace=[ndjson lines], crash=None|str, raw=[driver lines], detail=str)."""
    b, drv, tmpl, wdir, idx, pname, tabs, body = job[:8]
    meta = job[8] if len(job) > 8 else {}
    img = os.path.join(wdir, "h%06d.img" % idx)
    shutil.copyfile(tmpl, img)
    script = "\n".join(header(pname, tabs, meta) + body) + "\n"
    bs = PROFILES[pname]["bs"]
    try:
        pr = subprocess.run([drv, img], input=script.encode(), stdout=subprocess.PIPE, stderr=subprocess.PIPE, env=tool_env(b), timeout=600)
        rc, out, err = pr.returncode, pr.stdout.decode(), pr.stderr.decode()
    except subprocess.TimeoutExpired:
        os.unlink(img)
        return dict(trace=[], crash="driver timeout (hang)", raw=[], detail="")
    raw = [l for l in out.splitlines() if l.startswith("{")]
    res = dict(trace=[], crash=None, raw=raw, detail="")
    if rc == 3:
        os.unlink(img)
        res["broken"] = "filedrv refused the script: " + err[-300:]
        return res
    al = [[1 if c % bs == 0 else 0 for c in tb["cuts"]] for tb in tabs]
    uok = [0 if PROFILES[pname]["map"] == "ind" else 1] * 2
    eofc = [[max(i for i, c in enumerate(tb["cuts"]) if c <= -(-s // bs) * bs) for s in tb["cuts"]] for tb in tabs]
    tr = [json.dumps({"e": "reset", "al": al, "uok": uok, "eofc": eofc, "strict": 1 if meta.get("strict") else 0,
                      "sit": meta.get("sit", ""), "lad": meta.get("lad", ""), "id": idx}, separators=(",", ":"))]
    last = None
    for l in raw:
        d = json.loads(l)
        last = d
        o = {k: d[k] for k in KEEP}
        for k, dv in DEFAULTS:
            o[k] = d.get(k, dv)
        o["inl"] = d["inl"]
        o["fs"] = [{"obs": x["obs"], "size": x["size"], "len": x["len"], "c": x["c"], "m": x["m"]} for x in d["fs"]]
        if d["e"] == "final":
            o["cret"] = d["cret"]
            ok, det = consistency_oracle(img, b)
            o["consistent"] = 1 if ok else 0
            res["detail"] = det
        tr.append(json.dumps(o, separators=(",", ":")))
    if rc != 0:
        res["crash"] = "filedrv died with %s after %d logged operations (last: %s) %s" % (
            ("signal %d" % -rc) if rc < 0 else ("exit %d" % rc), len(raw), last["e"] if last else "-", err[-200:].strip())
    elif not last or last["e"] != "final":
        res["broken"] = "driver output incomplete"
    res["trace"] = tr
    try:
        os.unlink(img)
    except OSError:
        pass
    return res


def bad_detail(raw, k):
    """Human-readable reason taken from the driver's own diagnostics of line k (0-based among op lines)."""
    if 0 <= k < len(raw):
        d = json.loads(raw[k])
        bits = []
        for g, x in enumerate(d["fs"]):
            if x.get("obs"):
                bits.append("f%d size=%s len=%s cells=%s mapped=%s %s" % (g, x.get("bsize"), x.get("blen"), x["c"], x["m"], x.get("bad", "")))
        return "%s f=%d a=%d b=%d ret=%d err=%s acct=%s path=%s | %s" % (d["e"], d["f"], d["a"], d["b"], d["ret"], d.get("err"),
                json.dumps(d.get("acct"), separators=(",", ":")), d.get("path"), " ; ".join(bits))
    return ""


def nontrivial(body, tabs, bs):
    """partial-block overwrite AND a truncate/punch whose cut lies inside previously written data."""
    written = [set(), set()]
    partial = cut_inside = False
    for ln in body:
        w = ln.split()
        if w[0] == "write":
            f, a, b = int(w[1]), int(w[2]), int(w[3])
            ca, cb = tabs[f]["cuts"][a], tabs[f]["cuts"][b]
            if (ca % bs or cb % bs) and any(i in written[f] for i in range(max(0, a - 1), min(NCUTS - 1, b + 1))):
                partial = True
            written[f].update(range(a, b))
        elif w[0] == "setsize":
            f, a = int(w[1]), int(w[2])
            if (a in written[f]) or (a - 1 in written[f] and any(i >= a for i in written[f])):
                cut_inside = True
            written[f] = {i for i in written[f] if i < a}
        elif w[0] == "punch":
            f, a, b = int(w[1]), int(w[2]), int(w[3])
            if any(a <= i < b for i in written[f]):
                cut_inside = True
            written[f] -= set(range(a, b))
    return partial and cut_inside


# ------------------------------------------------------------------ ExtentMap / IndMap conformance
XCLASSES = {"empty-insert", "unchanged", "already-unmapped", "append", "prepend", "prepend-next", "insert-before", "insert-after",
            "single-replace", "single-delete", "last-unmap", "last-remap-merge-next", "last-remap-insert", "first-unmap",
            "first-remap-merge-prev", "first-remap-insert", "middle-unmap", "middle-remap", "append-uninit", "leaf-block",
            "punch", "punch-front", "punch-whole", "punch-tail", "punch-split", "punch-start-in-hole", "punch-truncate"}


def gen_xset(rng, nops, maxl, pbase):
    """single-block map / remap / unmap calls, biased towards neighbours of what is mapped so that every branch of
    ext2fs_extent_set_bmap is reached; ends with a few punches.  The mirror kept here is only the abstract map."""
    m = {}                       # lblk -> (p, u)
    used = set()
    ever = set()
    lines = ["reserve %d 6000" % pbase]
    nextp = [pbase]
    def fresh():
        nextp[0] += rng.choice([2, 3, 7])
        return nextp[0]
    for _ in range(nops):
        k = rng.random()
        L = rng.randrange(maxl)
        if m and rng.random() < 0.75:
            L = max(0, min(maxl - 1, rng.choice(list(m)) + rng.choice([-2, -1, -1, 0, 0, 1, 1, 2])))
        if k < 0.22 and m:                                   # unmap
            P, u = 0, 0
        else:
            u = 1 if rng.random() < 0.3 else 0
            cands = []
            if L - 1 in m and m[L - 1][0] + 1 not in ever: cands.append(m[L - 1][0] + 1)
            if L + 1 in m and m[L + 1][0] - 1 not in ever and m[L + 1][0] - 1 > pbase: cands.append(m[L + 1][0] - 1)
            if L in m and rng.random() < 0.4:                # same block, maybe other flag (uninit -> init conversion)
                cands = [m[L][0]]
            P = rng.choice(cands) if cands and rng.random() < 0.7 else fresh()
            if (L - 1 in m) and rng.random() < 0.5: u = m[L - 1][1]
            elif (L + 1 in m) and rng.random() < 0.5: u = m[L + 1][1]
            if P in ever and not (L in m and m[L][0] == P):
                P = fresh()             # a released block may have become a tree node meanwhile: never map it again
            while P in ever and not (L in m and m[L][0] == P):
                P = fresh()
        if P == 0 and not m:
            continue                                         # precondition: no unmap on an empty tree
        lines.append("xset 0 %d %d %d" % (L, P, u))
        if L in m:
            used.discard(m[L][0])
        if P:
            m[L] = (P, u); used.add(P); ever.add(P)
        else:
            m.pop(L, None)
    for _ in range(rng.randrange(1, 4)):
        if not m:
            break
        a = max(0, rng.choice(list(m)) + rng.choice([-1, 0, 0, 1]))
        b = a + rng.choice([0, 1, 2, 5, 30])
        if rng.random() < 0.2:
            b = -1
        lines.append("xpunch 0 %d %d" % (a, b))
        for L in list(m):
            if L >= a and (b < 0 or L <= b):
                del m[L]
    return lines


def directed_xset():
    """one short scenario per transition class (the random histories cover them too, these make the quick tier non-vacuous)"""
    R = "reserve 9000 6000"
    run = lambda a, n, p, u=0: ["xset 0 %d %d %d" % (a + i, p + i, u) for i in range(n)]
    return [
        [R] + run(0, 4, 9000) + ["xset 0 1 9001 0", "xset 0 9 0 0", "xpunch 0 1 2", "xpunch 0 0 0", "xpunch 0 3 9"],          # append, unchanged, already-unmapped, punch-split/front/tail
        [R] + ["xset 0 5 9005 0", "xset 0 4 9004 0", "xset 0 9 9020 0", "xset 0 8 9019 0", "xset 0 2 9040 0", "xset 0 7 9050 0", "xpunch 0 6 6", "xpunch 0 3 -1"],   # prepend, insert-after, prepend-next(8), insert-before, punch in hole, truncate
        [R] + ["xset 0 3 9003 0", "xset 0 3 9010 0", "xset 0 3 0 0", "xset 0 3 9003 1", "xset 0 4 9004 1", "xset 0 3 9003 0"],   # single-replace, single-delete, append-uninit, first-remap-insert (flag change)
        [R] + run(0, 4, 9000) + ["xset 0 3 0 0", "xset 0 0 0 0", "xset 0 3 9030 0"] + run(4, 3, 9031) + ["xset 0 2 9029 0", "xset 0 2 0 0", "xset 0 1 9060 0"],
        [R] + run(0, 2, 9000) + run(2, 3, 9100) + ["xset 0 2 9002 0", "xset 0 4 9200 0"] + run(5, 2, 9201) + ["xset 0 6 0 0"],
        [R] + run(0, 7, 9000) + ["xset 0 3 0 0"] + run(10, 7, 9100, 1) + ["xset 0 13 9103 0", "xset 0 14 9104 0", "xset 0 12 9102 0", "xset 0 11 9300 0", "xpunch 0 0 20"],
        [R] + run(0, 5, 9000) + ["xset 0 4 9104 0"] + run(5, 3, 9105) + ["xset 0 4 9004 0", "xset 0 7 9500 0", "xset 0 0 9600 0"],
        [R] + run(0, 6, 9000) + ["xset 0 5 9099 0"] + run(6, 3, 9100) + ["xset 0 5 9099 0", "xset 0 5 9098 0"],
    ]


def gen_xfrag(rng, n, bs_blocks):
    """many one-block extents (every other logical block) -> inode root overflows into leaf blocks, then punches"""
    lines = ["reserve 9000 6000"]
    order = list(range(n))
    if rng.random() < 0.5:
        rng.shuffle(order)
    for i in order:
        lines.append("xset 0 %d %d %d" % (2 * i, 9000 + 3 * i, 0))
    for _ in range(4):
        a = rng.randrange(0, 2 * n); b = a + rng.choice([0, 1, 3, 10, 40])
        lines.append("xpunch 0 %d %d" % (a, b if rng.random() < 0.8 else -1))
    return lines


def gen_cluster_punch(rng):
    """bigalloc: populate through the file API (so that logical and physical clusters line up), dump, punch"""
    lines = []
    for _ in range(rng.randrange(1, 4)):
        lines.append("bwrite 0 %d %d %d" % (rng.choice([0, 3, 15, 16, 17, 30, 32, 40]), rng.choice([1, 2, 5, 14, 16, 20]), rng.randrange(1, 9)))
    lines.append("xdump 0")
    for _ in range(rng.randrange(1, 4)):
        a = rng.choice([0, 1, 5, 15, 16, 17, 20, 31, 32, 33, 47])
        lines.append("xpunch 0 %d %d" % (a, rng.choice([a, a + 1, a + 10, a + 15, a + 16, a + 31, -1])))
    return lines


IND_BOUNDS = [0, 1, 5, 11, 12, 13, 30, 260, 266, 267, 268, 269, 275, 523, 524, 530, 531, 540, 598, 599]


def gen_ind(rng, pattern, npunch, exhaustive_pair=None):
    lines = []
    if pattern == "full":
        lines.append("bwrite 0 0 600 1")
    elif pattern == "sparse":
        for a, n in ((0, 5), (10, 5), (250, 30), (500, 50), (590, 10)):
            lines.append("bwrite 0 %d %d 1" % (a, n))
    elif pattern == "tind":
        for a, n in ((10, 4), (266, 4), (65800, 10)):
            lines.append("bwrite 0 %d %d 1" % (a, n))
    if exhaustive_pair:
        lines.append("bpunch 0 %d %d" % exhaustive_pair)
        return lines
    bounds = IND_BOUNDS + ([65799, 65803, 65804, 65805, 65809] if pattern == "tind" else [])
    for _ in range(npunch):
        a = rng.choice(bounds)
        b = rng.choice([x for x in bounds if x >= a] + [-1])
        lines.append("bpunch 0 %d %d" % (a, b))
    return lines


def exec_map(job):
    b, drv, tmpl, wdir, idx, body = job
    img = os.path.join(wdir, "m%06d.img" % idx)
    shutil.copyfile(tmpl, img)
    script = "mkfile 0 0\n" + "\n".join(body) + "\n"
    try:
        pr = subprocess.run([drv, img], input=script.encode(), stdout=subprocess.PIPE, stderr=subprocess.PIPE, env=tool_env(b), timeout=300)
    except subprocess.TimeoutExpired:
        os.unlink(img)
        return dict(lines=[], crash="driver timeout (hang)", fsck="")
    raw = [l for l in pr.stdout.decode().splitlines() if l.startswith("{")]
    res = dict(lines=raw, crash=None, fsck="")
    if pr.returncode == 3:
        res["broken"] = "filedrv refused the script: " + pr.stderr.decode()[-300:]
    elif pr.returncode != 0:
        res["crash"] = "filedrv died with %s: %s" % (pr.returncode, pr.stderr.decode()[-200:])
    os.unlink(img)
    return res


def map_trace(kind, raw):
    """driver lines -> behaviour for Trace_ExtentMap / Trace_IndMap (first line resets the model)"""
    out = []
    if kind == "ext":
        out.append('{"e":"xreset"}')
        out += raw
    else:
        first = json.loads(raw[0]) if raw else None
        out.append(json.dumps({"e": "breset", "map": first["before"] if first else []}, separators=(",", ":")))
        out += raw
    return out


def run_tlc_trace(mod, cfg, lines, work, name, timeout=900):
    p = os.path.join(work, name + ".ndjson")
    with open(p, "w") as f:
        f.write("\n".join(lines) + "\n")
    r = T.tlc(mod, cfg, workers=1, timeout=timeout, env={"TRACE": p}, xmx="3g")
    return r


def validate_map(kind, cfgname, behaviours, work, ev, tag):
    """returns (failing behaviour indices with (matched, inv, tail)), classes seen"""
    mod = os.path.join(SPEC, "Trace_ExtentMap.tla" if kind == "ext" else "Trace_IndMap.tla")
    cfg = os.path.join(SPEC, cfgname)
    groups, cur, n = [], [], 0
    for i, t in enumerate(behaviours):
        if cur and n + len(t) > 1500:
            groups.append(cur); cur = []; n = 0
        cur.append(i); n += len(t)
    if cur:
        groups.append(cur)
    failing, classes = {}, set()
    import re
    def one(gi_g):
        gi, g = gi_g
        lines = [ln for i in g for ln in behaviours[i]]
        return g, run_tlc_trace(mod, cfg, lines, work, "%s_%s_%d_%d" % (tag, kind, gi, len(g)))
    rounds = 0
    while groups:
        rounds += 1
        with cf.ThreadPoolExecutor(max_workers=JOBS) as ex:
            out = list(ex.map(one, list(enumerate(groups))))
        groups = []
        for g, r in out:
            ev.cov["states"] += r.distinct; ev.cov["transitions"] += r.generated
            for m in re.finditer(r'"CLASSES",\s*\{([^}]*)\}', r.out, re.S):
                classes |= {x.strip().strip('"') for x in m.group(1).split(",") if x.strip()}
            if r.ok:
                continue
            rejected = bool(re.search(r"postcondition|Invariant \S+ is violated", r.out, re.I)) and not re.search(r"Error evaluating|evaluating the expression|was not in the domain|Attempted to", r.out)
            if not rejected:
                die_broken("TLC failed on a %s trace: %s\n%s" % (kind, r.error, r.out[-1500:]))
            matched = r.depth - 1
            pos = 0
            for k, bi in enumerate(g):
                if matched < pos + len(behaviours[bi]):
                    inv = None if r.violated == "POSTCONDITION" else r.violated
                    failing[bi] = (matched - pos, inv, r.out[-800:])
                    if g[k + 1:]:
                        groups.append(g[k + 1:])
                    break
                pos += len(behaviours[bi])
        if len(failing) > 30 or rounds > 60:
            break
    return failing, classes


def run_maps(b, drv, tier, work, ev, vd, rng):
    tm = make_templates(b, work, ["ext4_1k", "ext2_1k", "bigalloc"])
    jobs = []          # (kind, cfg, template, body)
    nx = 60 if tier == "quick" else 1500
    for i in range(nx):
        jobs.append(("ext", "Trace_ExtentMap.cfg", "ext4_1k", gen_xset(rng, rng.choice([6, 12, 25, 40]), rng.choice([8, 12, 30]), 9000)))
    for sc in directed_xset():
        jobs.append(("ext", "Trace_ExtentMap.cfg", "ext4_1k", sc))
    for i in range(3 if tier == "quick" else 40):
        jobs.append(("ext", "Trace_ExtentMap.cfg", "ext4_1k", gen_xfrag(rng, rng.choice([6, 30, 90, 100] if tier == "quick" else [6, 30, 90, 100, 180, 400]), 1)))
    for i in range(15 if tier == "quick" else 400):
        jobs.append(("ext", "Trace_ExtentMap_c16.cfg", "bigalloc", gen_cluster_punch(rng)))
    if tier == "quick":
        for pat in ("full", "sparse", "tind"):
            for i in range(12):
                jobs.append(("ind", "Trace_IndMap.cfg", "ext2_1k", gen_ind(rng, pat, 3)))
    else:
        for pat in ("full", "sparse"):
            for a in IND_BOUNDS:
                for c in [x for x in IND_BOUNDS if x >= a] + [-1]:
                    jobs.append(("ind", "Trace_IndMap.cfg", "ext2_1k", gen_ind(rng, pat, 1, (a, c))))
        for i in range(150):
            jobs.append(("ind", "Trace_IndMap.cfg", "ext2_1k", gen_ind(rng, rng.choice(["full", "sparse", "tind"]), 4)))
    ex_jobs = [(b, drv, tm[j[2]], work, i, j[3]) for i, j in enumerate(jobs)]
    with cf.ThreadPoolExecutor(max_workers=JOBS) as ex:
        results = list(ex.map(exec_map, ex_jobs))
    nfail = 0
    allclasses = set()
    for (kind, cfgname) in (("ext", "Trace_ExtentMap.cfg"), ("ext", "Trace_ExtentMap_c16.cfg"), ("ind", "Trace_IndMap.cfg")):
        idx = [i for i, j in enumerate(jobs) if j[0] == kind and j[1] == cfgname]
        for i in idx:
            if results[i].get("broken"):
                die_broken(results[i]["broken"] + " script=%s" % jobs[i][3][:5])
        beh = [map_trace(kind, results[i]["lines"]) for i in idx]
        failing, classes = validate_map(kind, cfgname, beh, work, ev, cfgname[:-4])
        allclasses |= classes
        for k, i in enumerate(idx):
            r = results[i]
            if r["crash"] and k not in failing:
                failing[k] = (len(r["lines"]), None, r["crash"])
        for k in sorted(failing):
            i = idx[k]
            matched, inv, tail = failing[k]
            # re-run alone before reporting
            rr = run_tlc_trace(os.path.join(SPEC, "Trace_ExtentMap.tla" if kind == "ext" else "Trace_IndMap.tla"), os.path.join(SPEC, cfgname), beh[k], work, "confirm_map")
            if rr.ok and not results[i]["crash"]:
                continue
            nfail += 1
            opi = matched - 1
            line = results[i]["lines"][opi] if 0 <= opi < len(results[i]["lines"]) else ""
            evn = json.loads(line)["e"] if line else "?"
            what = "%s: %s at call %d (%s) of %s: %s" % ("ExtentMap" if kind == "ext" else "IndMap",
                    ("library crash " + results[i]["crash"]) if results[i]["crash"] else ("invariant %s violated" % inv if inv else "the real code diverges from the transcription"),
                    opi, jobs[i][3][opi + (0 if kind == "ext" else 0)] if 0 <= opi < len(jobs[i][3]) else "", jobs[i][2], line[:500])
            vd.violation("%s:%s@%s" % ("map-inv-" + inv if inv else "map-diverge", kind, evn), what,
                         {"kind": "map", "mapkind": kind, "cfg": cfgname, "profile": jobs[i][2], "script": jobs[i][3], "first_unmatched_call": opi, "tlc_tail": tail[-600:]})
        ev.cov["traces_validated_against_impl"] += len(idx) - len([k for k in failing])
        ev.cov["evaluations"] += len(idx)
    ev.cov["map_transition_classes_seen"] = sorted(allclasses)
    missing = XCLASSES - allclasses
    if missing and nfail == 0:
        die_broken("vacuity: ExtentMap transition classes never exercised by the implementation tests: %s" % sorted(missing))
    for i in (0, len(jobs) - 1):
        ev.sample({"map_test": jobs[i][2], "script": jobs[i][3][:10], "last_line": json.loads(results[i]["lines"][-1]) if results[i]["lines"] else None})
    return nfail


# ------------------------------------------------------------------ model checking
def model_check(ev, tier, work, vd):
    """(1) -> (2): exhaustive BFS of the property spec and of the implementation-shaped specs on small constants, simulation of
    FileBuf to depth 20, and the literal (Dev*) variants, which must FAIL (otherwise the deviation constant models nothing)."""
    import re
    FD_INV = ["TypeOK", "NoDataPastEOF", "ReadExact", "LastWriteWins"]
    FB_INV = ["Refines", "ReadRefines", "NoScribble", "BlockMapping"]
    EM_INV = ["Structural", "MapUpdatedExactlyAt", "PunchExact"]
    q = tier == "quick"
    # Every configuration is sized from measurements (each run alone, 4 workers, machine under load 40-60; 2026-09-29):
    #   FileData 2 files / 6 cuts / 3 ops   479 315 distinct, 5.3 M generated, 112 s      (2 / 7 / 3: 1.32 M, 15.6 M, 379 s;
    #   FileData 1 file / 7 cuts / 4 ops    385 894 distinct, 9.8 M generated,  88 s       2 / 7 / 4 does not finish: > 36 M distinct after 50 min)
    #   FileBuf 7 cuts / 4 ops              196 675 distinct, 1.4 M generated,  64 s
    #   ExtentMap L4 P4 C1                  228 273 distinct, 11.4 M generated, 65 s      (L4 P5: 1.16 M, 65 M, 470 s)
    #   ExtentMap L5 P5 C2                  120 260 distinct, 6.3 M generated,  77 s      (L5 P7 C2: no result in 300 s)
    #   IndMap ND3 A3, 1 punch              3 784 distinct, 3 s                           (2 punches: no result in 300 s)
    runs = [   # module, spec, constants, invariants, properties, simulate, expect_violation
        ("FileData", "ASpec", dict(NFiles=2, NCuts=5 if q else 6, MaxOps=3), FD_INV, ["Frame"], None, False),
        ("FileBuf", "Spec", dict(NFiles=1, NCuts=7, MaxOps=3 if q else 4, CPB=2, DevSetSizeStaleBuffer="FALSE"), FB_INV, [], None, False),
        ("FileBuf", "Spec", dict(NFiles=1, NCuts=7, MaxOps=20, CPB=2, DevSetSizeStaleBuffer="FALSE"), FB_INV, [], 500 if q else 8000, False),
        ("FileBuf", "Spec", dict(NFiles=1, NCuts=7, MaxOps=4, CPB=2, DevSetSizeStaleBuffer="TRUE"), FB_INV, [], None, True),
        ("ExtentMap", "ESpec", dict(MaxL=3 if q else 4, MaxP=3 if q else 4, MaxLenInit=4, MaxLenUninit=3, C=1, Inf=99, DevEmptyUnmap="FALSE"), EM_INV, [], None, False),
        ("ExtentMap", "ESpec", dict(MaxL=3, MaxP=3, MaxLenInit=4, MaxLenUninit=3, C=1, Inf=99, DevEmptyUnmap="TRUE"), EM_INV, [], None, True),
        ("IndMap", "ISpec", dict(ND=2, A=2, Inf=9999, DevIndPunchRange="FALSE", MaxPunches=2), ["MapUpdatedExactly"], [], None, False),
        ("IndMap", "ISpec", dict(ND=2, A=2, Inf=9999, DevIndPunchRange="TRUE", MaxPunches=1), ["MapUpdatedExactly"], [], None, True),
    ]
    if not q:       # one file, the full 7 cut points of the conformance runs, one operation deeper
        runs.append(("FileData", "ASpec", dict(NFiles=1, NCuts=7, MaxOps=4), FD_INV, ["Frame"], None, False))
    # space accounting: the allocation protocols keep every unit in exactly one place, in memory and on disk after close; the
    # protocols are instances of the relations conjoined with the trace lines (RefinesRelations); each named deviation alone
    # must break an invariant, and the conformance configuration (DevFallocLeak on) still refines the relations
    SA_INV = ["Conservation", "NoLeak", "DiskRecorded", "NeverNegative"]
    sa = lambda **dev: dict(NOwn=2, Units=7 if not q else 6, MaxFree=6 if not q else 5, MaxMeta=2, RootSlots=4, LeafCap=84, AddrPB=256,
                            **{k: ("TRUE" if dev.get(k) else "FALSE") for k in ("DevFallocLeak", "DevWriteLeak", "DevRangeNotDirty")})
    runs.append(("SpaceAcct", "SSpec", sa(), SA_INV, ["RefinesRelations"], None, False))
    runs.append(("SpaceAcct", "SSpec", sa(DevFallocLeak=1), ["NoLeak"], [], None, True))
    runs.append(("SpaceAcct", "SSpec", sa(DevFallocLeak=1), ["Conservation", "DiskRecorded", "NeverNegative"], ["RefinesRelations"], None, False))
    runs.append(("SpaceAcct", "SSpec", sa(DevWriteLeak=1), ["NoLeak"], [], None, True))
    runs.append(("SpaceAcct", "SSpec", sa(DevRangeNotDirty=1), ["DiskRecorded"], [], None, True))
    if not q:
        runs.append(("ExtentMap", "ESpec", dict(MaxL=5, MaxP=5, MaxLenInit=4, MaxLenUninit=3, C=2, Inf=99, DevEmptyUnmap="FALSE"), EM_INV, [], None, False))
        runs.append(("IndMap", "ISpec", dict(ND=3, A=3, Inf=9999, DevIndPunchRange="FALSE", MaxPunches=1), ["MapUpdatedExactly"], [], None, False))
    ev.cov["model_checking_bounds"] = ("exhaustive BFS within the constants of each tlc_runs label (no state constraint): " +
        ("FileData 2 files x 5 cuts x 3 operations; FileBuf 7 cuts x 3 operations (+ 500 random walks of depth 20); ExtentMap L3 P3; IndMap ND2 A2 x 2 punches; SpaceAcct 6 units"
         if q else
         "FileData 2 files x 6 cuts x 3 operations and 1 file x 7 cuts x 4 operations (2 files x 7 cuts x 4 operations does not finish: > 36 M distinct states after 50 min); "
         "FileBuf 7 cuts x 4 operations (+ 8000 random walks of depth 20); ExtentMap L4 P4 C1 and L5 P5 C2; IndMap ND2 A2 x 2 punches and ND3 A3 x 1 punch; SpaceAcct 7 units"))
    for n, (mod, spec, consts, invs, props, sim, expect_viol) in enumerate(runs):
        cfg = os.path.join(work, "MC_%s_%d.cfg" % (mod, n))
        T.write_cfg(cfg, spec=spec, constants=consts, invariants=invs, properties=props)
        r = T.tlc(os.path.join(SPEC, mod + ".tla"), cfg, workers=4, timeout=300 if q else 900, xmx="4g", simulate=sim, depth=21 if sim else None)
        if sim:
            m = re.search(r"The number of states generated: (\d+)", r.out)
            r.generated = int(m.group(1)) if m else 0
        label = "%s %s %s: %s" % (mod, {k: v for k, v in consts.items()}, ("simulation num=%d depth 20" % sim) if sim else "exhaustive BFS", ", ".join(invs + props))
        if expect_viol:
            label += " [literal behaviour: a violation is REQUIRED]"
        ev.add_tlc(r, label)
        if expect_viol:
            if not r.violated:
                die_broken("the literal (Dev*) variant of %s %s satisfies the invariants: the deviation constant models nothing\n%s" % (mod, consts, r.out[-800:]))
            continue
        if r.violated:
            vd.violation("model:" + mod, "invariant %s violated in %s %s (design-level counterexample)" % (r.violated, mod, consts), {"kind": "model", "tlc": r.out[-3000:]})
        elif not r.ok:
            die_broken("TLC failed on %s: %s\n%s" % (mod, r.error, r.out[-2000:]))


# ------------------------------------------------------------------ the check
def load_known(vd):
    """Known findings of this property live in fixes/C09_known_findings.txt (brief); same format as known_findings.txt."""
    p = os.path.join(VERIF, "fixes", "C09_known_findings.txt")
    if os.path.exists(p):
        for l in open(p):
            l = l.strip()
            if l.startswith("{"):
                d = json.loads(l)
                if d.get("property") == PID and d.get("status", "known") == "known":
                    vd.known[d["key"]] = d


def plan(tier, rng):
    """The universe of this run: list of (profile, (table f0, table f1), nops, obs)."""
    jobs = []
    if tier == "quick":
        profs = ["ext4_1k", "ext2_1k", "bigalloc", "inline", "full", "ext4_4k"]
        per_table, nops = 7, 9
    else:
        profs = [x for x in PROFILES if not x.startswith("lad_")]
        per_table, nops = 60, 14
    for pn in profs:
        tbs = tables(pn, tier)
        for tb in tbs:
            n = per_table
            if tb["name"] in ("leafcap", "tind"):
                n = max(2, per_table // 4)
            for i in range(n):
                other = tb if (tb["pre"] or rng.random() < 0.5) else rng.choice([x for x in tbs if not x["pre"]])
                jobs.append((pn, (tb, other), nops if i % 3 else nops * 2, i % 2))
        for i in range(per_table):
            jobs.append((pn, (random_table(rng, pn), random_table(rng, pn)), nops, i % 2))
    return jobs


def space_universe(work, tier="quick"):
    """The ENOSPC ladder and the session shapes, enumerated by TLC from SpaceAcct (Emit_SpaceLadder)."""
    out = os.path.join(work, "space_universe.json")
    cfg = os.path.join(work, "Emit_SpaceLadder.cfg")
    consts = dict(SPACE_CONSTS, MaxFree=6 if tier == "quick" else 10, DevFallocLeak="TRUE", DevWriteLeak="FALSE", DevRangeNotDirty="FALSE")
    T.write_cfg(cfg, init="Init", next="Next", constants=consts)
    r = T.tlc(os.path.join(SPEC, "Emit_SpaceLadder.tla"), cfg, workers=1, timeout=300, env={"OUT": out}, xmx="1g")
    if not r.ok or not os.path.exists(out):
        die_broken("TLC could not enumerate the ladder universe (Emit_SpaceLadder): %s\n%s" % (r.error, r.out[-1500:]))
    u = json.load(open(out))
    u["ladder"].sort(key=lambda e: (e["sit"], e["op"], e["r"]))
    u["shapes"].sort(key=lambda sh: [(st["op"], st["f"]) for st in sh])
    return u


def plan_ladder(univ):
    """One history per ladder element: prelude establishing the situation, setfree r, the operation, read-back of both files."""
    jobs = []
    for e in univ["ladder"]:
        pn = "lad_ext4" if e["kind"] == "extent" else "lad_ext2"
        bs = PROFILES[pn]["bs"]
        pre, at = e["pre"], e["at"]
        if e["kind"] == "extent":         # [0, pre) prelude, [pre, at) the hole that keeps the new extent apart
            cb = [0, pre, at, at + 1, at + 2, at + 3, at + 4]
            prelude = ["iwrite 0 1 1 0 1 2"]
        else:                              # dense prelude [0, at): the block map has no holes to keep
            cb = [0, at - 1, at, at + 1, at + 2, at + 3, at + 4]
            prelude = ["write 0 0 2 1", "write 1 0 2 2"]
        tb = dict(name="lad_" + e["sit"], cuts=[c * bs for c in cb], pre=0)
        op = ("write 0 2 %d 3" % (2 + e["n"])) if e["mode"] < 0 else ("falloc 0 2 %d %d" % (2 + e["n"], e["mode"]))
        body = ["obs 1"] + prelude + ["setfree %d" % e["r"], op, "read 1", "read 0", "end"]
        jobs.append((pn, (tb, tb), body, dict(strict=1, sit=e["sit"], lad=e["op"], r=e["r"])))
    return jobs


def plan_sessions(univ, tier, rng):
    """Session shapes: every operation in its own open..close session of the filesystem; after the last one both files are
    read back from disk.  All ordered pairs on ext4_1k; a seeded sample on the other mapping types."""
    jobs = []
    shapes = univ["shapes"]
    for pn in ("ext4_1k", "bigalloc", "ext4_4k", "ext2_1k"):
        tb = [t for t in tables(pn, tier) if t["name"] == "aligned"][0]
        pick = shapes if (pn == "ext4_1k" or tier != "quick") else rng.sample(shapes, 12)
        for sh in pick:
            body = ["obs 1", "remount"]
            for i, st in enumerate(sh):
                body.append(("write %d %d %d %d" % (st["f"], st["a"], st["b"], i + 1)) if st["mode"] < 0 else
                            ("falloc %d %d %d %d" % (st["f"], st["a"], st["b"], st["mode"])))
                body.append("remount")
            body += ["read 0", "read 1", "end"]
            jobs.append((pn, (tb, tb), body, dict(shape="%s%d>%s%d" % (sh[0]["op"], sh[0]["f"], sh[1]["op"], sh[1]["f"]))))
    return jobs


def run_filedata(b, drv, tier, work, ev, vd, rng):
    global INLINE_MAX
    jobs = plan(tier, rng)
    names = sorted({j[0] for j in jobs})
    tm = make_templates(b, work, names)
    INLINE_MAX = probe_inline_max(b, drv, tm.get("inline"), work) if "inline" in tm else INLINE_MAX
    if "inline" in tm:          # tables depend on the probed limit: re-plan with the same seed
        rng2 = random.Random(seed())
        jobs = plan(tier, rng2)
    hist = []
    for idx, (pn, tabs, nops, obs) in enumerate(jobs):
        body = gen_history(rng, tabs, PROFILES[pn]["bs"], nops, obs)
        hist.append((b, drv, tm[pn], work, idx, pn, tabs, body, {}))
    # spec-enumerated families: ENOSPC ladder and session shapes
    univ = space_universe(work, tier)
    fam = plan_ladder(univ) + plan_sessions(univ, tier, rng)
    tm.update(make_templates(b, work, sorted({j[0] for j in fam} - set(tm))))
    for (pn, tabs, body, meta) in fam:
        hist.append((b, drv, tm[pn], work, len(hist), pn, tabs, body, meta))
    with cf.ThreadPoolExecutor(max_workers=JOBS) as ex:
        results = list(ex.map(execute, hist))
    return check_results(b, hist, results, work, ev, vd, tier, univ)


def probe_inline_max(b, drv, tmpl, work):
    """Largest size a file of this filesystem keeps inline (60 bytes of i_block + the free in-inode xattr space)."""
    lo = 60
    img = os.path.join(work, "probe.img")
    for n in range(61, 400):
        shutil.copyfile(tmpl, img)
        s = "mkfile 0 1\nmkfile 1 1\ncuts 0 2 0 %d\ncuts 1 2 0 %d\nwrite 0 0 1 1\nend\n" % (n, n)
        pr = subprocess.run([drv, img], input=s.encode(), stdout=subprocess.PIPE, stderr=subprocess.PIPE, env=tool_env(b), timeout=60)
        if pr.returncode != 0:
            break
        fin = json.loads(pr.stdout.decode().splitlines()[-1])
        if not (fin["ino"][0]["flags"] & 0x10000000):
            break
        lo = n
    os.unlink(img)
    return lo


def classify(pn, tabs, body, raw, k, inv, crash):
    """Key of a divergence.  Only exact named keys listed in fixes/C09_known_findings.txt are ever downgraded."""
    ev = "?"
    if 0 <= k < len(raw):
        ev = json.loads(raw[k])["e"]
    return "%s:%s@%s" % ("crash" if crash else ("inv-" + inv if inv else "diverge"), PROFILES[pn]["map"], ev)


def validate_all(tb, mod, cfg, work, chunk_lines, maxfail=40):
    """Validate every behaviour: chunks of <= chunk_lines lines, one TLC run each; when a chunk is rejected the behaviour
    holding the first unmatched line is set aside and the rest of that chunk is validated again as one chunk.  Returns
    (set of failing behaviour indices, distinct, generated)."""
    groups, cur, n = [], [], 0
    for i, t in enumerate(tb):
        if cur and n + len(t) > chunk_lines:
            groups.append(cur); cur = []; n = 0
        cur.append(i); n += len(t)
    if cur:
        groups.append(cur)
    failing, dist, gen = set(), 0, 0
    rnd = [0]
    def one(g):
        d = os.path.join(work, "g%d_%d_%d" % (rnd[0], g[0], len(g)))
        os.makedirs(d, exist_ok=True)
        p = os.path.join(d, "chunk.ndjson")
        with open(p, "w") as f:
            for i in g:
                f.write("\n".join(tb[i]) + "\n")
        return g, tracecheck._run_chunk((mod, cfg, p, sum(len(tb[i]) for i in g), 900, False))
    while groups:
        rnd[0] += 1
        with cf.ThreadPoolExecutor(max_workers=JOBS) as ex:
            out = list(ex.map(one, groups))
        groups = []
        for g, r in out:
            dist += r["distinct"]; gen += r["generated"]
            if r["accepted"]:
                continue
            if r["error"] and r["violated"] is None and not re_rejected(r["out_tail"]):
                die_broken("TLC failed on a trace chunk: %s\n%s" % (r["error"], r["out_tail"][-1500:]))
            m = r["matched"] if r["matched"] is not None else 0
            pos, k = 0, len(g) - 1
            for j, i in enumerate(g):
                if m < pos + len(tb[i]):
                    k = j; break
                pos += len(tb[i])
            failing.add(g[k])
            if g[k + 1:]:
                groups.append(g[k + 1:])
        if len(failing) >= maxfail:
            break
    return failing, dist, gen


def read_notes(root):
    """Notes written by Trace_FileData!Record next to the trace files: <<sit, r, op, outcome>> ladder elements seen in accepted
    ladder histories, and the ids of accepted histories in which the named deviation DevFallocLeak shows."""
    seen, dev = set(), set()
    for dp, _, fns in os.walk(root):
        for fn in fns:
            if fn.endswith(".note.json"):
                try:
                    d = json.load(open(os.path.join(dp, fn)))
                    for t in d["lad"]:
                        seen.add((t[0], int(t[1]), t[2], int(t[3])))
                    dev |= {int(x) for x in d["dev"]}
                except (ValueError, OSError, IndexError, KeyError):
                    pass
                os.unlink(os.path.join(dp, fn))
    return seen, dev


def check_results(b, hist, results, work, ev, vd, tier, univ=None):
    for h, r in zip(hist, results):
        if r.get("broken"):
            die_broken("%s (profile %s, script %s)" % (r["broken"], h[5], h[7][:8]))
    tb = [r["trace"] for r in results]
    mod, cfg = os.path.join(SPEC, "Trace_FileData.tla"), os.path.join(SPEC, "Trace_FileData.cfg")
    cfg_strict = os.path.join(SPEC, "Trace_FileData_strict.cfg")
    failing, dist, gen = validate_all(tb, mod, cfg, work, 2500 if tier == "quick" else 8000)
    ev.cov["states"] += dist; ev.cov["transitions"] += gen
    ev.cov["trace_lines_validated"] = sum(len(t) for t in tb)
    seen, dev = read_notes(work)
    # a crashed driver leaves a trace without a final line: always look at it on its own
    failing |= {i for i, r in enumerate(results) if r["crash"]}
    nfail = 0
    for bi in sorted(failing):
        rej, matched, inv, tail, _ = tracecheck.confirm(tb[bi], mod, cfg, work)     # re-run alone before reporting
        s2, d2 = read_notes(work)
        seen |= s2; dev |= d2
        r = results[bi]
        if not rej and not r["crash"]:
            continue
        pn, tabs, body = hist[bi][5], hist[bi][6], hist[bi][7]
        meta = hist[bi][8] if len(hist[bi]) > 8 else {}
        k = (matched if matched is not None else 0) - 1        # index among the op lines (line 0 is the reset)
        if rej and inv and k > 0:
            k -= 1                                             # an invariant fails IN the state after the line: that line is the culprit
        crashed = bool(r["crash"]) and not rej
        if crashed:
            k = len(r["raw"])
        det = bad_detail(r["raw"], k)
        nfail += 1
        key = classify(pn, tabs, body, r["raw"], k, inv, crashed)
        if k < len(r["raw"]) and json.loads(r["raw"][k])["e"] == "final" and r["detail"]:
            det += " || " + r["detail"]
        what = "%s on %s/%s+%s%s at operation %d: %s" % (("library crash: " + r["crash"]) if crashed else ("invariant %s violated" % inv if inv else "trace rejected (implementation diverges from FileData / SpaceAcct)"),
                                                    pn, tabs[0]["name"], tabs[1]["name"], (" [%s]" % json.dumps(meta, sort_keys=True)) if meta else "", k, det[:700])
        vd.violation(key, what, {"kind": "filedata", "profile": pn, "tables": [tabs[0], tabs[1]], "script": body, "meta": meta, "first_unmatched_op": k, "inline_max": INLINE_MAX,
                                 "driver_lines": r["raw"][max(0, k - 2):k + 1], "tlc_tail": tail[-800:]})
    # accepted by the conformance configuration (DevFallocLeak enabled) but only through the deviation: the known finding.
    # Once per run the link to the property is re-established: such a behaviour must fail the invariant NoFallocLeak (and nothing else).
    dev = sorted(i for i in dev if 0 <= i < len(hist) and i not in failing)
    if dev:
        rej, matched, inv, tail, _ = tracecheck.confirm(tb[dev[0]], mod, cfg_strict, work)
        read_notes(work)
        if not (rej and inv == "NoFallocLeak"):
            die_broken("a behaviour noted as taking DevFallocLeak does not violate NoFallocLeak: %s" % tail[-800:])
    for bi in dev:
        pn, tabs, body = hist[bi][5], hist[bi][6], hist[bi][7]
        meta = hist[bi][8] if len(hist[bi]) > 8 else {}
        fal = [json.loads(x) for x in results[bi]["raw"]]
        fal = [x for x in fal if x["acct"]["stray"] > 0][:1]
        ev.cov.setdefault("known_deviation_behaviours", []).append("%s/%s %s" % (pn, tabs[0]["name"], (meta.get("lad", "") + " r=%s" % meta["r"]) if "r" in meta else "random"))
        vd.violation(DEV_FALLOC, "fallocate leaks the range it claimed on %s/%s: %s" % (pn, tabs[0]["name"], json.dumps(fal[0]["acct"]) if fal else ""),
                     {"kind": "filedata", "profile": pn, "tables": [tabs[0], tabs[1]], "script": body, "meta": meta, "inline_max": INLINE_MAX})
    ev.cov["traces_validated_against_impl"] += len(tb) - nfail
    ev.cov["evaluations"] += len(tb)
    for h in hist:
        pn, tabs, body = h[5], h[6], h[7]
        if nontrivial(body, tabs, PROFILES[pn]["bs"]):
            ev.nontrivial((pn, tabs[0]["name"], tuple(tabs[0]["cuts"]), tuple(body)))
    for i in (0, len(hist) // 3, 2 * len(hist) // 3):
        if i < len(hist):
            ev.sample({"profile": hist[i][5], "cuts_f0": hist[i][6][0]["cuts"], "script": hist[i][7][:12], "last_trace_line": json.loads(tb[i][-1]) if tb[i] else None})
    if univ is not None:
        ladder_coverage(univ, hist, seen, nfail, ev)
    return nfail


def ladder_coverage(univ, hist, seen, nfail, ev):
    """Vacuity guard: every ladder element SpaceAcct defines was issued in the situation it names (TLC: SitHolds on the observed tree
    path) with exactly r units free, and every (situation, operation) column shows both a success and an ENOSPC outcome."""
    want = {(e["sit"], e["r"], e["op"]) for e in univ["ladder"]}
    got = {(s, r, o) for (s, r, o, _) in seen}
    out = {}
    for (s, r, o, oc) in seen:
        out.setdefault((s, o), set()).add(oc)
    ev.cov["ladder"] = {"elements": len(want), "reached": len(want & got),
                        "outcomes": {"%s/%s" % k: "".join(str(seen_oc) for seen_oc in sorted(v)) for k, v in sorted(out.items())},
                        "by_r": {str(r): sorted({"%s/%s:%d" % (s, o, oc) for (s, rr, o, oc) in seen if rr == r}) for r in sorted({e["r"] for e in univ["ladder"]})},
                        "session_shapes": sum(1 for h in hist if len(h) > 8 and h[8].get("shape"))}
    if nfail:
        return          # a rejected ladder history is reported as such; it cannot also count as reached
    missing = sorted(want - got)
    if missing:
        die_broken("vacuity: %d ladder elements were not reached in the situation they name (harness did not establish it?): %s" % (len(missing), missing[:8]))
    onesided = sorted(k for k in {(s, o) for (s, r, o) in want} if not (0 in out.get(k, ()) and (out.get(k, set()) & {1, 2})))
    if onesided:
        die_broken("vacuity: ladder columns without both a success and an ENOSPC outcome: %s" % onesided)


def run(tier):
    ev = Evidence(PID, tier, "model_checking")
    vd = Verdict(PID, ev)
    load_known(vd)
    work = fast_tmp()
    try:
        try:
            b = build.build()
            drv = build.driver(b, "filedrv")
        except RuntimeError as e:
            die_broken(str(e))
        model_check(ev, tier, work, vd)
        rng = random.Random(seed())
        run_filedata(b, drv, tier, work, ev, vd, rng)
        run_maps(b, drv, tier, work, ev, vd, rng)
        ev.cov["rule"] = ("histories over {write, setsize, punch, falloc x4 modes, read, flush, reopen, remount} on 2 files / 7 cut points, concretised by the "
                          "boundary tables of each profile (block +-1, cluster +-1, 12 / 12+A logical blocks, leaf capacity 4 / (bs-12)/12, inline 60 / limit) plus seeded "
                          "picks from the boundary catalogue; plus the two families SpaceAcct enumerates (Emit_SpaceLadder): the ENOSPC ladder = situation "
                          "{root_full, leaf_full, index_full, ind, dind} x r in 0..6 free units x operation {W1, W2, F1u, F2z}, and the session shapes = ordered pairs of "
                          "{W, FU, FZ, FK} x 2 files, one per open..close session; every line also carries the space-accounting record; non-trivial = history with a "
                          "partial-block overwrite of written data AND a truncate/punch cutting into written data; distinct by (profile, table, operation sequence)")
        ev.cov["checker_cmd"] = "TRACE=<chunk> tlc -workers 1 -config spec/Trace_FileData.cfg spec/Trace_FileData.tla (POSTCONDITION TraceAccepted)"
        ev.assumptions = [
            "ext2fs_punch / ext2fs_fallocate are issued while no ext2_file_t is open on the inode (the driver closes and reopens the handle around them), as fuse2fs and debugfs do",
            "ext2fs_fallocate is not issued with FORCE_INIT without ZERO_BLOCKS (exposes stale blocks by design; no in-tree caller does it)",
            "a short write is retried from where it stopped; an operation failing with the ENOSPC class taints that file (its content is no longer compared), any other error must leave the state unchanged",
            "consistency oracle = e2fsck -fn exit status of the built tree (single function consistency_oracle; the independent reader plugs in there)",
            "space accounting follows files 0, 1 and the ballast; everything in use before the first operation (the template made by mke2fs, the filler file, the root directory) is the base and is only required to stay marked",
            "ENOSPC ladder: a spurious ENOSPC (failure although enough units are free) is not a violation of the property text; the check only requires that every ladder column shows a success and a failure (else CHECK-BROKEN)",
            "known finding DevFallocLeakOnInsertFail: Trace_FileData.cfg has SpaceAcct!DevFallocLeak = TRUE; behaviours accepted only through that branch are listed by TLC and printed as KNOWN-FINDING",
        ]
        return vd.finish()
    finally:
        shutil.rmtree(work, ignore_errors=True)


def replay(path):
    d = json.load(open(path))
    rp = d["replay"]
    work = fast_tmp()
    global INLINE_MAX
    try:
        b = build.build(); drv = build.driver(b, "filedrv")
        if rp.get("kind", "filedata") != "filedata":
            return replay_map(b, drv, rp, work, path)
        pn = rp["profile"]
        INLINE_MAX = rp.get("inline_max", INLINE_MAX)
        tm = make_templates(b, work, [pn])
        r = execute((b, drv, tm[pn], work, 0, pn, rp["tables"], rp["script"], rp.get("meta", {})))
        if r.get("broken"):
            die_broken(r["broken"])
        # the replay is judged with the property invariant NoFallocLeak listed, so that a known finding shows as what it is
        mod, cfg = os.path.join(SPEC, "Trace_FileData.tla"), os.path.join(SPEC, "Trace_FileData_strict.cfg")
        rej, matched, inv, tail, _ = tracecheck.confirm(r["trace"], mod, cfg, work)
        if r["crash"] or rej:
            k = (matched if matched is not None else 0) - 1
            if rej and inv and k > 0:
                k -= 1
            print("diverges at operation %s%s: %s %s" % (k, (" (invariant %s)" % inv) if inv else "", bad_detail(r["raw"], k), r["crash"] or ""))
            if r["detail"]:
                print(r["detail"])
            print("VIOLATION property=%s replay=%s" % (PID, path)); return 1
        print("replay accepted (%d operations)" % (len(r["trace"]) - 1)); return 0
    finally:
        shutil.rmtree(work, ignore_errors=True)


def replay_map(b, drv, rp, work, path):
    tm = make_templates(b, work, [rp["profile"]])
    r = exec_map((b, drv, tm[rp["profile"]], work, 0, rp["script"]))
    if r.get("broken"):
        die_broken(r["broken"])
    kind = rp["mapkind"]
    beh = map_trace(kind, r["lines"])
    rr = run_tlc_trace(os.path.join(SPEC, "Trace_ExtentMap.tla" if kind == "ext" else "Trace_IndMap.tla"), os.path.join(SPEC, rp["cfg"]), beh, work, "replay_map")
    if r["crash"] or not rr.ok:
        if not r["crash"] and not re_rejected(rr.out):
            die_broken("TLC failed: %s\n%s" % (rr.error, rr.out[-1200:]))
        k = rr.depth - 2
        print("diverges at call %d: %s %s" % (k, r["lines"][k][:600] if 0 <= k < len(r["lines"]) else "", r["crash"] or ""))
        print("VIOLATION property=%s replay=%s" % (PID, path)); return 1
    print("replay accepted (%d calls)" % len(r["lines"])); return 0


def re_rejected(out):
    import re
    return bool(re.search(r"postcondition|Invariant \S+ is violated", out, re.I)) and not re.search(r"Error evaluating|evaluating the expression|was not in the domain|Attempted to", out)
