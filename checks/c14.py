"""C14 -- metadata checksums: format-exact and covering every protected byte (level: other, see DESIGN.md section 6).

Clause (c) CRC primitives = bit-serial definitions (spec/Crc.tla evaluated by TLC) for short buffers at every alignment.
Clause (a) every metadata object written by the tools carries the format's checksum: conjunct Csums of Ext4Abs.Consistent
           on images produced by mke2fs/debugfs/tune2fs/resize2fs/e2fsck (independent reader recomputes).  The universe of
           images (geometry catalogue, pre-states holding every object shape an operation's changed checksum inputs reach)
           and of tool-written journals is stated by spec/CsumUniverse.tla and enumerated by TLC; journals are decoded by
           the independent jbd2 decoder (gen/jbd2write.py, gen/c14_journal.py) and decided by TLC (Trace_CsumUniverse).
Clause (b) flipping a covered byte of a live metadata object is detected by e2fsck -fn and by the library
           (fault enumeration guided by the reader's location map and CsumCoverage), on every descriptor / inode size."""
import os, sys, json, random, shutil, subprocess
from common import VERIF, fast_tmp, seed, die_broken, NPROC, tool_env
from common import run as sh
import build, tlc as T, tracecheck
from evidence import Evidence, Verdict

PID = "C14"
SPEC = os.path.join(VERIF, "spec")


def clause_c(b, ev, vd, tier, work, rng):
    drv = build.driver(b, "crcdrv")
    maxlen = 48 if tier == "quick" else 64
    lines_in = []
    pats = ["zero", "ones", "ramp", "rand"]
    for alg in ("crc32c_le", "crc32_be", "crc16"):
        for n in range(0, maxlen + 1):
            for al in range(8):
                for pi, pat in enumerate(pats):
                    if pat == "zero": buf = bytes(n)
                    elif pat == "ones": buf = b"\xff" * n
                    elif pat == "ramp": buf = bytes((7 * i + 1) & 255 for i in range(n))
                    else: buf = bytes(rng.randrange(256) for _ in range(n))
                    sd = rng.choice([0, 0xffffffff, 0x12345678, rng.randrange(1 << 32)])
                    if alg == "crc16": sd &= 0xffff
                    lines_in.append("%s %x %d %s" % (alg, sd, al, buf.hex() or "-"))
    p = subprocess.run([drv], input=("\n".join(lines_in) + "\n").encode(), stdout=subprocess.PIPE, timeout=300)
    if p.returncode != 0:
        die_broken("crcdrv failed")
    out = p.stdout.decode().splitlines()
    if len(out) != len(lines_in):
        die_broken("crcdrv: %d results for %d inputs" % (len(out), len(lines_in)))
    res = tracecheck.validate_lines(out, os.path.join(SPEC, "Trace_Crc.tla"), os.path.join(SPEC, "Trace_Crc.cfg"), work, chunk=250)
    if res["broken"]:
        die_broken("TLC failed on Trace_Crc: %s\n%s" % (res["broken"][0]["error"], res["broken"][0]["tail"][-1200:]))
    ev.cov["states"] += res["distinct"]; ev.cov["transitions"] += res["generated"]
    for i in res["bad"]:
        d = json.loads(out[i])
        vd.violation("crc|%s|len%d|align%d" % (d["alg"], len(d["buf"]), d["align"]),
                     "%s of a %d-byte buffer at alignment %d differs from the bit-serial definition" % (d["alg"], len(d["buf"]), d["align"]), {"line": d})
    ev.cov["crc_inputs"] = len(out)
    ev.cov["crc_max_len"] = maxlen
    for o in out[:2]:
        ev.sample(json.loads(o))
    return len(out), len(res["bad"])


def run(tier):
    ev = Evidence(PID, tier, "other")
    vd = Verdict(PID, ev)
    work = fast_tmp()
    try:
        try:
            b = build.build()
        except RuntimeError as e:
            die_broken(str(e))
        rng = random.Random(seed())
        n_c, bad_c = clause_c(b, ev, vd, tier, work, rng)
        n_ab = 0
        try:
            import c14_ab
            n_ab = c14_ab.run(b, ev, vd, tier, work, rng)
        except ImportError:
            ev.cov["clauses_a_b"] = "not evaluated in this run"
        ev.cov["evaluations"] = n_c + n_ab
        ev.cov["distinct_nontrivial"] = n_c - bad_c
        for i in range(n_c):
            ev.nontrivial(("crc", i))
        ev.cov["traces_validated_against_impl"] = n_c - bad_c
        ev.cov["explanation"] = ("(c) CRC results of the real library on buffers of length 0..%d at alignments 0..7 (4 content patterns, 3 algorithms, varied seeds) are compared by TLC "
                                 "with the bit-serial definitions in spec/Crc.tla; longer buffers are NOT decided by the specification (TLC cannot fold kilobytes). "
                                 "(a) Ext4Abs!Csums (TLC) on the independent reader's projection of every image of the universe CsumUniverse.tla states "
                                 "(TLC-enumerated: base profiles x operations, geometry catalogue desc size 32/64/128 x inode size 128/256/512 x crc16/crc32c x flex_bg "
                                 "on populated pre-states, mandatory elements in every run, census of required witnesses decided by TLC), and CsumUniverse!JournalOK (TLC) on "
                                 "the independent decode of every journal the tools wrote for the mandatory + sampled scenarios (debugfs jo/jw/jc with escaped blocks, "
                                 "full / overflowing descriptor and revoke blocks, csum v1/v2/v3, 32/64-bit tags, recovery by e2fsck and debugfs jr). "
                                 "(b) see clauses_a_b and b_*." % ev.cov["crc_max_len"])
        ev.cov["rule"] = ("one evaluation = one (algorithm, seed, length, alignment, pattern) CRC input, one tool-produced image (profile or geometry, operation), "
                          "one tool-written journal (scenario of CsumUniverse) or one byte flip; non-trivial = CRC inputs, images, journals, and flips that carry an "
                          "obligation (covered byte, stored checksum stale); distinct by input / (image, operation) / scenario / (image, object, offset)")
        ev.assumptions = ["CRC reference limited to short buffers (<= 64 bytes); the slice-by-8 main loop on long buffers is exercised only through clause (a) against the reader's own python CRC",
                          "debugfs journal writer: one jw per jo .. jc session (what every in-tree user does; the writer guesses the end of a transaction, a second jw in the same session may overwrite the first commit block -- not a checksum matter)",
                          "journals: internal journal inode only; block numbers below 2^32 (t_blocknr_high is 0 on the small images)",
                          "tune2fs is run with -f (no prompt); on the MMP image that also skips MMP (known finding a|mmp|tune_U while unrepaired)"]
        return vd.finish()
    finally:
        shutil.rmtree(work, ignore_errors=True)


def replay(path):
    rp = json.load(open(path))["replay"]
    if "line" not in rp:
        return replay_ab(path, rp)
    d = rp["line"]
    work = fast_tmp()
    try:
        b = build.build(); drv = build.driver(b, "crcdrv")
        sd = (d["seed_hi"] << 16) | d["seed_lo"]
        p = subprocess.run([drv], input=("%s %x %d %s\n" % (d["alg"], sd, d["align"], bytes(d["buf"]).hex() or "-")).encode(), stdout=subprocess.PIPE)
        out = p.stdout.decode().splitlines()
        res = tracecheck.validate_lines(out, os.path.join(SPEC, "Trace_Crc.tla"), os.path.join(SPEC, "Trace_Crc.cfg"), work)
        print(out[0])
        if res["bad"] or res["broken"]:
            print("VIOLATION property=%s replay=%s" % (PID, path)); return 1
        print("replay accepted"); return 0
    finally:
        shutil.rmtree(work, ignore_errors=True)


def replay_ab(path, rp):
    """replays of clauses (a) / (b): the saved universe element is run again through the same code path (known findings are
    NOT filtered here: a replay of a known finding prints VIOLATION as long as the defect is there)"""
    import c14_ab
    work = fast_tmp()
    try:
        b = build.build()
        r = c14_ab.replay_one(b, rp, work)
        print(json.dumps(r)[:1500])
        if r.get("violated"):
            print("VIOLATION property=%s replay=%s" % (PID, path)); return 1
        print("replay accepted"); return 0
    finally:
        shutil.rmtree(work, ignore_errors=True)
