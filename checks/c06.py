"""C06 -- no memory-safety violation, crash or hang on arbitrary input; documented exit status.   (level: exploration)

What the TLA+ technique decides here is the tool-run CONTRACT (DESIGN section 6), not memory safety itself:

(1) TLC model-checks spec/ToolExit.tla (extends C13's ToolRun.tla): the documented tool, ending by itself with a status
    of the per-tool / per-mode table, satisfies Robust = TerminatedWithinBound /\\ NoSignal /\\ NoMemoryError /\\
    NoUndefinedBehaviour /\\ ExitDocumented6, and the table is sane (TableSane6, refines C13's table).  Negative control:
    with the fault steps enabled (FaultSpec: signal, intercepted signal, hang, sanitizer report, undocumented status)
    TLC must find Robust violated -- the clauses are not vacuous.
(2) Conformance: the ASan + UBSan build of the CURRENT tree (observation amplifier) is run over a closed, seeded universe of
    inputs (gen/c06_inputs.py: structured single- and multi-field corruptions of every metadata object class of the 15
    mkbase profiles through the independent reader's location map, the C13 image states, damaged journals written by
    gen/jbd2write.py, damaged undo files, damaged qcow2 images, an external journal, raw byte strings, unstructured
    byte mutations; plus the READER-BOUND families of spec/C06Readers.tla -- multi-field undo-header and key corruptions
    placed on / around / between the bounds e2undo derives from the header, qcow2 header pairs around the converter's
    bounds with the output file absent or present, summary counters on the boundaries of what resize2fs -P derives from
    them, degenerate journal rings -- all with the checksums recomputed; TLC checks the readers' models (repaired reader
    safe, catalogue adequate: a confused bound or a literal reader of the pinned tree misbehaves on some element) and
    writes the catalogue the concretiser evaluates) x the tools and modes the property lists.  Every run is two trace lines {start: tool, mode, class}
    {end: exit status, signal, intercepted signal, timed out, sanitizer report kinds}; TLC validates every run against
    spec/Trace_ToolExit.tla (ObservedEnd step, Robust evaluated in the reached state; a failing run is printed as BADLINE
    with the names of the failing clauses and the scan continues).  The verdict of every run is TLC's.
(3) Every failing run gets a signature  tool:kind:top in-tree frames  (or tool:EXITn:mode, tool:TIMEOUT:...).  One
    representative per signature is re-run alone (a timeout counts only if it repeats), minimised (pokes dropped while the
    signature stays), judged by TLC again, and reported: KNOWN-FINDING if the signature is listed in known_findings.txt /
    fixes/C06_known_findings.txt, VIOLATION otherwise."""
import os, sys, json, re, random, shutil, subprocess, time, hashlib, signal, resource, collections
import concurrent.futures as cf
from common import VERIF, fast_tmp, seed, die_broken, NPROC, tool_env
import build, tlc as T
from evidence import Evidence, Verdict
import c06_inputs as G

PID = "C06"
SPEC = os.path.join(VERIF, "spec")
TRACE_TLA = os.path.join(SPEC, "Trace_ToolExit.tla")
TRACE_CFG = os.path.join(SPEC, "Trace_ToolExit.cfg")
TIMEOUT = 20                    # seconds of CPU time per run (sanitised e2fsck -fn of an 8 MiB image: ~20 ms)
WALL_FACTOR = 12                # wall-clock backstop = WALL_FACTOR x TIMEOUT, for a run that blocks without computing
JOBS = min(NPROC, 8)
# ASan + UBSan with RECOVERABLE UBSan checks: lib/build.py's "asan" flavour aborts at the first UBSan report, so that a
# misaligned load in the journal dumper or a shift in the superblock parser hides everything behind it; here such a report
# is logged and the run goes on to the out-of-bounds access the property is about.
FLAVOUR = "asanrec"
build.FLAVOURS.setdefault(FLAVOUR, dict(cc="clang", cflags="-g -O1 -fsanitize=address,undefined -fsanitize-recover=undefined "
                                        "-fno-omit-frame-pointer -D" + build.GUARD, ldflags="-fsanitize=address,undefined"))
MAX_FSIZE = 128 << 20           # a tool may not write more than this to any one file (EFBIG; SIGXFSZ ignored)

Inv = collections.namedtuple("Inv", "id tool mode argv core")
TOOLBIN = {"@e2fsck": "e2fsck/e2fsck", "@debugfs": "debugfs/debugfs", "@dumpe2fs": "misc/dumpe2fs", "@tune2fs": "misc/tune2fs",
           "@resize2fs": "resize/resize2fs", "@e2image": "misc/e2image", "@e2freefrag": "misc/e2freefrag", "@e2undo": "misc/e2undo"}

# debugfs read-only request scripts (<= 16 requests each: the exit status of debugfs -f is the number of failed requests)
SCRIPTS = {
    "walk": ["ls -l /", "ls -l {dir}", "ls -d {dir2}", "htree {dir}", "htree /", "dirsearch {dir} n0007", "ncheck 12 13 14 2", "icheck 300 1200 5000",
             "stat {big}", "stat {dir}", "stat <2>", "stat <7>", "stat <8>", "filefrag -dvr /", "lsdel", "ls -r {sub}"],
    "content": ["cat {small}", "cat {inl}", "cat {slow}", "dump {big} {out}", "dump -p {sparse} {out}", "rdump {sub} {outdir}", "ex {big}", "ex -n {sparse}",
                "blocks {big}", "bmap {big} 0", "bmap {big} 280", "idump -b {big}", "idump -x {xattr}", "ea_list {xattr}", "ea_get {xattr} {xname}",
                "ea_list {inl}"],
    "meta": ["stats", "stats -h", "logdump -a", "logdump -S", "logdump -O", "dump_mmp", "lq user", "lq group", "orphan_inodes", "freefrag", "ffb 3 100", "ffi",
             "testb 300 20", "testi <12>", "imap <12>", "dump_unused"],
    "extent": ["eo {big}", "root", "info", "all", "nl", "pl", "ns", "ps", "last_leaf", "down", "up", "goto 5", "current", "ec", "eo {sparse}", "all"],
}


def fs_invocations(base):
    L = []

    def add(id_, tool, mode, argv, core=False):
        L.append(Inv(id_, tool, mode, argv, core))
    add("fsck-fn", "e2fsck", "n", ["@e2fsck", "-fn", "{img}"], True)
    add("fsck-n", "e2fsck", "n", ["@e2fsck", "-n", "{img}"])
    add("fsck-pf", "e2fsck", "p", ["@e2fsck", "-p", "-f", "{img}"], True)
    add("fsck-fy", "e2fsck", "y", ["@e2fsck", "-fy", "{img}"], True)
    add("fsck-fyD", "e2fsck", "y", ["@e2fsck", "-fyD", "{img}"])
    bs = base.info.get("bs", 1024)
    if "sb_backup1" in base.loc:
        add("fsck-fn-b", "e2fsck", "n", ["@e2fsck", "-fn", "-b", str(base.loc["sb_backup1"] // bs), "-B", str(bs), "{img}"])
    for n in ("walk", "content", "meta", "extent"):
        add("dbg-f-" + n, "debugfs_script", "f", ["@debugfs", "-f", "@script:" + n, "{img}"], n in ("walk", "content"))
    add("dbg-cf-walk", "debugfs_script", "cf", ["@debugfs", "-c", "-f", "@script:walk", "{img}"])
    add("dbg-cf-content", "debugfs_script", "cf", ["@debugfs", "-c", "-f", "@script:content", "{img}"])
    add("dbg-R-ls", "debugfs", "R", ["@debugfs", "-R", "ls -l {dir}", "{img}"])
    add("dbg-R-rdump", "debugfs", "R", ["@debugfs", "-R", "rdump / {outdir}", "{img}"])
    add("dbg-R-logdump", "debugfs", "R", ["@debugfs", "-R", "logdump -ac", "{img}"])
    add("dbg-cR-stat", "debugfs", "cR", ["@debugfs", "-c", "-R", "stat {big}", "{img}"])
    add("dumpe2fs", "dumpe2fs", "dump", ["@dumpe2fs", "{img}"], True)
    add("dumpe2fs-h", "dumpe2fs", "dump", ["@dumpe2fs", "-h", "{img}"])
    add("dumpe2fs-x", "dumpe2fs", "dump", ["@dumpe2fs", "-x", "{img}"])
    add("dumpe2fs-b", "dumpe2fs", "dump", ["@dumpe2fs", "-b", "{img}"])
    add("tune2fs-l", "tune2fs", "l", ["@tune2fs", "-l", "{img}"])
    add("resize2fs-P", "resize2fs", "P", ["@resize2fs", "-P", "{img}"], True)
    add("e2image", "e2image", "img", ["@e2image", "{img}", "{out}"])
    add("e2image-r", "e2image", "raw", ["@e2image", "-r", "{img}", "{out}"], True)
    add("e2image-ra", "e2image", "raw", ["@e2image", "-ra", "{img}", "{out}"])
    add("e2image-Q", "e2image", "qcow", ["@e2image", "-Q", "{img}", "{out}"])
    # -c compares with an existing destination: {outcopy} = a copy of the input, {outshort} = its first half
    add("e2image-rc", "e2image", "raw", ["@e2image", "-rc", "{img}", "{outcopy}"])
    add("e2image-rc-short", "e2image", "raw", ["@e2image", "-rc", "{img}", "{outshort}"])
    add("e2freefrag", "e2freefrag", "frag", ["@e2freefrag", "{img}"], True)
    add("e2freefrag-c", "e2freefrag", "frag", ["@e2freefrag", "-c", "64", "{img}"])
    return L


def undo_invocations(base):
    return [Inv("e2undo-n", "e2undo", "undo_n", ["@e2undo", "-n", "{undo}", "{img}"], True),
            Inv("e2undo-nv", "e2undo", "undo_n", ["@e2undo", "-n", "-v", "{undo}", "{img}"], False),
            Inv("e2undo-nf", "e2undo", "undo_n", ["@e2undo", "-n", "-f", "{undo}", "{img}"], False),
            Inv("e2undo", "e2undo", "undo", ["@e2undo", "{undo}", "{img}"], True),
            Inv("e2undo-f", "e2undo", "undo", ["@e2undo", "-f", "{undo}", "{img}"], True),
            Inv("e2undo-fv", "e2undo", "undo", ["@e2undo", "-f", "-v", "{undo}", "{img}"], False)]


def qcow_invocations(base):
    # C06Readers OutStates: the output file of the conversion absent / present (an existing empty file)
    return [Inv("e2image-conv", "e2image", "conv", ["@e2image", "-r", "{qcow}", "{out}"], True),
            Inv("e2image-conv-over", "e2image", "conv", ["@e2image", "-r", "{qcow}", "{outexist}"], True)]


RING_INVS = ("fsck-fn", "fsck-n", "fsck-pf", "fsck-fy", "dbg-R-logdump", "dbg-f-meta")       # everything that reads the journal
SUM_INVS = ("resize2fs-P", "fsck-fn", "fsck-fy", "dumpe2fs", "e2freefrag", "e2image-r")       # quick: the readers of the summary counters
UKEY_CORE = ("e2undo-n", "e2undo", "e2undo-f")


def ring_invocations(base):
    return [i._replace(core=True) for i in fs_invocations(base) if i.id in RING_INVS]


def extj_invocations(base):
    return [Inv("fsck-fn-j", "e2fsck", "n", ["@e2fsck", "-fn", "-j", "{jdev}", "{img}"], True),
            Inv("fsck-fy-j", "e2fsck", "y", ["@e2fsck", "-fy", "-j", "{jdev}", "{img}"], True),
            Inv("fsck-p-j", "e2fsck", "p", ["@e2fsck", "-p", "-j", "{jdev}", "{img}"], False),
            Inv("dbg-R-logdump-f", "debugfs", "R", ["@debugfs", "-R", "logdump -ac -f {jdev}", "{img}"], True),
            Inv("dumpe2fs-jdev", "dumpe2fs", "dump", ["@dumpe2fs", "{jdev}"], True),
            Inv("dbg-R-stats-jdev", "debugfs", "R", ["@debugfs", "-R", "stats", "{jdev}"], False),
            Inv("tune2fs-l-jdev", "tune2fs", "l", ["@tune2fs", "-l", "{jdev}"], False),
            Inv("fsck-fn-jdev", "e2fsck", "n", ["@e2fsck", "-fn", "{jdev}"], False)]


def raw_invocations(base):
    """arbitrary bytes in every role: as image, as undo file (over a good image), as qcow2 image, as external journal"""
    L = [i._replace(core=True) for i in fs_invocations(base) if i.id in (
        "fsck-fn", "fsck-pf", "fsck-fy", "dbg-f-walk", "dbg-cf-walk", "dumpe2fs", "dumpe2fs-h", "tune2fs-l", "resize2fs-P", "e2image", "e2image-r",
        "e2image-Q", "e2freefrag", "dbg-R-logdump")]
    L += [Inv("raw-e2undo-n", "e2undo", "undo_n", ["@e2undo", "-n", "{undo}", "{goodimg}"], True),
          Inv("raw-e2undo-f", "e2undo", "undo", ["@e2undo", "-f", "{undo}", "{goodimg}"], True),
          Inv("raw-e2image-conv", "e2image", "conv", ["@e2image", "-r", "{qcow}", "{out}"], True),
          Inv("raw-e2image-conv-over", "e2image", "conv", ["@e2image", "-r", "{qcow}", "{outexist}"], True),
          Inv("raw-fsck-fn-j", "e2fsck", "n", ["@e2fsck", "-fn", "-j", "{jdev}", "{goodimg}"], True),
          Inv("raw-logdump-f", "debugfs", "R", ["@debugfs", "-R", "logdump -a -f {jdev}", "{goodimg}"], True)]
    return L


def invocations_for(base):
    k = base.kind
    if k in ("fs", "c13", "jrn"):
        return fs_invocations(base)
    if k == "undo":
        return undo_invocations(base)
    if k == "qcow":
        return qcow_invocations(base)
    if k == "extj":
        return extj_invocations(base)
    if k == "raw":
        return raw_invocations(base)
    if k == "ring":
        return ring_invocations(base)
    raise KeyError(k)


def plan(U, bases, tier, sd):
    """[(input recipe, [Inv...])]: the core invocations of the input's kind + a rotating selection of the others (every
    invocation is used over the inputs of a kind): 2 others in quick, 5 in thorough for file system images (C13 states:
    1 / 8); every invocation for undo files, qcow2 images, external journals and raw bytes."""
    out = []
    rot = collections.Counter()
    short_used = 0
    for u in U:
        base = bases[u["base"]]
        invs = invocations_for(base)
        # e2image -rc on a truncated destination: planned for three inputs per tier (a tree that spins on it costs two
        # time bounds per use)
        if base.kind in ("fs", "c13", "jrn"):
            if short_used >= 3 or not (u["family"].startswith("struct1:") and base.kind == "fs"):
                invs = [i for i in invs if i.id != "e2image-rc-short"]
            else:
                short_used += 1
                invs = [i._replace(core=True) if i.id == "e2image-rc-short" else i for i in invs]
        if base.kind == "undo" and u["target"] != "undo" or base.kind == "qcow" and u["target"] != "qcow":
            pass
        if tier == "quick" and u["family"] == "sum":
            invs = [i._replace(core=True) for i in invs if i.id in SUM_INVS]
        if tier == "quick" and u["family"] == "ukey":         # many elements: the three modes, and for every second element one of the verbose / combined ones in turn
            rest_ = [i for i in invs if i.id not in UKEY_CORE]
            invs = [i for i in invs if i.id in UKEY_CORE] + ([rest_[(rot["ukey"] // 2) % len(rest_)]._replace(core=True)] if rot["ukey"] % 2 == 0 else [])
            rot["ukey"] += 1
        if base.info.get("profile") == "mmp":       # a read-write open of an MMP file system sleeps 2 x interval + 1 = 11 s
            invs = [i for i in invs if not (i.tool == "e2fsck" and i.mode in ("p", "y"))]
        if tier == "thorough" and base.kind not in ("fs", "jrn", "c13"):
            out.append((u, invs))
            continue
        core = [i for i in invs if i.core]
        rest = [i for i in invs if not i.core]
        pick = list(core)
        nextra = (5 if tier == "thorough" else 2) if base.kind in ("fs", "jrn") else ((8 if tier == "thorough" else 1) if base.kind == "c13" else len(rest))
        for _ in range(min(nextra, len(rest))):
            pick.append(rest[rot[base.kind] % len(rest)])
            rot[base.kind] += 1
        if base.kind == "c13" and tier == "quick":          # many states: the core is split over them
            h = rot["c13core"]
            rot["c13core"] += 1
            pick = [core[h % len(core)], core[(h + 3) % len(core)], core[(h + 5) % len(core)]] + pick[len(core):]
        out.append((u, pick))
    return out


# ---------------------------------------------------------------------------------------------- sanitizer reports
UB_MAP = [("shift exponent", "shift-exponent"), ("left shift of", "shift-base"), ("signed integer overflow", "signed-integer-overflow"),
          ("unsigned integer overflow", "unsigned-integer-overflow"), ("division by zero", "integer-divide-by-zero"),
          ("out of bounds for type", "bounds"), ("misaligned address", "alignment"), ("null pointer passed as argument", "nonnull-attribute"),
          ("null pointer", "null"), ("not a valid value for type", "invalid-value"), ("applying non-zero offset", "pointer-overflow"),
          ("applying zero offset to null", "pointer-overflow"), ("pointer index expression", "pointer-overflow"), ("overflowed to", "pointer-overflow"),
          ("negation of", "signed-integer-overflow"), ("variable length array bound", "vla-bound"),
          ("outside the range of representable values", "float-cast-overflow"), ("insufficient space for an object", "object-size"),
          ("execution reached an unreachable", "unreachable"), ("cannot be represented in type", "implicit-conversion")]
STDIO = {"fprintf", "vfprintf", "printf", "fputs", "puts", "fputc", "putc", "fwrite", "write", "fflush", "memcpy", "memset", "strlen", "read", "pread64",
         "lseek64", "com_err", "com_err_va", "default_com_err_proc"}
FRAME_RE = re.compile(r"^\s+#(\d+) 0x[0-9a-f]+ in (\S+) (\S+)")


def parse_reports(text, bdir):
    """-> list of (kind, [top in-tree function names], headline, ends the run).  ASan: 'ERROR: AddressSanitizer: <kind> ...';
    UBSan: '<file>:<line>:<col>: runtime error: <message>'.  WARNING lines (failed huge allocations with
    allocator_may_return_null) are not reports.  Frames: the first three frames of the report's FIRST stack that lie in
    the tree (interceptors and libc skipped)."""
    reps, cur, collecting = [], None, False
    for ln in text.splitlines():
        m = re.search(r"ERROR: (?:AddressSanitizer|UndefinedBehaviorSanitizer|LeakSanitizer): (.*)", ln)
        if m:
            msg = m.group(1)
            k = msg.split()[0].rstrip(":")
            if msg.startswith("attempting double-free"):
                k = "double-free"
            elif msg.startswith("attempting free on address"):
                k = "bad-free"
            elif msg.startswith("requested allocation size"):
                k = "allocation-size-too-big"
            elif msg.startswith("allocator is out of memory") or msg.startswith("out of memory"):
                k = "out-of-memory"
            elif msg.startswith("detected memory leaks"):
                k = "leak"
            cur = [k, [], ln.strip()[:300], 1]
            reps.append(cur)
            collecting = True
            continue
        m = re.search(r"^(\S+?):(\d+):(\d+): runtime error: (.*)", ln)
        if m:
            msg = m.group(4)
            k = next((kk for pat, kk in UB_MAP if pat in msg), "undefined-other")
            cur = [k, [], ("%s: %s" % (os.path.basename(m.group(1)) + ":" + m.group(2), msg))[:300], 1 if k == "unreachable" else 0]
            reps.append(cur)
            collecting = True
            continue
        m = FRAME_RE.match(ln)
        if m:
            if cur is not None and collecting and len(cur[1]) < (8 if cur[0] == "ABRT" else 3):
                fn, where = m.group(2), m.group(3)
                if bdir in where and not fn.startswith(("__interceptor", "__asan", "__sanitizer", "__ubsan")):
                    cur[1].append(fn)
                cur.append("seen") if len(cur) == 4 else None
        elif cur is not None and len(cur) == 5:
            collecting = False                 # the first stack of the report ended
    return [(r[0], r[1], r[2], r[3]) for r in reps]


# ---------------------------------------------------------------------------------------------- running
def _rmrf(path):
    """rdump of a damaged directory tree can leave a tree thousands of levels deep: shutil.rmtree recurses, rm does not"""
    if os.path.lexists(path):
        subprocess.run(["rm", "-rf", "--", path], stdout=subprocess.DEVNULL, stderr=subprocess.DEVNULL)


def _cpu_seconds(pid):
    """user + system CPU time consumed so far by process pid (0 if it is gone)"""
    try:
        with open("/proc/%d/stat" % pid) as f:
            st = f.read()
        fld = st[st.rindex(")") + 2:].split()
        return (int(fld[11]) + int(fld[12])) / float(os.sysconf("SC_CLK_TCK"))
    except (OSError, ValueError, IndexError):
        return 0.0


def _preexec():
    os.setsid()
    signal.signal(signal.SIGXFSZ, signal.SIG_IGN)
    resource.setrlimit(resource.RLIMIT_FSIZE, (MAX_FSIZE, MAX_FSIZE))
    resource.setrlimit(resource.RLIMIT_CORE, (0, 0))


class Runner:
    def __init__(self, b, work, bases, tag="r"):
        self.b, self.work, self.bases = b, work, bases
        self.dir = os.path.join(work, "%s%d" % (tag, os.getpid()))
        os.makedirs(self.dir, exist_ok=True)
        self.env = tool_env(b)
        self.have = None
        self.good = None

    def sanenv(self, logbase):
        e = dict(self.env)
        # log_path is RELATIVE to the tool's working directory (= self.dir): with a path that has directory components the
        # sanitizer runtime mkdir()s every prefix at start-up and leaves errno = EEXIST behind, which hides every defect that
        # depends on a stale errno of 0 (qcow2_read_l1_table returning errno after a short read)
        logbase = os.path.basename(logbase)
        common = "abort_on_error=1:symbolize=1:log_path=%s:allocator_may_return_null=1:max_allocation_size_mb=1024" % logbase
        e["ASAN_OPTIONS"] = common + ":detect_leaks=0:handle_segv=2:handle_sigbus=2:handle_sigfpe=2:handle_sigill=2:handle_abort=1:detect_stack_use_after_return=0:malloc_context_size=4"
        e["UBSAN_OPTIONS"] = "print_stacktrace=1:log_path=%s" % logbase
        e["ASAN_SYMBOLIZER_PATH"] = "/usr/bin/llvm-symbolizer"
        return e

    def materialise(self, u):
        """pristine copies of the base's files with the recipe applied: <dir>/in.<role>"""
        if self.have == u["id"]:
            return
        base = self.bases[u["base"]]
        for role, src in base.files.items():
            if not src:
                continue
            dst = os.path.join(self.dir, "in." + role)
            G.sparse_copy(src, dst)
            if role == u["target"]:
                G.apply_recipe(dst, u["pokes"], u.get("trunc", -1))
        self.have = u["id"]

    def goodimg(self):
        p = os.path.join(self.dir, "good.img")
        G.sparse_copy(self.bases["fs:ext4_1k"].files["img"] if "fs:ext4_1k" in self.bases else self.good, p)
        return p

    def run(self, u, inv, timeout=TIMEOUT):
        base = self.bases[u["base"]]
        d = self.dir
        self.materialise(u)
        cls = "rw" if (inv.tool == "e2fsck" and inv.mode in ("p", "y")) or (inv.tool == "e2undo" and inv.mode == "undo") else "ro"
        files = {}
        for role in base.files:
            src = os.path.join(d, "in." + role)
            if not os.path.exists(src):
                continue
            if cls == "rw":
                dst = os.path.join(d, "w." + role)
                G.sparse_copy(src, dst)
                files[role] = dst
            else:
                files[role] = src
        out, outdir = os.path.join(d, "out.bin"), os.path.join(d, "outdir")
        if os.path.exists(out):
            os.unlink(out)
        _rmrf(outdir)
        os.makedirs(outdir)
        sub = {"{%s}" % r: p for r, p in files.items()}
        sub.update({"{out}": out, "{outdir}": outdir})
        if any("{outcopy}" in a or "{outshort}" in a for a in inv.argv):
            G.sparse_copy(files["img"], out)
            if any("{outshort}" in a for a in inv.argv):
                os.truncate(out, os.path.getsize(out) // 2)
            sub.update({"{outcopy}": out, "{outshort}": out})
        if any("{outexist}" in a for a in inv.argv):
            with open(out, "wb"):
                pass
            sub["{outexist}"] = out
        sub.update({"{%s}" % k: v for k, v in base.names.items()})
        argv = []
        for a in inv.argv:
            if a in TOOLBIN:
                argv.append(os.path.join(self.b, TOOLBIN[a]))
                continue
            if a.startswith("@script:"):
                sp = os.path.join(d, "script.dfs")
                txt = "\n".join(SCRIPTS[a[8:]]) + "\n"
                for k, v in sub.items():
                    txt = txt.replace(k, v)
                with open(sp, "w") as f:
                    f.write(txt)
                argv.append(sp)
                continue
            if "{goodimg}" in a:
                a = a.replace("{goodimg}", self.goodimg())
            for k, v in sub.items():
                a = a.replace(k, v)
            argv.append(a)
        mt0 = {r: os.stat(p).st_mtime_ns for r, p in files.items()} if cls == "ro" else {}
        o = self.observe(argv, timeout)
        if cls == "ro" and any(os.stat(p_).st_mtime_ns != mt0[r] for r, p_ in files.items() if os.path.exists(p_)):
            self.have = None                          # a read-only run touched its input: next run starts from a fresh copy
        o.update(id=u["id"] + "#" + inv.id, input=u["id"], inv=inv.id, tool=inv.tool, mode=inv.mode, cls=cls,
                 fam=u["family"].split(":")[1] if u["family"].startswith("regression:") else u["family"].split(":")[0])
        return o

    def observe(self, argv, timeout=TIMEOUT):
        """The observation function: run argv under the sanitizer options, return what ToolExit!ObservedEnd takes
        (exit status, signal, intercepted signal, timed out, report kinds, sanitizer ended the run) + diagnostics."""
        d = self.dir
        logbase = os.path.join(d, "san")
        for f in os.listdir(d):
            if f.startswith("san."):
                os.unlink(os.path.join(d, f))
        t0 = time.time()
        tmo = False
        errp = os.path.join(d, "stderr.txt")
        # stdout goes to a regular file so that the output cap (RLIMIT_FSIZE) also bounds `cat` of a file with a huge i_size
        with open(errp, "wb") as errf, open(os.path.join(d, "stdout.txt"), "wb") as outf:
            p = subprocess.Popen(argv, stdin=subprocess.DEVNULL, stdout=outf, stderr=errf, env=self.sanenv(logbase), cwd=d,
                                 preexec_fn=_preexec)
            # The bound is CPU time of the tool (load-independent: 16 cores are shared with other checks), with a wall-clock
            # backstop for a process that blocks without computing.
            while True:
                try:
                    p.wait(timeout=0.2 if time.time() - t0 > 1 else 0.02)
                    break
                except subprocess.TimeoutExpired:
                    if _cpu_seconds(p.pid) > timeout or time.time() - t0 > WALL_FACTOR * timeout:
                        tmo = True
                        break
            if tmo:
                try:
                    os.killpg(p.pid, signal.SIGABRT)      # handle_abort=1: the sanitizer runtime prints where the process is
                except OSError:
                    pass
                try:
                    p.wait(timeout=10)
                except subprocess.TimeoutExpired:
                    pass
                try:
                    os.killpg(p.pid, signal.SIGKILL)
                except OSError:
                    pass
                p.wait()
        with open(errp, "rb") as f:
            sz = os.path.getsize(errp)
            head = f.read(20000)
            if sz > 40000:
                f.seek(sz - 20000)
            err = head + (b"\n...\n" if sz > 40000 else b"") + f.read(20000)
        rc = p.returncode
        ms = int((time.time() - t0) * 1000)
        err = (err or b"").decode("utf8", "replace")
        rep_text = ""
        for f in sorted(os.listdir(d)):
            if f.startswith("san."):
                try:
                    rep_text += open(os.path.join(d, f), errors="replace").read(200000)
                except OSError:
                    pass
        reps = parse_reports(rep_text + "\n" + err, self.b)
        caught = 0
        m = re.search(r"^Signal \((\d+)\) ", err, re.M)
        if m:
            caught = int(m.group(1))
        hang_frames = []
        if tmo:
            hang_frames = [f for k, fr, h, fatal in reps if k == "ABRT" for f in fr if f not in STDIO][:3]
            reps = [r for r in reps if r[0] != "ABRT"]
            caught = 0
        reps.sort(key=lambda r: (r[0] not in MEM_KINDS,))        # memory-class reports first (stable)
        code, sig = (rc, 0) if rc >= 0 else (-1, -rc)
        if tmo:
            code, sig = -1, 0
        return dict(code=code, sig=sig, caught=caught, tmo=int(tmo), san=sorted(set(r[0] for r in reps)),
                    sanend=int(any(r[3] for r in reps) and not tmo), reports=[list(r) for r in reps[:12]], hang_frames=hang_frames, ms=ms,
                    argv=[a.replace(d, "$D").replace(self.b, "$B") for a in argv], stderr=err[-500:])


def to_lines(r):
    return [json.dumps({"e": "start", "tool": r["tool"], "mode": r["mode"], "cls": r["cls"], "id": r["id"]}),
            json.dumps({"e": "end", "code": r["code"], "sig": r["sig"], "caught": r["caught"], "tmo": r["tmo"], "san": r["san"], "sanend": r["sanend"], "id": r["id"]})]


# python transcription of ToolExit!Failed -- used only to cross-check TLC's answer (disagreement = check broken)
MEM_KINDS = {"heap-buffer-overflow", "stack-buffer-overflow", "global-buffer-overflow", "dynamic-stack-buffer-overflow", "stack-buffer-underflow",
             "container-overflow", "intra-object-overflow", "use-after-poison", "heap-use-after-free", "stack-use-after-return",
             "stack-use-after-scope", "double-free", "bad-free", "alloc-dealloc-mismatch", "stack-overflow", "negative-size-param",
             "memcpy-param-overlap", "strcpy-param-overlap", "allocation-size-too-big", "calloc-overflow", "out-of-memory", "unknown-crash",
             "SEGV", "BUS", "FPE", "ILL", "ABRT", "bounds", "object-size", "integer-divide-by-zero", "null"}


def doc_exit6(tool, mode, code):
    if tool == "e2fsck":
        return 0 <= code <= 15 and (mode != "n" or not code & 3)
    if tool == "debugfs_script":
        return 0 <= code <= 16
    if tool == "dumpe2fs":
        return 0 <= code <= 255
    return code in (0, 1)


def predict(r):
    f = set()
    if r["tmo"]:
        f.add("TerminatedWithinBound")
    inst = bool(r["sanend"])
    if not r["tmo"] and not inst and (r["sig"] or r["caught"]):
        f.add("NoSignal")
    if any(k in MEM_KINDS for k in r["san"]):
        f.add("NoMemoryError")
    if any(k not in MEM_KINDS for k in r["san"]):
        f.add("NoUndefinedBehaviour")
    if not r["tmo"] and not r["sig"] and not inst and not doc_exit6(r["tool"], r["mode"], r["code"]):
        f.add("ExitDocumented")
    return f


def _norm(t):
    return re.sub(r"0x[0-9a-f]+|\d+", "N", t)


def finding_keys(r, failed):
    """The findings of a failing run, one key per failing clause / report:
         mem:<kind>:<f1<f2>        memory-class sanitizer report, top two in-tree frames (no tool: one library defect reached
                                   from several tools is one finding; the tools are listed in the finding's text)
         ub:<kind>                 other undefined behaviour (not in the property's list), aggregated per kind; sites in evidence
         sig:<tool>:<n>:<detail>   fatal signal without a report          hang:<tool>:<invocation>[@ring]  (@ring: on a degenerate journal ring)
         exit:<tool>:<mode>:<code> undocumented exit status"""
    keys = []
    if "NoMemoryError" in failed:
        for k, fr, h, fatal in r["reports"]:
            if k in MEM_KINDS:
                keys.append("mem:%s:%s" % (k, "<".join(fr[:2]) if fr else _norm(h)[-80:]))
    if "NoUndefinedBehaviour" in failed:
        keys += ["ub:" + k for k in r["san"] if k not in MEM_KINDS]
    if "TerminatedWithinBound" in failed:
        # where it was when stopped (hang_frames) varies from run to run: not in the key; the degenerate journal rings are a
        # family of their own (hang:<tool>:<invocation>@ring)
        keys.append("hang:%s:%s%s" % (r["tool"], r["inv"], "@ring" if r.get("fam") == "ring" else ""))
    if "NoSignal" in failed:
        last = [l for l in r["stderr"].splitlines() if l.strip() and not l.startswith(("Signal (", "/", "e2fsck(", "["))]
        keys.append("sig:%s:%d:%s" % (r["tool"], r["sig"] or r["caught"], _norm(last[-1])[:80] if last else r["mode"]))
    if "ExitDocumented" in failed:
        keys.append("exit:%s:%s:%d" % (r["tool"], r["mode"], r["code"]))
    out = []
    for k in keys:
        if k not in out:
            out.append(k)
    return out


# ---------------------------------------------------------------------------------------------- TLC side
def _tlc_lines(args):
    path, = args
    r = T.tlc(TRACE_TLA, TRACE_CFG, workers=1, timeout=900, env={"TRACE": path}, xmx="3g")
    bad = {}
    for m in re.finditer(r'<<"WHY", (\d+), \{([^}]*)\}>>', r.out):
        bad[int(m.group(1))] = set(x.strip().strip('"') for x in m.group(2).split(",") if x.strip())
    nb = set(int(x) for x in re.findall(r'<<"BADLINE", (\d+)>>', r.out))
    complete = (r.rc == 0 and r.violated is None and r.error is None and nb == set(bad))
    return dict(bad=bad, complete=complete, error=r.error or r.violated or ("BADLINE/WHY mismatch" if nb != set(bad) else None), tail=r.out[-2000:],
                distinct=r.distinct, generated=r.generated, wall=r.wall)


def tlc_judge(results, work, tag, chunk_runs=1500):
    """Validate every run (2 lines each) with Trace_ToolExit; returns {run index: set of failed clause names}."""
    tasks, spans = [], []
    for ci, i in enumerate(range(0, len(results), chunk_runs)):
        p = os.path.join(work, "%s_%05d.ndjson" % (tag, ci))
        with open(p, "w") as f:
            for r in results[i:i + chunk_runs]:
                for ln in to_lines(r):
                    f.write(ln + "\n")
        tasks.append((p,))
        spans.append(i)
    with cf.ThreadPoolExecutor(max_workers=4) as ex:
        res = list(ex.map(_tlc_lines, tasks))
    bad, d, g = {}, 0, 0
    for base, r in zip(spans, res):
        if not r["complete"]:
            die_broken("TLC failed on a trace chunk: %s\n%s" % (r["error"], r["tail"][-1500:]))
        d += r["distinct"]
        g += r["generated"]
        for line, why in r["bad"].items():
            if line % 2:
                die_broken("BADLINE on a start line (%d)" % line)
            bad[base + line // 2 - 1] = why
    return bad, d, g


CONTROLS = [("ok", set()), ("oob", {"NoMemoryError"}), ("uaf", {"NoMemoryError"}), ("segv", {"NoMemoryError"}), ("abort", {"NoMemoryError"}),
            ("shift", {"NoUndefinedBehaviour"}), ("exit3", {"ExitDocumented"}), ("hang", {"TerminatedWithinBound"})]


def positive_control(ev, b, work, bases):
    """Every run of the check: a probe program built with the same sanitizer flavour commits each kind of fault; the same
    observation function records it and TLC must reject exactly the expected clause.  A blind sanitizer runtime, a report
    parser that no longer matches the runtime's wording, or a vacuous trace spec make the check BROKEN, not green."""
    try:
        probe = build.driver(b, "c06probe")
    except RuntimeError as e:
        die_broken(str(e))
    runner = Runner(b, work, bases, tag="control")
    res = []
    for mode, want in CONTROLS:
        o = runner.observe([probe, mode], timeout=1 if mode == "hang" else TIMEOUT)
        o.update(id="control:" + mode, input="control", inv=mode, tool="tune2fs", mode="l", cls="ro")
        res.append(o)
    bad, d, g = tlc_judge(res, work, "control")
    ev.cov["states"] += d
    ev.cov["transitions"] += g
    out = {}
    for k, (mode, want) in enumerate(CONTROLS):
        got = bad.get(k, set())
        out[mode] = sorted(got)
        if got != want:
            die_broken("positive control '%s': expected TLC to reject %s, it rejected %s (observed %s)" % (
                mode, sorted(want), sorted(got), {x: res[k][x] for x in ("code", "sig", "caught", "tmo", "san", "sanend")}))
    ev.cov["positive_control"] = out


def model_check(ev, work):
    r = T.tlc(os.path.join(SPEC, "ToolExit.tla"), os.path.join(SPEC, "MC_ToolExit.cfg"), workers=4, timeout=600, xmx="3g")
    ev.add_tlc(r, "ToolExit Spec6 (documented tool), Fds={3} MaxVer=2: TypeOK6, Robust, TableSane6, ExitDocumented, RoUnmodified")
    if r.violated:
        return "model: %s violated in ToolExit\n%s" % (r.violated, r.out[-2500:])
    if not r.ok:
        die_broken("TLC failed on ToolExit: %s\n%s" % (r.error, r.out[-2000:]))
    r2 = T.tlc(os.path.join(SPEC, "ToolExit.tla"), os.path.join(SPEC, "MC_ToolExit_faults.cfg"), workers=2, timeout=600, xmx="3g")
    ev.add_tlc(r2, "ToolExit FaultSpec (negative control): Robust must be violated")
    if r2.violated != "Robust":
        die_broken("negative control: with the fault steps enabled TLC does not report Robust violated (vacuous contract?) -- %s %s\n%s"
                   % (r2.violated, r2.error, r2.out[-1200:]))
    ev.cov["negative_control"] = "FaultSpec: Robust violated as expected (%d states)" % r2.distinct
    # the abstract catalogue of structured corruptions: TLC enumerates it, the concretiser's tables must agree with it
    r3 = T.tlc(os.path.join(SPEC, "C06Universe.tla"), os.path.join(SPEC, "MC_C06Universe.cfg"), workers=1, timeout=600, xmx="2g")
    if not r3.ok:
        die_broken("TLC failed on C06Universe: %s\n%s" % (r3.error or r3.violated, r3.out[-1500:]))
    flat = re.sub(r"\s+", " ", r3.out)
    m = re.search(r'<<"FIELDS", \[([^\]]*)\]>>', flat)
    fields = dict((a.strip(), int(b)) for a, b in (x.split("|->") for x in m.group(1).split(","))) if m else {}
    m = re.search(r'<< ?"VALUES", \{([^}]*)\} ?>>', flat)
    values = set(x.strip().strip('"') for x in m.group(1).split(",")) if m else set()
    m = re.search(r'<< ?"REPAIRABLE", \{([^}]*)\} ?>>', flat)
    repairable = set(x.strip().strip('"') for x in m.group(1).split(",")) if m else set()
    m = re.search(r'<< ?"CATALOGUE", (\d+) ?>>', flat)
    mine = {k: len(v) for k, v in G.FIELDS.items()}
    if fields != mine or values != set(G.VALUE_CLASSES) or repairable != set(G.REPAIRABLE) or set(G.VGROUP) != values or not m:
        die_broken("the concretiser's field / value tables disagree with spec/C06Universe.tla: spec %s %s %s, gen %s %s %s" % (
            fields, sorted(values), sorted(repairable), mine, sorted(G.VALUE_CLASSES), sorted(G.REPAIRABLE)))
    ev.cov["structured_catalogue"] = {"abstract_elements": int(m.group(1)), "object_classes": len(fields), "value_classes": len(values),
                                      "checked_by": "TLC (spec/C06Universe.tla: CatalogueOK) and compared with gen/c06_inputs.py FIELDS"}
    # the reader-bound catalogue: reader models (repaired reader safe on every element, catalogue adequate), the scan of
    # degenerate journal rings as a behaviour (ends within RL trips); written as JSON for the concretiser
    outp = os.path.join(work, "c06readers.json")
    r4 = T.tlc(os.path.join(SPEC, "C06Readers.tla"), os.path.join(SPEC, "MC_C06Readers.cfg"), workers=2, timeout=600, xmx="2g", env={"OUT": outp})
    ev.add_tlc(r4, "C06Readers: ReaderSafeU/Q/S, AdequateU/Q/R, ReachesQ/S (ASSUME), ring scan Spec: ScanBounded, ScanEnds")
    if r4.violated:
        return "model: %s violated in C06Readers\n%s" % (r4.violated, r4.out[-2500:])
    if not r4.ok or not os.path.exists(outp):
        die_broken("TLC failed on C06Readers: %s\n%s" % (r4.error, r4.out[-2000:]))
    r5 = T.tlc(os.path.join(SPEC, "C06Readers.tla"), os.path.join(SPEC, "MC_C06Readers_unbounded.cfg"), workers=2, timeout=600, xmx="2g",
               env={"OUT": os.path.join(work, "c06readers_neg.json")})
    ev.add_tlc(r5, "C06Readers DevScanUnbounded (negative control): ScanBounded must be violated")
    if r5.violated != "ScanBounded":
        die_broken("negative control: the literal journal scan does not violate ScanBounded on the ring catalogue -- %s %s\n%s"
                   % (r5.violated, r5.error, r5.out[-1200:]))
    try:
        rc_ = json.load(open(outp))
    except ValueError as e:
        die_broken("C06Readers catalogue does not parse: %s" % e)
    need = {"undo_hdr", "undo_key", "undo_scalings", "qcow_hdr", "qcow_out", "summary", "rings", "ring_fill"}
    if set(rc_) != need or not all(len(rc_[k]) for k in need) or set(rc_["qcow_out"]) != {"absent", "exists"}:
        die_broken("C06Readers catalogue incomplete: %s" % {k: len(v) for k, v in rc_.items()})
    ev.cov["reader_bound_catalogue"] = dict({k: len(v) for k, v in rc_.items()},
                                            checked_by="TLC (spec/C06Readers.tla, ASSUMEs + ring scan behaviour); evaluated on the base artefacts by gen/c06_inputs.py")
    _W["readers"] = rc_
    return None


# ---------------------------------------------------------------------------------------------- execution
_W = {}


def _winit(b, work, bases):
    _W["runner"] = Runner(b, work, bases)


def _wrun(task):
    out = []
    for u, invs in task:
        for inv in invs:
            try:
                out.append(_W["runner"].run(u, inv))
            except OSError as e:
                return {"broken": "cannot run %s on %s: %s" % (inv.id, u["id"], e)}
    return out


def execute(b, work, bases, pl):
    # strided chunks of ~6 inputs: neighbours of the plan (inputs of one family, possibly all slow) go to different workers
    nt = max(1, (len(pl) + 5) // 6)
    tasks = [pl[i::nt] for i in range(nt)]
    results = []
    t0, mark = time.time(), 20000
    with cf.ProcessPoolExecutor(max_workers=JOBS, initializer=_winit, initargs=(b, work, bases)) as ex:
        for out in ex.map(_wrun, tasks, chunksize=1):
            if isinstance(out, dict):
                die_broken(out["broken"])
            results += out
            if len(results) >= mark:
                sys.stderr.write("C06: %d runs in %.0f s\n" % (len(results), time.time() - t0))
                mark += 20000
    return results


def load_known(vd):
    """known findings proposed by this builder (fixes/C06_known_findings.txt) count like those of known_findings.txt"""
    p = os.path.join(VERIF, "fixes", "C06_known_findings.txt")
    if os.path.exists(p):
        for l in open(p):
            l = l.strip()
            if not l or l.startswith("#"):
                continue
            d = json.loads(l)
            if d.get("property") == PID and d.get("status", "known") == "known":
                for k in [d["key"]] + list(d.get("keys", [])):
                    vd.known.setdefault(k, d)


def regression_inputs(b, work, bases, have):
    """The inputs of replays/C06/fixed_*.json (defects repaired by a fix: commit) are part of every tier, each with the
    invocation that showed the defect: the check re-reports a repaired defect the moment it returns."""
    import glob
    recs = []
    for f in sorted(glob.glob(os.path.join(VERIF, "replays", PID, "fixed_*.json"))):
        try:
            rp = json.load(open(f))["replay"]
            recs.append((os.path.basename(f), rp["input"], rp["inv"]))
        except (ValueError, KeyError):
            die_broken("regression input %s does not parse" % f)
    missing = set(u["base"] for _, u, _ in recs) - set(bases)
    if missing:
        try:
            bases.update(G.build_bases(b, tool_env(b), os.path.join(work, "bases_regression"), "quick", seed(), want=missing))
        except G.GenError as e:
            die_broken("input generator failed on a regression base: %s" % e)
    out = []
    for name, u, invid in recs:
        if u["base"] not in bases:
            die_broken("regression input %s refers to an unknown base artefact %s" % (name, u["base"]))
        inv = [i for i in invocations_for(bases[u["base"]]) if i.id == invid]
        if not inv:
            die_broken("regression input %s refers to an unknown invocation %s" % (name, invid))
        u = dict(u, family="regression:" + u.get("family", "?").split(":")[0])
        if u["id"] in have:
            u["id"] += "~regression"
        out.append((u, inv))
    return out


ALL = 10 ** 9
QUICK_CAPS = {"asis:c13": 32, "asis": 40, "struct1": 10, "structN": 6, "unstruct": 2,
              # reader-bound families: the pair catalogues are sampled per base kind; ukey / qhdr1 / sum / ring are enumerated for
              # one base per run (gen.reader_families) and taken whole
              "uhdr": 48, "qhdr2": 60, "ukey": ALL, "qhdr1": ALL, "sum": ALL, "ring": ALL}


def build_all(tier):
    try:
        b = build.build(FLAVOUR)
    except RuntimeError as e:
        die_broken(str(e))
    return b


def run(tier):
    ev = Evidence(PID, tier, "exploration")
    vd = Verdict(PID, ev)
    load_known(vd)
    work = fast_tmp()
    t_start = time.time()
    try:
        b = build_all(tier)
        t_build = time.time() - t_start
        mc_err = model_check(ev, work)
        if mc_err:
            vd.violation("model", mc_err[:300], {"tlc": mc_err})
        t0 = time.time()
        RC = _W.get("readers")
        if RC is None:                      # a model violation was reported before the catalogue was written
            return vd.finish()
        try:
            bases = G.build_bases(b, tool_env(b), os.path.join(work, "bases"), tier, seed(), rings=G.ring_ids(RC, tier, seed()))
        except G.GenError as e:
            die_broken("input generator failed: %s" % e)
        positive_control(ev, b, work, bases)
        try:
            U = G.universe(bases, tier, seed()) + G.reader_families(bases, RC, tier, seed())
        except G.GenError as e:
            die_broken("input generator failed: %s" % e)
        nU = len(U)
        if tier == "quick":
            U = G.sample_quick(U, seed(), QUICK_CAPS)
        pl = plan(U, bases, tier, seed())
        pl += regression_inputs(b, work, bases, set(u["id"] for u in U))
        t_gen = time.time() - t0
        t0 = time.time()
        results = execute(b, work, bases, pl)
        t_run = time.time() - t0
        return judge(ev, vd, b, work, bases, U, pl, results, tier, dict(build_s=round(t_build, 1), gen_s=round(t_gen, 1), run_s=round(t_run, 1),
                                                                         universe_enumerated=nU))
    finally:
        _rmrf(work)


def minimise(runner, u, inv, sig, budget=10):
    """drop pokes while the signature stays (greedy, bounded)"""
    pokes = list(u["pokes"])
    if len(pokes) <= 1:
        return u
    i = 0
    while i < len(pokes) and budget > 0 and len(pokes) > 1:
        trial = dict(u, id=u["id"] + "~min", pokes=pokes[:i] + pokes[i + 1:])
        runner.have = None
        r = runner.run(trial, inv)
        budget -= 1
        f = predict(r)
        if f and sig in finding_keys(r, f):
            pokes = trial["pokes"]
        else:
            i += 1
    return dict(u, pokes=pokes, id=u["id"] + ("~min" if len(pokes) < len(u["pokes"]) else ""))


def judge(ev, vd, b, work, bases, U, pl, results, tier, timing):
    t0 = time.time()
    bad, d, g = tlc_judge(results, work, "runs")
    ev.cov["states"] += d
    ev.cov["transitions"] += g
    # cross-check of TLC's answer against the python transcription (a disagreement is a broken check, never a verdict)
    for k, r in enumerate(results):
        want = predict(r)
        if want != bad.get(k, set()):
            die_broken("oracle disagreement on run %s: TLC says %s, the python transcription %s (%s)" % (r["id"], sorted(bad.get(k, set())), sorted(want),
                                                                                                  {x: r[x] for x in ("code", "sig", "caught", "tmo", "san")}))
    # instrumentation sanity: the sanitizer runtime must be live (every tool binary is an ASan build)
    ubyid = {u["id"]: u for u, _ in pl}
    ibyid = {}
    for u, invs in pl:
        for i in invs:
            ibyid[(u["id"], i.id)] = i
    groups = collections.OrderedDict()
    ub_sites = collections.OrderedDict()
    for k in sorted(bad):
        r = results[k]
        for key in finding_keys(r, bad[k]):
            groups.setdefault(key, []).append(k)
        for kind, fr, h, fatal in r["reports"]:
            if kind not in MEM_KINDS:
                e = ub_sites.setdefault((kind, h.split(": ")[0], fr[0] if fr else "?"), {"n": 0, "tools": set(), "msg": _norm(h.split(": ", 1)[-1])[:120]})
                e["n"] += 1
                e["tools"].add(r["tool"])
    runner = Runner(b, work, bases, tag="confirm")
    confirmed, unstable, conf_runs = [], [], []
    for sig, ks in groups.items():
        ks = sorted(ks, key=lambda k: (len(ubyid[results[k]["input"]]["pokes"]), results[k]["ms"]))
        done = False
        for k in ks[:3]:                      # up to three representatives before a signature is called unstable
            r = results[k]
            u, inv = ubyid[r["input"]], ibyid[(r["input"], r["inv"])]
            runner.have = None
            r2 = runner.run(u, inv)           # soundness rule 5: re-run alone (a timeout counts only if it repeats)
            f2 = predict(r2)
            if not f2 or sig not in finding_keys(r2, f2):
                continue
            um = minimise(runner, u, inv, sig) if not sig.startswith(("ub:", "hang:")) and len(groups) <= 60 else u
            if um is not u:
                runner.have = None
                r3 = runner.run(um, inv)
                if predict(r3) and sig in finding_keys(r3, predict(r3)):
                    r2, u = r3, um
            conf_runs.append((sig, u, inv, r2, len(ks)))
            done = True
            break
        if not done:
            unstable.append({"signature": sig, "runs": len(ks), "first": results[ks[0]]["id"]})
    # the confirmation runs are judged by TLC too
    if conf_runs:
        bad2, d2, g2 = tlc_judge([c[3] for c in conf_runs], work, "confirm")
        ev.cov["states"] += d2
        ev.cov["transitions"] += g2
        for j, (sig, u, inv, r2, n) in enumerate(conf_runs):
            if j not in bad2:
                die_broken("oracle disagreement: confirmation run of %s predicted rejected but Trace_ToolExit accepts it" % sig)
            tools = sorted(set(results[k]["tool"] for k in groups[sig]))
            head = next((h for kk, fr, h, fatal in r2["reports"] if sig.split(":")[1] == kk), "")
            if sig.startswith("hang:"):
                head = "stopped in " + ("<".join(r2["hang_frames"]) or "?")
            what = "%s; e.g. %s [%s] on %s; failing clauses %s (exit %d, signal %d, intercepted %d, timeout %d); seen in %d runs of %s%s" % (
                sig, inv.tool, " ".join(r2["argv"][1:])[:160], u["id"], sorted(bad2[j]), r2["code"], r2["sig"], r2["caught"], r2["tmo"], n,
                ",".join(tools), "; " + head if head else "")
            new = vd.violation(sig, what, {"input": u, "inv": inv.id, "tier": tier, "seed": seed(), "argv": r2["argv"], "signature": sig,
                                           "failed_clauses": sorted(bad2[j]), "observed": {x: r2[x] for x in ("code", "sig", "caught", "tmo", "san", "sanend")},
                                           "reports": r2["reports"], "stderr": r2["stderr"], "runs_with_this_signature": n})
            confirmed.append({"signature": sig, "runs": n, "known": not new, "example": u["id"] + "#" + inv.id, "failed": sorted(bad2[j]),
                              "tools": tools, "headline": head or r2["stderr"][-160:]})
    t_judge = time.time() - t0
    # ---- evidence
    ev.cov["evaluations"] = len(results)
    ev.cov["traces_validated_against_impl"] = len(results)
    ev.cov["trace_lines_validated"] = 2 * len(results)
    for r in results:
        u = ubyid[r["input"]]
        if not u["family"].startswith("asis:raw"):
            ev.nontrivial((u["family"], u["base"].split(":")[0] + ":" + str(bases[u["base"]].info.get("profile")), r["tool"], r["mode"]))
    ev.cov["rule"] = ("one evaluation = one run of an ASan+UBSan tool binary on one input of the closed universe, its start/end lines validated against "
                      "Trace_ToolExit (Robust evaluated by TLC); non-trivial = the input is a damaged or special artefact (not raw filler); distinct by "
                      "(corruption family incl. object class, base kind:profile, tool, mode)")
    hist = collections.defaultdict(collections.Counter)
    for r in results:
        hist[r["tool"] + "/" + r["mode"]]["tmo" if r["tmo"] else ("san" if r["san"] else ("sig%d" % r["sig"] if r["sig"] else str(r["code"])))] += 1
    ev.cov["exit_histogram"] = {k: dict(v) for k, v in sorted(hist.items())}
    ev.cov["universe"] = {"enumerated_inputs": timing.pop("universe_enumerated"), "inputs_run": len(pl), "runs": len(results),
                          "bases": dict(collections.Counter(x.kind for x in bases.values())),
                          "inputs_by_family": dict(collections.Counter(u["family"] for u, _ in pl)),
                          "runs_by_invocation": dict(collections.Counter(r["inv"] for r in results))}
    ev.cov["runs_breaking_the_contract"] = len(bad)
    ev.cov["failing_clauses"] = dict(collections.Counter(c for v in bad.values() for c in v))
    ev.cov["signatures"] = confirmed
    ev.cov["not_reproduced_on_rerun"] = unstable
    ev.cov["undefined_behaviour_sites"] = [{"kind": k[0], "site": k[1], "function": k[2], "runs": v["n"], "tools": sorted(v["tools"]), "message": v["msg"]}
                                           for k, v in sorted(ub_sites.items())]
    ev.cov["slowest_runs_ms"] = sorted(((r["ms"], r["id"]) for r in results), reverse=True)[:5]
    timing["judge_s"] = round(t_judge, 1)
    ev.cov["timing"] = timing
    for k in (0, len(results) // 2, len(results) - 1):
        if 0 <= k < len(results):
            r = results[k]
            ev.sample({"input": ubyid[r["input"]]["what"], "id": r["id"], "argv": r["argv"], "trace": [json.loads(x) for x in to_lines(r)]})
    ev.cov["checker_cmd"] = "TRACE=<chunk> tlc -workers 1 -config spec/Trace_ToolExit.cfg spec/Trace_ToolExit.tla (BADLINE/WHY per run, POSTCONDITION TraceAccepted)"
    ev.cov["level_note"] = ("exploration: the memory-safety verdict comes from sanitizer instrumentation (clang -fsanitize=address,undefined) over a "
                            "spec-judged, closed, seeded input universe; TLA+ decides the termination / signal / report / exit-status contract of each run, "
                            "not the absence of out-of-bounds accesses")
    ev.assumptions = [
        "ASan/UBSan reports are observations of the instrumented build; a run ended by the sanitizer runtime is judged by its report kinds only "
        "(its abort signal / exit status are artefacts of the instrumentation)",
        "leaks are not in the property text: detect_leaks=0",
        "allocations above 1 GiB return NULL (allocator_may_return_null=1, max_allocation_size_mb=1024); a failed huge allocation is not a report",
        "bound: %d s of CPU time of the tool process per run on images <= 32 MiB (load-independent; wall-clock backstop %d s for a process that "
        "blocks); a timeout is reported only if it repeats when the run is repeated alone; file output of a tool is capped at %d MiB "
        "(EFBIG, SIGXFSZ ignored)" % (TIMEOUT, WALL_FACTOR * TIMEOUT, MAX_FSIZE >> 20),
        "exit-status table: e2fsck(8) EXIT CODE restricted to what can be true of the run (valid command line, no signal, no shared library: bits "
        "16/32/128 excluded; -n: bits 1/2 excluded); dumpe2fs(8): any status; the other tools document no statuses, the table transcribes their "
        "exit() calls (0/1; debugfs -f: number of failed requests of a <= 16 request script)",
        "inputs are regular files (no block devices); e2fsck runs with E2FSCK_CONFIG=/dev/null and fixed clocks",
        "reader-bound families (spec/C06Readers.tla): symbolic values are evaluated on the generated base artefacts (undo files of five operations, "
        "qcow2 images of three profiles, 15 file system profiles); an element whose value does not fit the field or equals the present value does not exist on "
        "that base; quick enumerates the key / single-field qcow2 / summary catalogues on one base each (rotating with the seed), 2 rings, and samples the pair catalogues",
        "the sanitizer log path is relative to the tool's working directory, so that the runtime leaves errno untouched at start-up (an absolute log path "
        "makes it mkdir() every prefix: errno = EEXIST, which hid the stale-errno defect of qcow2_read_l1_table)",
        "known-finding keys are failure signatures (tool : report kind : top three in-tree frames), not universe elements: the universe of a tier is a "
        "seeded sample of a catalogue too large to enumerate with all tools, so a different seed can reach a known defect through another input",
    ]
    return vd.finish()


def replay(path):
    d = json.load(open(path))
    rp = d["replay"]
    if "seed" in rp:
        os.environ["VERIF_SEED"] = str(rp["seed"])
    work = fast_tmp()
    try:
        b = build_all("quick")
        u = rp["input"]
        want = {u["base"], "fs:ext4_1k"}
        try:
            bases = G.build_bases(b, tool_env(b), os.path.join(work, "bases"), rp.get("tier", "quick"), seed(), want=want)
        except G.GenError as e:
            die_broken("input generator failed: %s" % e)
        if u["base"] not in bases:
            die_broken("replay refers to an unknown base artefact %s" % u["base"])
        inv = [i for i in invocations_for(bases[u["base"]]) if i.id == rp["inv"]]
        if not inv:
            die_broken("replay refers to an unknown invocation %s" % rp["inv"])
        runner = Runner(b, work, bases, tag="replay")
        r = runner.run(u, inv[0])
        bad, _, _ = tlc_judge([r], work, "replay")
        print("%s on %s: exit %d signal %d intercepted %d timeout %d reports %s" % (" ".join(r["argv"]), u["id"], r["code"], r["sig"], r["caught"], r["tmo"], r["san"]))
        for rep in r["reports"]:
            print("   ", rep[2], "<".join(rep[1]))
        if 0 in bad:
            keys = finding_keys(r, bad[0])
            print("failing clauses (TLC): %s   findings: %s" % (sorted(bad[0]), keys))
            ev = Evidence(PID, "quick", "exploration")
            vd = Verdict(PID, ev)
            load_known(vd)
            other_known = [k for k in keys if k in vd.known and k != d.get("key")]
            if d.get("key") in keys or any(k not in vd.known for k in keys):
                print("VIOLATION property=%s replay=%s" % (PID, path))
                return 1
            print("(the recorded finding did not come back; only known findings remain: %s)" % other_known)
        print("replay accepted")
        return 0
    finally:
        _rmrf(work)
