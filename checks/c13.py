"""C13 -- read-only invocations never modify the device.

(1) TLC model-checks spec/ToolRun.tla (protocol of one tool invocation over a device: Open / DevWrite / DevTruncate /
    DevFallocate / DevWriteRefused / DevFsync / Close / Exit / Killed; ReadOnlyNeverModifies, RoUnmodified,
    ExitDocumented, TableSane) exhaustively -- the protocol is tiny, the weight of the property is in (2).
(2) Conformance: universe = image states (gen/c13_images.py: 7 profiles x {clean, journal needing recovery, orphan
    list / orphan file, MMP, quota, ~40 corruption recipes, seeded random metadata damage}) x invocations (every
    documented read-only command line of every tool, every debugfs request without -w -- the read-only requests
    and the modifying requests, which must be refused -- plus a few writing control runs that prove the recorder
    sees writes).  Every run executes under LD_PRELOAD=harness/iotrace.so on a private copy of the state; the event
    stream of the target + an exit line {code, sig, digest_equal (sha256 before = after)} is validated by TLC
    against spec/Trace_ToolRun.tla.  A write-class call on a writable descriptor of the target in a read-only run,
    an open with O_TRUNC/O_CREAT, or a changed digest makes the trace rejected = VIOLATION.
(3) Round 2 -- invocations with AUXILIARY undo files.  spec/ToolRunZ.tla extends the protocol with descriptors of files
    that are not the target (the -z undo file, the undo log replayed by e2undo): write-class calls on them are steps of
    every class and never touch the device; the target rules are unchanged.  spec/ToolRunUniv.tla is the catalogue this
    check and the image generator ENUMERATE FROM (Emit_ToolRunUniv -> JSON): every read-only form of every tool that
    accepts -z x state of the -z file (absent / matching / foreign / garbage); the journal x orphan axes of the image
    (incl. journal superblock s_errno # 0); e2undo dry runs = undo log defect (boundary catalogue over the file layout)
    x relation of the target to the log x {-n, -nf, -nv, -nfv} x with / without -z, each with the outcome the model of
    e2undo's guard chain expects (stage reached, io / csum / incomplete flags at the final "force a fsck" guard).  The
    expectation is compared with the real run as EVIDENCE that the universe reaches every guard (never a verdict); the
    verdict is ToolRunZ's: no effective write-class step on a descriptor of the target, digest equal.
(4) Round 3 -- the target is the SET of devices the invocation names or reaches (ToolRunZ!TargetObjs): a filesystem with an
    EXTERNAL journal device (mke2fs -O journal_dev, attached by UUID) is two target devices.  ToolRunUniv section 4 is the
    catalogue: journal flavour (plain / JBD2 checksum v3) x state of the journal device (clean / needs recovery / s_errno set /
    both / two users / foreign UUID / journal superblock checksum bad / no magic) x invocation form of every tool x how the
    journal device is reached (-j / logdump -f option, s_journal_uuid lookup through libblkid, or the journal device itself on
    the command line), plus writing control runs in the states where a read-write e2fsck writes the journal device.  The
    recorder reports the journal device as object 3; Trace_ToolRun treats it exactly like object 0 (no effective
    write-class step in class "ro") and the exit line carries the sha256 comparison of BOTH devices.
    Crashes / hangs (> 20 s) on corrupted images are property C06's business: recorded under c06_observations;
    C13 is still checked on those runs.  Exit codes outside the contract table are recorded under
    exit_contract_observations (the property text is about the bytes of the device, not about exit codes)."""
import os, sys, json, random, shutil, subprocess, time, hashlib, threading, collections
import concurrent.futures as cf
from common import VERIF, fast_tmp, seed, die_broken, NPROC, tool_env
import build, tlc as T, tracecheck
from evidence import Evidence, Verdict
import c13_images as G

PID = "C13"
SPEC = os.path.join(VERIF, "spec")
TRACE_TLA = os.path.join(SPEC, "Trace_ToolRun.tla")
TRACE_CFG = os.path.join(SPEC, "Trace_ToolRun.cfg")
TRACE_CFG_C13 = os.path.join(SPEC, "Trace_ToolRun_c13only.cfg")      # the same without INVARIANT ExitDocumented
IOTRACE = os.path.join(VERIF, "harness", "iotrace.so")
TIMEOUT = 20

Inv = collections.namedtuple("Inv", "id tool cls argv group meta", defaults=(None,))
# argv tokens: {img} private copy of the state, {out} host file, {outdir} host directory, {undo} private copy of the undo
# log of the state (its profile's tune2fs log, or the log of an e2undo catalogue state), {zout} the file named by -z
# (prepared in the state meta["zfile"] says), {host} a small host file, {bk} a backup superblock location of the -g 2048
# geometries, {jnl} private copy of the external journal device of the state.  The target set is iotrace objects 0 ({img})
# and 3 ({jnl}); {zout} is object 1, {undo} object 2 (auxiliary files).
UNIV_TLA = os.path.join(SPEC, "Emit_ToolRunUniv.tla")
UNIV_CFG = os.path.join(SPEC, "Emit_ToolRunUniv.cfg")
MIXED_SCRIPT = ["cd dir1", "ls -l", "mkdir x", "write {host} y", "cd /", "rm file_small", "stat file_small", "cat file_small",
                "ssv mtime 1", "dirty", "close -a"]
# argv of the read-only forms of ToolRunUniv!ZForms (the catalogue is the spec's; a form without an entry here = check broken)
ZFORM_ARGV = {
    ("e2fsck", "n"): ["@e2fsck", "-n", "-z", "{zout}", "{img}"],
    ("e2fsck", "fn"): ["@e2fsck", "-fn", "-z", "{zout}", "{img}"],
    ("e2fsck", "n_b"): ["@e2fsck", "-n", "-b", "{bk}", "-z", "{zout}", "{img}"],
    ("e2fsck", "n_journal_only"): ["@e2fsck", "-n", "-E", "journal_only", "-z", "{zout}", "{img}"],
    ("debugfs", "ro"): ["@debugfs", "-z", "{zout}", "-R", "ls -l", "{img}"],
    ("debugfs", "logdump"): ["@debugfs", "-z", "{zout}", "-R", "logdump -a", "{img}"],
    ("debugfs", "refused"): ["@debugfs", "-z", "{zout}", "-R", "mkdir newdir", "{img}"],
    ("debugfs", "journal_refused"): ["@debugfs", "-z", "{zout}", "-R", "jr", "{img}"],
    ("debugfs", "catastrophic"): ["@debugfs", "-c", "-z", "{zout}", "-R", "ls -l", "{img}"],
    ("debugfs_script", "mixed"): ["@debugfs", "-z", "{zout}", "-f", "@script:" + "\n".join(MIXED_SCRIPT), "{img}"],
    ("resize2fs", "P"): ["@resize2fs", "-P", "-z", "{zout}", "{img}"],
    ("resize2fs", "Pf"): ["@resize2fs", "-P", "-f", "-z", "{zout}", "{img}"],
    ("tune2fs", "l"): ["@tune2fs", "-l", "-z", "{zout}", "{img}"],
    ("mke2fs", "n"): ["@mke2fs", "-n", "-z", "{zout}", "{img}"],
    ("mke2fs", "n_ext4"): ["@mke2fs", "-n", "-t", "ext4", "-z", "{zout}", "{img}"],
}


TARGET_OBJS = (0, 3)            # python transcription of ToolRunZ!TargetObjs (prediction only; TLC decides)
XJ_SCRIPT = ["logdump", "jo", "jw -b 333 /dev/zero", "jc", "jr", "logdump -a"]
XJ_SCRIPT_F = ["logdump -f {jnl}", "jo -f {jnl}", "jw -b 333 /dev/zero", "jc", "logdump -a -f {jnl}"]
# argv of ToolRunUniv!ExtJForms / ExtJControls: (tool, form, reach) (a form without an entry here = check broken)
EXTJ_ARGV = {
    ("e2fsck", "n", "opt"): ["@e2fsck", "-n", "-j", "{jnl}", "{img}"],
    ("e2fsck", "fn", "opt"): ["@e2fsck", "-fn", "-j", "{jnl}", "{img}"],
    ("e2fsck", "n_journal_only", "opt"): ["@e2fsck", "-n", "-E", "journal_only", "-j", "{jnl}", "{img}"],
    ("e2fsck", "fn_z", "opt"): ["@e2fsck", "-fn", "-z", "{zout}", "-j", "{jnl}", "{img}"],
    ("e2fsck", "n", "uuid"): ["@e2fsck", "-n", "{img}"],
    ("e2fsck", "fn", "uuid"): ["@e2fsck", "-fn", "{img}"],
    ("e2fsck", "n", "self"): ["@e2fsck", "-n", "{jnl}"],
    ("debugfs", "logdump_f", "opt"): ["@debugfs", "-R", "logdump -f {jnl}", "{img}"],
    ("debugfs", "logdump_af", "opt"): ["@debugfs", "-R", "logdump -a -f {jnl}", "{img}"],
    ("debugfs", "logdump_Sf", "opt"): ["@debugfs", "-R", "logdump -S -f {jnl}", "{img}"],
    ("debugfs", "logdump", "uuid"): ["@debugfs", "-R", "logdump", "{img}"],
    ("debugfs", "logdump_a", "uuid"): ["@debugfs", "-R", "logdump -a", "{img}"],
    ("debugfs", "ls", "uuid"): ["@debugfs", "-R", "ls -l", "{img}"],
    ("debugfs", "jo_f_refused", "opt"): ["@debugfs", "-R", "jo -f {jnl}", "{img}"],
    ("debugfs", "jr_refused", "uuid"): ["@debugfs", "-R", "jr", "{img}"],
    ("debugfs", "jo_refused", "uuid"): ["@debugfs", "-R", "jo", "{img}"],
    ("debugfs", "logdump_f_nofs", "self"): ["@debugfs", "-R", "logdump -f {jnl}"],
    ("debugfs", "stats", "self"): ["@debugfs", "-R", "stats", "{jnl}"],
    ("debugfs", "c_logdump", "uuid"): ["@debugfs", "-c", "-R", "logdump", "{img}"],
    ("debugfs_script", "journal", "uuid"): ["@debugfs", "-f", "@script:" + "\n".join(XJ_SCRIPT), "{img}"],
    ("debugfs_script", "journal_f", "opt"): ["@debugfs", "-f", "@script:" + "\n".join(XJ_SCRIPT_F), "{img}"],
    ("dumpe2fs", "plain", "self"): ["@dumpe2fs", "{jnl}"],
    ("dumpe2fs", "h", "self"): ["@dumpe2fs", "-h", "{jnl}"],
    ("dumpe2fs", "plain", "uuid"): ["@dumpe2fs", "{img}"],
    ("tune2fs", "l", "self"): ["@tune2fs", "-l", "{jnl}"],
    ("tune2fs", "l", "uuid"): ["@tune2fs", "-l", "{img}"],
    ("e2image", "normal", "self"): ["@e2image", "{jnl}", "{out}"],
    ("e2image", "r", "self"): ["@e2image", "-r", "{jnl}", "{out}"],
    ("e2image", "normal", "uuid"): ["@e2image", "{img}", "{out}"],
    ("e2image", "r", "uuid"): ["@e2image", "-r", "{img}", "{out}"],
    ("resize2fs", "P", "uuid"): ["@resize2fs", "-P", "{img}"],
    ("e2freefrag", "plain", "uuid"): ["@e2freefrag", "{img}"],
    ("e2freefrag", "plain", "self"): ["@e2freefrag", "{jnl}"],
    ("mke2fs", "n_journal_dev", "self"): ["@mke2fs", "-n", "-O", "journal_dev", "{jnl}"],
    ("mke2fs", "n_J_device", "opt"): ["@mke2fs", "-n", "-t", "ext4", "-J", "device={jnl}", "{img}"],
    ("e2fsck", "fy", "opt"): ["@e2fsck", "-fy", "-j", "{jnl}", "{img}"],
    ("e2fsck", "p", "opt"): ["@e2fsck", "-p", "-j", "{jnl}", "{img}"],
}


def load_universe(work):
    """The catalogues of spec/ToolRunUniv.tla, enumerated by TLC (its ASSUMEs -- DryNeverFsck, GuardCoverage -- are
    evaluated in the same run: a catalogue that does not reach every disjunct of e2undo's final guard is an error)."""
    out = os.path.join(work, "toolrun_universe.json")
    r = T.tlc(UNIV_TLA, UNIV_CFG, workers=1, timeout=300, env={"OUT": out}, xmx="1g")
    if not r.ok or not os.path.exists(out):
        die_broken("TLC could not enumerate the universe (Emit_ToolRunUniv): %s\n%s" % (r.error, r.out[-1500:]))
    u = json.load(open(out))
    for k in ("zinv", "axes", "undo", "extj"):
        if not u.get(k):
            die_broken("universe catalogue %r is empty" % k)
    missing = sorted({(z["tool"], z["form"]) for z in u["zinv"]} - set(ZFORM_ARGV))
    if missing:
        die_broken("no command line for the -z forms %s of ToolRunUniv!ZForms" % missing)
    missing = sorted({(x["tool"], x["form"], x["reach"]) for x in u["extj"]} - set(EXTJ_ARGV))
    if missing:
        die_broken("no command line for the external-journal forms %s of ToolRunUniv!ExtJForms" % missing)
    u["extj_images"] = [dict(profile=p_, jstate=j_) for p_, j_ in sorted({(x["profile"], x["jstate"]) for x in u["extj"]})]
    u["undo_catalogue"] = [dict(defect=d, rel=r_) for d, r_ in sorted({(x["defect"], x["rel"]) for x in u["undo"]})]
    u["tlc"] = r
    return u


def _dbg(cmd, pre=()):
    return ["@debugfs"] + list(pre) + ["-R", cmd, "{img}"]


def invocations(univ=None):
    L = []

    def add(id_, tool, argv, group, cls="ro", meta=None):
        L.append(Inv(id_, tool, cls, argv, group, meta or {}))

    # ---- e2fsck -n
    for name, a in [("n", ["-n"]), ("fn", ["-fn"]), ("fnv", ["-fnv"]), ("fnt", ["-fntt"]), ("n_b", ["-n", "-b", "{bk}"]),
                    ("fn_b_B", ["-fn", "-B", "1024", "-b", "{bk}"]), ("nD_usage", ["-nD"]), ("np_usage", ["-n", "-p"]),
                    ("fn_C0", ["-fn", "-C", "0"]), ("n_journal_only", ["-n", "-E", "journal_only"]),
                    ("fn_ea_ver", ["-fn", "-E", "ea_ver=2"]), ("fn_readahead0", ["-fn", "-E", "readahead_kb=0"]),
                    ("fn_problem_log", ["-fn", "-E", "problem_log={out}"]), ("fnr", ["-fnr"]), ("fnd", ["-fnd"]),
                    ("n_l", ["-n", "-l", "{host_bb}"]), ("fn_k", ["-fnk"]), ("fn_unshare", ["-fn", "-E", "unshare_blocks"]),
                    ("fn_fixes_only", ["-fn", "-E", "fixes_only"]), ("fn_E_discard", ["-fn", "-E", "discard"]),
                    ("fn_z", ["-fn", "-z", "{zout}"])]:
        add("e2fsck-" + name, "e2fsck", ["@e2fsck"] + a + ["{img}"], "e2fsck")
    # ---- debugfs without -w: read-only requests
    ro = ["ls -l", "ls -d", "ls -p bigdir", "ls -lc dir1", "ls -r", "stat file_big", "stat <8>", "stat <2>", "stat <7>", "stat tiny",
          "stat sl_long", "cat file_small", "cat file_big", "cat tiny", "cat <8>", "dump file_big {out}", "dump -p file_mid {out}",
          "rdump dir1 {outdir}", "rdump / {outdir}", "logdump", "logdump -a", "logdump -O", "logdump -S", "logdump -b 333",
          "logdump -c", "logdump -i file_small", "logdump -f {img}", "logdump -s", "htree bigdir", "htree /", "ex file_big",
          "ex -n <8>", "ex -l file_big", "blocks file_big", "blocks <7>", "filefrag -dvr /", "filefrag file_big",
          "icheck 333 400 1 5000", "ncheck 12 13 2", "ncheck -c 14 15", "bmap file_big 0", "bmap file_big 45", "bmap -a file_big 400 5000",
          "stats", "stats -h", "ffb 3 100", "ffb", "ffi", "ffi dir1 0100644", "testb 333 5", "testb 1", "testi file_big", "testi <11>",
          "imap file_big", "imap <2>", "dx_hash -h half_md4 foo", "dx_hash -h tea -s 1234 foo", "lsdel", "lsdel 10", "dump_unused",
          "dirsearch / file_big", "dirsearch bigdir entry_with_a_long_name_77", "dump_mmp", "bd 1", "bd -f file_big 0", "bd -x 300",
          "idump file_big", "idump -b file_big", "idump -e file_big", "idump -x file_small", "ea_list file_big", "ea_list tiny",
          "ea_get file_big user.big", "ea_get -f {out} file_small user.foo", "ea_get -x file_small user.foo", "lq user", "lq group",
          "gq user 0", "gq group 77", "orphan_inodes", "freefrag", "freefrag -c 64", "features", "supported_features",
          "supported_features metadata_csum", "params", "pwd", "cd dir1", "chroot dir1", "extent_open file_big", "close", "close -a",
          "open {img}", "show_super_stats -h", "undel", "print_working_directory", "get_quota user 1000"]
    for i, c in enumerate(ro):
        add("debugfs-ro-%02d:%s" % (i, c.replace("{", "").replace("}", "")), "debugfs", _dbg(c), "debugfs_ro")
    for pre_name, pre in [("c", ["-c"]), ("n", ["-n"]), ("bk", ["-b", "1024", "-s", "{bk}"]), ("cD", ["-c", "-D"])]:
        for c in ["ls -l", "stats", "cat file_small", "icheck 333", "logdump", "htree bigdir", "stat file_big", "ncheck 12"]:
            add("debugfs-%s:%s" % (pre_name, c), "debugfs", _dbg(c, pre), "debugfs_opts")
    # ---- debugfs without -w: modifying requests, which must be refused (or at least not reach the device)
    wr = ["mkdir newdir", "rm file_small", "rmdir dir1/sub", "write {host} newfile", "unlink file_small", "link file_small hardlink",
          "symlink s2 target", "mknod p2 p", "kill_file file_small", "clri file_small", "freei file_small", "seti <100>",
          "freeb 333", "setb 5000 4", "sif file_small size 0", "sif <2> mode 0", "ssv mnt_count 5", "ssv last_orphan 0",
          "ssv state 1", "set_bg 0 checksum calc", "set_bg 0 free_blocks_count 0", "smmp seq 5", "smmp clear", "zap_block 5",
          "zap_block -f file_small 0", "zap_block -p 0xff -o 0 -l 16 2", "dirty", "expand dir1", "undel <23> revived",
          "copy_inode file_small tiny", "punch file_big 0 10", "truncate file_big 5", "fallocate file_small 0 100",
          "ea_set file_small user.x y", "ea_set -f {host} file_big user.blob", "ea_rm file_small user.foo", "jo", "jo -c",
          "jw -b 333 /dev/zero", "jc", "jr", "features ^dir_index", "features metadata_csum_seed", "set_current_time 20200101",
          "mi file_small", "lcd /", "journal_open -f {host}", "ssv uuid random", "ssv checksum calc", "sif file_big block[0] 0",
          "seti file_big", "setb 1", "freeb 1 100"]
    for i, c in enumerate(wr):
        add("debugfs-wr-%02d:%s" % (i, c.replace("{", "").replace("}", "")), "debugfs", _dbg(c), "debugfs_refused")
    for c in ["mkdir newdir", "rm file_small", "ssv mnt_count 5", "zap_block 5", "sif file_small size 0", "jo", "jr", "dirty", "freeb 333"]:
        add("debugfs-c-wr:%s" % c, "debugfs", _dbg(c, ["-c"]), "debugfs_refused")
    # ---- debugfs -f scripts without -w (extent editor, journal requests in one session, mixed)
    scripts = {
        "extent_ro": ["eo file_big", "root", "info", "all", "nl", "pl", "ns", "ps", "n", "p", "up", "down", "last_leaf", "goto 5", "current", "ec"],
        "extent_wr": ["eo file_big", "delete_node", "insert_node 1 1 1", "insert_node --after --uninit 7 2 900", "split", "fixp",
                      "set_bmap 0 100", "set_bmap --uninit 3 200", "replace_node 0 1 500", "ec"],
        "journal_wr": ["jo", "jw -b 333,334 /dev/zero", "jw -r 400", "jc", "jr", "logdump"],
        "mixed": MIXED_SCRIPT,
        "reopen": ["close", "open {img}", "ls", "close", "open -c {img}", "stats", "close", "open -e {img}", "ls"],
    }
    for n, cmds in scripts.items():
        add("debugfs-script:" + n, "debugfs_script", ["@debugfs", "-f", "@script:" + "\n".join(cmds), "{img}"], "debugfs_script")
    # ---- the other tools
    for name, a in [("", []), ("h", ["-h"]), ("x", ["-x"]), ("b", ["-b"]), ("g", ["-g"]), ("f", ["-f"]), ("m", ["-m"]), ("fh", ["-f", "-h"]),
                    ("o_sb", ["-o", "superblock={bk}", "-o", "blocksize=1024"]), ("xh", ["-x", "-h"])]:
        add("dumpe2fs-" + name, "dumpe2fs", ["@dumpe2fs"] + a + ["{img}"], "dumpe2fs")
    add("tune2fs-l", "tune2fs", ["@tune2fs", "-l", "{img}"], "tune2fs")
    for name, a in [("P", ["-P"]), ("Pf", ["-P", "-f"]), ("Pd", ["-P", "-d", "62"]), ("PM", ["-P", "-M"])]:
        add("resize2fs-" + name, "resize2fs", ["@resize2fs"] + a + ["{img}"], "resize2fs")
    for name, a in [("normal", []), ("r", ["-r"]), ("Q", ["-Q"]), ("ra", ["-ra"]), ("Qa", ["-Qa"]), ("rs", ["-rs"]), ("rf", ["-rf"]),
                    ("rp", ["-rp"]), ("rn", ["-rn"]), ("rb", ["-r", "-b", "{bk}", "-B", "1024"]), ("raO", ["-ra", "-O", "4096"])]:
        add("e2image-" + name, "e2image", ["@e2image"] + a + ["{img}", "{out}"], "e2image")
    # -c compares with an existing destination (a destination shorter than the source makes check_block() spin on read() = 0: C06)
    add("e2image-rc", "e2image", ["@e2image", "-rc", "{img}", "{outcopy}"], "e2image")
    add("e2image-r-stdout", "e2image", ["@e2image", "-r", "{img}", "-"], "e2image")
    for name, a in [("", []), ("c64", ["-c", "64"]), ("c8", ["-c", "8"])]:
        add("e2freefrag-" + name, "e2freefrag", ["@e2freefrag"] + a + ["{img}"], "e2freefrag")
    for name, a in [("n", ["-n"]), ("nf", ["-n", "-f"]), ("nv", ["-n", "-v"]), ("nfv", ["-nfv"]), ("h", ["-h"]), ("nh", ["-n", "-h"]),
                    ("n_o0", ["-n", "-o", "0"]), ("nf_z", ["-n", "-f", "-z", "{zout}"])]:
        add("e2undo-" + name, "e2undo", ["@e2undo"] + a + ["{undo}", "{img}"], "e2undo")
    for name, a in [("n", ["-n"]), ("n_ext4", ["-n", "-t", "ext4"]), ("nF_4k", ["-n", "-F", "-b", "4096"]), ("nS", ["-n", "-S"]),
                    ("nq_ext2", ["-n", "-q", "-t", "ext2", "-O", "^resize_inode"]), ("n_ext3_J", ["-n", "-t", "ext3", "-J", "size=1"]),
                    ("n_quota_mmp", ["-n", "-F", "-t", "ext4", "-O", "quota,mmp,bigalloc,metadata_csum,64bit", "-C", "4096"]),
                    ("n_E", ["-n", "-E", "stride=4,stripe_width=8,lazy_itable_init=0,discard"]), ("n_d", ["-n", "-d", "{outdir}"]),
                    ("n_l", ["-n", "-l", "{host_bb}"]), ("nv_size", ["-n", "-v"]), ("nFF", ["-n", "-F", "-F"])]:
        add("mke2fs-" + name, "mke2fs", ["@mke2fs"] + a + ["{img}"], "mke2fs")
    add("mke2fs-n_size", "mke2fs", ["@mke2fs", "-n", "{img}", "4096"], "mke2fs")
    # ---- C06 probe: a destination shorter than the source makes e2image -c spin in check_block() (read() = 0 forever).
    # Not a C13 matter; it is here so that every run of the check exercises the "killed by the harness" path (Killed
    # action, c06_observations routing) -- the source must still be untouched when the tool is killed.
    add("e2image-rc-shortdest", "e2image", ["@e2image", "-rc", "{img}", "{out}"], "c06_probe")
    # ---- writing control runs (class rw): the recorder must see their writes
    add("ctl-e2fsck-fy", "e2fsck", ["@e2fsck", "-fy", "{img}"], "control", "rw")
    add("ctl-e2fsck-p", "e2fsck", ["@e2fsck", "-p", "{img}"], "control", "rw")
    add("ctl-debugfs-w-mkdir", "debugfs", ["@debugfs", "-w", "-R", "mkdir ctl_dir", "{img}"], "control", "rw")
    add("ctl-debugfs-w-zap", "debugfs", ["@debugfs", "-w", "-R", "zap_block -p 0x5a 5000", "{img}"], "control", "rw")
    add("ctl-tune2fs-L", "tune2fs", ["@tune2fs", "-L", "ctl_label", "{img}"], "control", "rw")
    add("ctl-mke2fs", "mke2fs", ["@mke2fs", "-q", "-F", "-t", "ext4", "{img}"], "control", "rw")
    add("ctl-mke2fs-discard", "mke2fs", ["@mke2fs", "-q", "-F", "-t", "ext2", "-E", "discard", "{img}"], "control", "rw")
    add("ctl-resize2fs-shrink", "resize2fs", ["@resize2fs", "-f", "{img}", "6M"], "control", "rw")
    add("ctl-e2undo", "e2undo", ["@e2undo", "-f", "{undo}", "{img}"], "control", "rw")
    # ---- round 2: the catalogues of spec/ToolRunUniv.tla
    if univ:
        for z in sorted(univ["zinv"], key=lambda z: (z["tool"], z["form"], z["zfile"])):
            add("z:%s-%s:%s" % (z["tool"], z["form"], z["zfile"]), z["tool"], ZFORM_ARGV[(z["tool"], z["form"])], "z_" + z["tool"],
                meta={"zfile": z["zfile"], "zform": z["form"]})
        for fl, zz in sorted({(x["flags"], x["z"]) for x in univ["undo"]}):
            add("undo:%s%s" % (fl, ":z" if zz else ""), "e2undo", ["@e2undo", "-" + fl] + (["-z", "{zout}"] if zz else []) + ["{undo}", "{img}"],
                "e2undo_catalogue", meta={"flags": fl, "z": zz, "zfile": "absent"})
        for t, f, rch, cl in sorted({(x["tool"], x["form"], x["reach"], x["class"]) for x in univ["extj"]}):
            add("xj:%s-%s:%s%s" % (t, f, rch, "" if cl == "ro" else ":ctl"), t, EXTJ_ARGV[(t, f, rch)], "extj_" + ("ctl" if cl == "rw" else t), cl,
                meta={"form": f, "reach": rch, "zfile": "absent"})
    ids = [i.id for i in L]
    assert len(ids) == len(set(ids)), "duplicate invocation id"
    return L


TOOLBIN = {"@e2fsck": "e2fsck/e2fsck", "@debugfs": "debugfs/debugfs", "@dumpe2fs": "misc/dumpe2fs", "@tune2fs": "misc/tune2fs",
           "@resize2fs": "resize/resize2fs", "@e2image": "misc/e2image", "@e2freefrag": "misc/e2freefrag", "@e2undo": "misc/e2undo",
           "@mke2fs": "misc/mke2fs"}


# python transcription of DocExit in spec/ToolRun.tla -- used only to PREDICT what TLC will say (a disagreement between
# the prediction and TLC is "check broken", never a verdict)
def doc_exit(tool, cls, code):
    if tool == "e2fsck":
        if code & 64 or not 0 <= code <= 255:
            return False
        return not (cls == "ro" and code & 3)
    if tool == "debugfs_script":
        return 0 <= code <= 16
    if tool == "dumpe2fs":
        return 0 <= code <= 255
    return code in (0, 1)


WR_EVENTS = ("pwrite", "write", "pwritev", "ftruncate", "fallocate")
PROBE_TIMEOUT = {"e2image-rc-shortdest": 3}


class Runner:
    def __init__(self, b, work):
        self.b, self.work = b, work
        self.env = tool_env(b)
        self.tl = threading.local()
        self.ndirs = 0
        self.lock = threading.Lock()
        self.digest = {}

    def state_digest(self, st, path=None):
        path = path or st.path
        with self.lock:
            d = self.digest.get(path)
        if d is None:
            d = hashlib.sha256(open(path, "rb").read()).hexdigest()
            with self.lock:
                self.digest[path] = d           # (several states of the e2undo catalogue share one target image)
        return d

    def _dir(self):
        d = getattr(self.tl, "dir", None)
        if d is None:
            with self.lock:
                self.ndirs += 1
                d = os.path.join(self.work, "r%d_%03d" % (os.getpid(), self.ndirs))
            os.makedirs(d)
            with open(os.path.join(d, "host_small"), "wb") as f:
                f.write(b"host file content\n" * 40)
            with open(os.path.join(d, "host_bb"), "w") as f:
                f.write("5000\n5001\n")
            self.tl.dir = d
            self.tl.have = None
            self.tl.havej = None
        return d

    def run(self, st, inv):
        """Execute one invocation on a private copy of the state; returns a result dict (see below)."""
        d = self._dir()
        img = os.path.join(d, "target.img")
        before = self.state_digest(st)
        if self.tl.have != st.path:
            G.sparse_copy(st.path, img)
            self.tl.have = st.path
        # the external journal device of the state: the second device of the target set (object 3), private copy
        jnl = os.path.join(d, "target.jnl")
        sjnl = getattr(st, "jnl", "")
        jbefore = self.state_digest(st, sjnl) if sjnl else ""
        if sjnl and self.tl.havej != sjnl:
            G.sparse_copy(sjnl, jnl)
            self.tl.havej = sjnl
        if any("{jnl}" in a for a in inv.argv) and not sjnl:
            die_broken("invocation %s needs a state with a journal device, %s has none" % (inv.id, st.id))
        out, outdir, trace = os.path.join(d, "out.e2i"), os.path.join(d, "outdir"), os.path.join(d, "trace.ndjson")
        zout, ulog = os.path.join(d, "zfile.undo"), os.path.join(d, "undo.log")
        for p in (out, trace, os.path.join(d, "script.dfs"), zout):
            if os.path.exists(p):
                os.unlink(p)
        shutil.rmtree(outdir, ignore_errors=True)
        os.makedirs(outdir)
        meta = inv.meta or {}
        uses_undo = any("{undo}" in a for a in inv.argv)
        uses_z = any("{zout}" in a for a in inv.argv)
        undo_before = b""
        if uses_undo:
            # the undo log is an auxiliary file of the run: private copy (a tool that wrote it must not disturb other runs)
            src = st.undo or os.path.join(d, "host_small")
            undo_before = open(src, "rb").read()
            with open(ulog, "wb") as f:
                f.write(undo_before)
        if uses_z:
            zstate = meta.get("zfile", "absent")
            if zstate == "matching":
                zbytes = G.matching_undo_file(img)
            elif zstate == "foreign":
                zbytes = open(G.finished_log(os.path.join(self.work, "states"), st.profile), "rb").read()
            elif zstate == "garbage":
                zbytes = b"this is not an undo file\n" * 200
            elif zstate == "absent":
                zbytes = None
            else:
                die_broken("no recipe for -z file state %r of ToolRunUniv!ZFileStates" % zstate)
            if zbytes is not None:
                with open(zout, "wb") as f:
                    f.write(zbytes)
        sub = {"{img}": img, "{out}": out, "{outdir}": outdir, "{undo}": ulog, "{zout}": zout,
               "{jnl}": jnl, "{host}": os.path.join(d, "host_small"), "{host_bb}": os.path.join(d, "host_bb"), "{bk}": "2049"}
        if any("{outcopy}" in a for a in inv.argv):
            G.sparse_copy(img, out)
            sub["{outcopy}"] = out
        argv = []
        for a in inv.argv:
            if a in TOOLBIN:
                argv.append(os.path.join(self.b, TOOLBIN[a]))
                continue
            for k, v in sub.items():
                a = a.replace(k, v)
            if a.startswith("@script:"):
                sp = os.path.join(d, "script.dfs")
                with open(sp, "w") as f:
                    f.write(a[len("@script:"):] + "\n")
                a = sp
            argv.append(a)
        env = dict(self.env)
        env.update({"LD_PRELOAD": IOTRACE, "VERIF_IOTRACE_TARGET": ":".join((img, zout, ulog, jnl)), "VERIF_IOTRACE_OUT": trace})
        if sjnl:
            # the tools look the journal device up by s_journal_uuid through libblkid: a private cache file names the
            # private copy (written afresh for every run: libblkid rewrites its cache file)
            bl = os.path.join(d, "blkid.tab")
            for p_ in (bl, bl + ".old"):
                if os.path.exists(p_):
                    os.unlink(p_)
            with open(bl, "w") as f:
                f.write('<device DEVNO="0x0000" TIME="1600000000.0" UUID="%s" TYPE="jbd">%s</device>\n' % (G.JNL_UUID, jnl))
            env["BLKID_FILE"] = bl
        t0 = time.time()
        timed_out = False
        try:
            p = subprocess.run(argv, stdin=subprocess.DEVNULL, stdout=subprocess.DEVNULL, stderr=subprocess.PIPE, env=env, cwd=d,
                               timeout=PROBE_TIMEOUT.get(inv.id, TIMEOUT))
            rc, err = p.returncode, p.stderr
        except subprocess.TimeoutExpired as e:
            rc, err, timed_out = -9, (e.stderr or b""), True
        except OSError as e:
            die_broken("cannot execute %s: %s" % (argv[0], e))
        ms = int((time.time() - t0) * 1000)
        after = hashlib.sha256(open(img, "rb").read()).hexdigest() if os.path.exists(img) else "missing"
        if after != before:
            self.tl.have = None             # next run starts from a fresh copy
        jafter = (hashlib.sha256(open(jnl, "rb").read()).hexdigest() if os.path.exists(jnl) else "missing") if sjnl else ""
        if jafter != jbefore:
            self.tl.havej = None
        events = []
        if os.path.exists(trace):
            for ln in open(trace):
                ln = ln.strip()
                if ln:
                    try:
                        events.append(json.loads(ln))
                    except ValueError:
                        die_broken("iotrace line does not parse: %r" % ln[:200])
        errs = err.decode("utf8", "replace")
        # what e2undo says when it reaches its final guard (evidence for the model of ToolRunUniv, never a verdict)
        marks = {"io": int("IO error during replay" in errs), "csum": int("Undo file corruption" in errs),
                 "incomplete": int("Incomplete undo record" in errs)}
        undo_changed = int(uses_undo and os.path.exists(ulog) and open(ulog, "rb").read() != undo_before)
        return dict(state=st.id, inv=inv.id, tool=inv.tool, cls=inv.cls, argv=[a.replace(d, "$D") for a in argv],
                    code=rc if rc >= 0 else 0, sig=-rc if rc < 0 else 0, timeout=int(timed_out), ms=ms,
                    digest_equal=int(after == before), jdigest_equal=int(jafter == jbefore), events=events, stderr=errs[-400:], marks=marks, undo_changed=undo_changed)


def to_behaviour(res):
    """ndjson lines for Trace_ToolRun: uniformly typed fields only; fds of a second process are renumbered."""
    lines = [json.dumps({"e": "reset", "tool": res["tool"], "class": res["cls"], "state": res["state"], "inv": res["inv"]})]
    pids = []
    for ev in res["events"]:
        if ev["pid"] not in pids:
            pids.append(ev["pid"])
        fd = ev["fd"] + 4096 * pids.index(ev["pid"])
        e = ev["e"]
        if e == "open":
            lines.append(json.dumps({"e": "open", "fd": fd, "obj": ev["tgt"], "acc": ev["acc"], "creat": ev["creat"], "trunc": ev["trunc"], "excl": ev["excl"]}))
        elif e in WR_EVENTS:
            lines.append(json.dumps({"e": e, "fd": fd, "obj": ev["tgt"], "off_hi": ev["off_hi"], "off_lo": ev["off_lo"], "len": ev["len"], "x": ev["x"]}))
        elif e in ("fsync", "close"):
            lines.append(json.dumps({"e": e, "fd": fd, "obj": ev["tgt"]}))
        else:
            die_broken("unknown iotrace event %r" % e)
    lines.append(json.dumps({"e": "exit", "code": res["code"], "sig": res["sig"], "digest_equal": res["digest_equal"], "jdigest_equal": res["jdigest_equal"]}))
    return lines


def predict(res):
    """What Trace_ToolRun must say about this run: (verdict, detail); verdict in ok | write | digest | exitdoc | shape."""
    res["opened_target"] = int(any(ev["e"] == "open" and ev["tgt"] == 0 for ev in res["events"]))
    res["opened_jdev"] = int(any(ev["e"] == "open" and ev["tgt"] == 3 for ev in res["events"]))
    res["nwr_j"] = 0
    objname = {0: "the target", 3: "the external journal device (target set)"}
    res["auxw"], res["auxopened"] = 0, []
    openfds, modified, refused, nwr = {}, False, 0, 0
    auxfds, auxw, auxopened = {}, 0, set()
    pids = []
    for ev in res["events"]:
        if ev["pid"] not in pids:
            pids.append(ev["pid"])
        fd = ev["fd"] + 4096 * pids.index(ev["pid"])
        e = ev["e"]
        if ev["tgt"] not in TARGET_OBJS:
            # an auxiliary file (the -z undo file, the undo log): ToolRunZ's Aux* steps, any class, never the device
            if e == "open":
                if fd in openfds or fd in auxfds:
                    return "shape", "open of an fd that is already open"
                auxfds[fd] = ev["acc"]
                auxopened.add(ev["tgt"])
                auxw += bool(ev["trunc"] or ev["creat"])
            elif fd not in auxfds:
                return "shape", "%s on an auxiliary fd that is not open" % e
            elif e in WR_EVENTS:
                auxw += auxfds[fd] != "rdonly"
            elif e == "close":
                del auxfds[fd]
            res["auxw"], res["auxopened"] = auxw, sorted(auxopened)
            continue
        if e == "open":
            if fd in openfds or fd in auxfds:
                return "shape", "open of an fd that is already open"
            openfds[fd] = ev["acc"]
            if ev["trunc"] or ev["creat"]:
                if res["cls"] == "ro":
                    return "write", "open of %s with O_TRUNC/O_CREAT" % objname[ev["tgt"]]
                modified = True
        elif e in WR_EVENTS:
            if fd not in openfds:
                return "shape", "%s on an fd that is not open" % e
            if openfds[fd] == "rdonly":
                refused += 1
            else:
                nwr += 1
                res["nwr_j"] += ev["tgt"] == 3
                if res["cls"] == "ro":
                    off = ev["off_hi"] * (1 << 31) + ev["off_lo"]
                    return "write", "%s(fd=%d opened %s, offset=%d, len=%d) on %s" % (e, ev["fd"], openfds[fd], off, ev["len"], objname[ev["tgt"]])
                modified = True
        elif e == "fsync":
            if fd not in openfds:
                return "shape", "fsync on an fd that is not open"
        elif e == "close":
            if fd not in openfds:
                return "shape", "close of an fd that is not open"
            del openfds[fd]
    res["refused"], res["nwr"] = refused, nwr
    if not (res["digest_equal"] and res["jdigest_equal"]) and not modified:
        return "digest", "sha256 of %s changed although no write-class call was recorded" % (objname[0] if not res["digest_equal"] else objname[3])
    if res["sig"] == 0 and not doc_exit(res["tool"], res["cls"], res["code"]):
        return "exitdoc", "exit status %d is not in the contract table of %s (%s)" % (res["code"], res["tool"], res["cls"])
    return "ok", ""


class _EvShim:
    """Collects what model_check reports while it runs in its own thread (merged into the Evidence afterwards)."""
    def __init__(self):
        self.runs, self.cov = [], {}

    def add_tlc(self, r, label=None):
        self.runs.append((r, label))


def model_check(ev, work):
    cfg = os.path.join(work, "MC_ToolRun.cfg")
    T.write_cfg(cfg, spec="Spec", constants=dict(Fds="{3, 4, 5}", MaxVer=3, MaxRefused=2, Signals="{6, 9, 11}"),
                invariants=["TypeOK", "RoUnmodified", "ModifiedIffVersion", "ExitDocumented", "TableSane"],
                properties=["ReadOnlyNeverModifies"], constraints=["VerBound"])
    r = T.tlc(os.path.join(SPEC, "ToolRun.tla"), cfg, workers=4, timeout=900, xmx="3g")
    ev.add_tlc(r, "ToolRun Fds={3,4,5} MaxVer=3 exhaustive BFS: TypeOK, RoUnmodified, ModifiedIffVersion, ExitDocumented, TableSane, "
                  "PROPERTY ReadOnlyNeverModifies")
    if r.violated:
        return "model: %s violated in ToolRun (design-level counterexample)\n%s" % (r.violated, r.out[-3000:])
    if not r.ok:
        die_broken("TLC failed on ToolRun: %s\n%s" % (r.error, r.out[-2000:]))
    # the protocol with auxiliary files (-z undo file, undo log): same target rules, aux writes in every class
    cfgz = os.path.join(work, "MC_ToolRunZ.cfg")
    consts = dict(Fds="{3, 4}", MaxVer=3, MaxRefused=2, Signals="{9, 11}")
    T.write_cfg(cfgz, spec="SpecZ", constants=consts,
                invariants=["TypeOKZ", "RoUnmodified", "ModifiedIffVersion", "ExitDocumented"],
                properties=["ReadOnlyNeverModifiesZ", "AuxNeverTouchesTarget"], constraints=["VerBound"])
    rz = T.tlc(os.path.join(SPEC, "ToolRunZ.tla"), cfgz, workers=4, timeout=900, xmx="3g")
    ev.add_tlc(rz, "ToolRunZ (target + auxiliary files) Fds={3,4} MaxVer=3 exhaustive BFS: TypeOKZ, RoUnmodified, ModifiedIffVersion, "
                   "ExitDocumented, PROPERTY ReadOnlyNeverModifiesZ, AuxNeverTouchesTarget")
    if rz.violated:
        return "model: %s violated in ToolRunZ (design-level counterexample)\n%s" % (rz.violated, rz.out[-3000:])
    if not rz.ok:
        die_broken("TLC failed on ToolRunZ: %s\n%s" % (rz.error, rz.out[-2000:]))
    # non-vacuity of the separation: a read-only run that wrote an auxiliary file and exited IS a behaviour
    cfgn = os.path.join(work, "MC_ToolRunZ_nv.cfg")
    T.write_cfg(cfgn, spec="SpecZ", constants=consts, invariants=["NeverRoWithAuxWrite"], constraints=["VerBound"])
    rn = T.tlc(os.path.join(SPEC, "ToolRunZ.tla"), cfgn, workers=2, timeout=600, xmx="2g")
    if rn.violated != "NeverRoWithAuxWrite":
        die_broken("ToolRunZ has no behaviour in which a read-only run writes an auxiliary file (vacuous separation): %s\n%s"
                   % (rn.error, rn.out[-1500:]))
    ev.cov["exhaustive"] = True
    return None


def plan_round2(states, ustates, invs, univ, tier, rng):
    """Pairs of the catalogues of ToolRunUniv.
    -z invocations: thorough = every one on every image state (corruption recipes: with an absent -z file).  quick = the e2fsck forms with an absent -z file on EVERY
    state of kind journal / orphan / mmp / quota (all axis points of every profile are among them) and their other -z file
    states on a seeded sample of the axis points where e2fsck wants to write; every other -z invocation on a clean state,
    a corrupt state and a seeded sample of those axis points; plain e2fsck -n / -fn on every axis point.
    e2undo dry runs: thorough = the whole catalogue on every profile.  quick = every (defect, relation) with every flag
    set (and -nf with -z) on 3 seeded profiles, with -nf on the others."""
    zinv = [i for i in invs if i.group.startswith("z_")]
    uinv = [i for i in invs if i.group == "e2undo_catalogue"]
    pairs = []
    axis_names = {}
    for a in univ["axes"]:
        for p, _ in G.PROFILES:
            v = G.axis_variant(p, a["j"], a["o"])
            if v:
                axis_names[(p, v)] = a
    axis_states = [s for s in states if (s.profile, s.variant) in axis_names]
    missing = sorted(set("%s/%s" % k for k in axis_names) - {s.id for s in states})
    if missing:
        die_broken("image states of the axis points %s were not generated" % missing[:6])
    wants = [s for s in axis_states if axis_names[(s.profile, s.variant)]["wants_write"]]
    hot = [s for s in states if s.kind in ("journal", "orphan", "mmp", "quota")]
    clean = [s for s in states if s.variant == "clean"]
    corrupt = [s for s in states if s.kind == "corrupt"]
    uprof = collections.defaultdict(list)
    for s in ustates:
        uprof[s.profile].append(s)
    if tier == "thorough":
        pairs += [(s, i) for s in states for i in zinv if s.kind != "corrupt" or i.meta["zfile"] == "absent"]
        pairs += [(s, i) for s in ustates for i in uinv]
        return pairs
    for i in zinv:
        if i.tool == "e2fsck" and i.meta["zfile"] == "absent":
            pairs += [(s, i) for s in hot]
            pairs += [(s, i) for s in rng.sample(corrupt, 4)]
        elif i.tool == "e2fsck":
            pairs += [(s, i) for s in rng.sample(wants, 5)]
        else:
            pairs += [(rng.choice(clean), i), (rng.choice(corrupt), i)] + [(s, i) for s in rng.sample(wants, 4)]
    for i in invs:
        if i.id in ("e2fsck-n", "e2fsck-fn"):
            pairs += [(s, i) for s in axis_states if s.variant.startswith("ax_")]
    full = set(rng.sample(sorted(uprof), min(3, len(uprof))))
    for p in sorted(uprof):
        for i in uinv:
            if (p in full and (not i.meta["z"] or i.meta["flags"] == "nf")) or (p not in full and i.meta["flags"] == "nf" and not i.meta["z"]):
                pairs += [(s, i) for s in uprof[p]]
    return pairs


def plan_round3(xstates, invs, univ):
    """External journal device: the WHOLE catalogue ToolRunUniv!ExtJRuns in both tiers (journal flavour x state of the journal
    device x form x reach, ~540 runs of a few ms), writing control runs included."""
    sby = {s.id: s for s in xstates}
    iby = {i.id: i for i in invs if i.group.startswith("extj_")}
    pairs = []
    for x in sorted(univ["extj"], key=lambda x: (x["profile"], x["jstate"], x["tool"], x["form"], x["reach"], x["class"])):
        sid = "xj_%s/%s" % (x["profile"], x["jstate"])
        iid = "xj:%s-%s:%s%s" % (x["tool"], x["form"], x["reach"], "" if x["class"] == "ro" else ":ctl")
        if sid not in sby:
            die_broken("image state %s of ToolRunUniv!ExtJImages was not generated" % sid)
        if iid not in iby:
            die_broken("run %s of ToolRunUniv!ExtJRuns has no invocation" % iid)
        pairs.append((sby[sid], iby[iid]))
    return pairs


def plan(states, invs, tier, rng):
    """The (state, invocation) pairs of this tier.  thorough = the full cross product (controls on clean / journal / orphan
    states only); quick = every invocation on >= 3 states of different kinds + every state at least twice."""
    invs = [i for i in invs if not i.group.startswith(("z_", "extj_")) and i.group != "e2undo_catalogue"]      # round 2 / 3: plan_round2 / plan_round3
    ro = [i for i in invs if i.cls == "ro" and i.group != "c06_probe"]
    probe = [i for i in invs if i.group == "c06_probe"]
    ctl = [i for i in invs if i.cls == "rw"]
    # (a read-write open of an MMP file system sleeps 11 s or more: no writing control runs on that profile)
    ctl_states = [s for s in states if s.variant in ("clean", "jrn_recover", "orphan_list", "post_tune_undo") and s.profile != "mmp"]
    clean = [s for s in states if s.variant == "clean"]
    pairs = []
    if tier == "thorough":
        pairs = [(s, i) for s in states for i in ro]
        pairs += [(s, i) for s in ctl_states for i in ctl]
        pairs += [(s, i) for s in clean for i in probe]
        return pairs
    by_kind = collections.defaultdict(list)
    for s in states:
        by_kind["clean" if s.kind in ("clean", "undo") else "corrupt" if s.kind == "corrupt" else "special"].append(s)
    seen = set()
    for i in ro:
        for k in ("clean", "special", "corrupt"):
            s = rng.choice(by_kind[k])
            pairs.append((s, i)); seen.add(s.id)
    core = [i for i in ro if i.id in ("e2fsck-n", "e2fsck-fn", "dumpe2fs-", "debugfs-ro-00:ls -l", "e2image-r", "resize2fs-P", "tune2fs-l",
                                      "mke2fs-n", "e2undo-nf", "e2freefrag-", "debugfs-wr-00:mkdir newdir", "debugfs-script:mixed")]
    for s in states:
        if s.id not in seen:
            pairs.append((s, rng.choice(core)))
    for i in ctl:
        pairs.append((rng.choice(ctl_states), i))
    for i in probe:
        pairs += [(s, i) for s in rng.sample(clean, min(2, len(clean)))]
    return pairs


_WORKER = {}


def _winit(b, work):
    _WORKER["runner"] = Runner(b, work)


def _wrun(task):
    out = []
    try:
        for s, i in task:
            out.append(_WORKER["runner"].run(s, i))
    except SystemExit:
        return {"broken": "a worker could not run %s on %s (see CHECK-BROKEN line above)" % (i.id, s.id)}
    return out


def execute(b, work, pairs):
    """Run the pairs in min(NPROC, 16) worker PROCESSES (python threads serialise on the GIL); pairs are grouped by state
    so that a worker copies a state once per group."""
    groups = collections.defaultdict(list)
    for k, (s, i) in enumerate(pairs):
        groups[s.id].append(k)
    tasks = []
    for sid, ks in groups.items():
        for j in range(0, len(ks), 24):
            tasks.append(ks[j:j + 24])
    results = [None] * len(pairs)
    with cf.ProcessPoolExecutor(max_workers=min(NPROC, 16), initializer=_winit, initargs=(b, work)) as ex:
        for ks, out in zip(tasks, ex.map(_wrun, [[pairs[k] for k in ks] for ks in tasks], chunksize=1)):
            if isinstance(out, dict):
                die_broken(out["broken"])
            for k, r in zip(ks, out):
                results[k] = r
    return results


def build_universe(b, work, tier, only=None, univ=None):
    """-> (image states, (target, undo log) states of the e2undo catalogue, (filesystem, journal device) states of the
    external-journal catalogue, skipped recipes, seconds)"""
    t0 = time.time()
    try:
        states, skipped = G.build_states(b, tool_env(b), os.path.join(work, "states"), tier, seed(), only=only,
                                         axes=univ["axes"] if univ else (), undo_catalogue=univ["undo_catalogue"] if univ else (),
                                         iotrace=IOTRACE, extj=univ["extj_images"] if univ else ())
    except G.GenError as e:
        die_broken("image generator failed: %s" % e)
    ustates = [s for s in states if s.kind == "undolog"]
    xstates = [s for s in states if s.kind == "extjournal"]
    states = [s for s in states if s.kind not in ("undolog", "extjournal")]
    return states, ustates, xstates, skipped, time.time() - t0


def run(tier):
    ev = Evidence(PID, tier, "model_checking")
    vd = Verdict(PID, ev)
    work = fast_tmp()
    try:
        if not os.path.exists(IOTRACE):
            r = subprocess.run(["make", "-C", os.path.join(VERIF, "harness")], stdout=subprocess.PIPE, stderr=subprocess.STDOUT)
            if not os.path.exists(IOTRACE):
                die_broken("harness/iotrace.so missing and cannot be built: %s" % r.stdout.decode()[-500:])
        try:
            b = build.build()
        except RuntimeError as e:
            die_broken(str(e))
        mcpool = cf.ThreadPoolExecutor(max_workers=1)          # the protocol models are checked while the tools run
        shim = _EvShim()
        mcf = mcpool.submit(model_check, shim, work)
        univ = load_universe(work)
        ev.add_tlc(univ["tlc"], "Emit_ToolRunUniv: catalogues of ToolRunUniv enumerated, ASSUME DryNeverFsck, GuardCoverage evaluated")
        states, ustates, xstates, skipped, tgen = build_universe(b, work, tier, univ=univ)
        invs = invocations(univ)
        rng = random.Random(seed())
        pairs = plan(states, invs, tier, rng)
        pairs += plan_round2(states, ustates, invs, univ, tier, random.Random(seed() + 7919))
        pairs += plan_round3(xstates, invs, univ)
        states = states + ustates + xstates
        runner = Runner(b, work)            # parent-side runner: re-runs of candidates
        t0 = time.time()
        results = execute(b, work, pairs)
        trun = time.time() - t0
        mc_err = mcf.result()                                   # (die_broken inside the thread re-raises SystemExit here)
        mcpool.shutdown()
        for r_, label in shim.runs:
            ev.add_tlc(r_, label)
        ev.cov.update(shim.cov)
        if mc_err:
            vd.violation("model", mc_err[:300], {"tlc": mc_err})
        return judge(ev, vd, runner, states, invs, pairs, results, work, tier, dict(gen_s=round(tgen, 1), run_s=round(trun, 1),
                                                                                  skipped_recipes=skipped), univ)
    finally:
        shutil.rmtree(work, ignore_errors=True)


def oracle_selftest(ev, results, preds, behs, work):
    """Sensitivity of the oracle, every run: take accepted read-only traces and (a) insert a pwrite on a descriptor that
    was opened read-write (mke2fs -n has one), (b) flip digest_equal, (c) insert an open with O_TRUNC.  Trace_ToolRun
    must reject these and accept the original (and accept the same calls made on an auxiliary file); otherwise the check is broken (vacuous oracle)."""
    k = next((k for k, (r, p) in enumerate(zip(results, preds)) if p[0] == "ok" and r["cls"] == "ro" and r["sig"] == 0 and
              any(e["e"] == "open" and e["acc"] == "rdwr" for e in r["events"])), None)
    if k is None:
        k = next((k for k, (r, p) in enumerate(zip(results, preds)) if p[0] == "ok" and r["cls"] == "ro" and r["sig"] == 0 and
                  any(e["e"] == "open" for e in r["events"])), None)
    if k is None:
        die_broken("oracle self-test: no accepted read-only trace with an open of the target")
    base = behs[k]
    oi = next(i for i, ln in enumerate(base) if json.loads(ln)["e"] == "open" and json.loads(ln)["acc"] == ("rdwr" if any(
        json.loads(x).get("acc") == "rdwr" for x in base) else "rdonly"))
    o = json.loads(base[oi])
    wr = json.dumps({"e": "pwrite", "fd": o["fd"], "obj": 0, "off_hi": 0, "off_lo": 1024, "len": 1024, "x": 0})
    ex = json.loads(base[-1]); ex["digest_equal"] = 0
    tr = json.dumps({"e": "open", "fd": 999, "obj": 0, "acc": "rdwr", "creat": 0, "trunc": 1, "excl": 0})
    variants = {"original": (base, False), "digest_flipped": (base[:-1] + [json.dumps(ex)], True),
                "open_trunc_inserted": (base[:oi + 1] + [tr] + base[oi + 1:], True)}
    if o["acc"] == "rdwr":
        variants["pwrite_inserted"] = (base[:oi + 1] + [wr] + base[oi + 1:], True)
    # the same calls on an AUXILIARY file (created, written, closed) are steps of a read-only run: must be accepted
    aux = [json.dumps({"e": "open", "fd": 998, "obj": 1, "acc": "rdwr", "creat": 1, "trunc": 0, "excl": 0}),
           json.dumps({"e": "pwrite", "fd": 998, "obj": 1, "off_hi": 0, "off_lo": 0, "len": 1024, "x": 0}),
           json.dumps({"e": "close", "fd": 998, "obj": 1})]
    variants["aux_file_written"] = (base[:oi + 1] + aux + base[oi + 1:], False)
    # ... and a write on the target through a descriptor number that belongs to an auxiliary file is no step at all
    variants["aux_fd_claimed_as_target"] = (base[:oi + 1] + aux[:1] + [json.dumps({"e": "pwrite", "fd": 998, "obj": 0, "off_hi": 0, "off_lo": 0,
                                                                                 "len": 1024, "x": 0})] + base[oi + 1:], True)
    # round 3: the external journal device (object 3) is part of the target set -- a write on a writable descriptor of it, or a
    # changed digest of it, must be rejected in a read-only run exactly like on object 0
    jop = json.dumps({"e": "open", "fd": 997, "obj": 3, "acc": "rdwr", "creat": 0, "trunc": 0, "excl": 1})
    jwr = json.dumps({"e": "pwrite", "fd": 997, "obj": 3, "off_hi": 0, "off_lo": 2048, "len": 1024, "x": 0})
    exj = json.loads(base[-1]); exj["jdigest_equal"] = 0
    variants["journal_device_opened_rdwr"] = (base[:oi + 1] + [jop] + base[oi + 1:], False)
    variants["journal_device_written"] = (base[:oi + 1] + [jop, jwr] + base[oi + 1:], True)
    variants["journal_device_digest_flipped"] = (base[:-1] + [json.dumps(exj)], True)
    variants["unknown_object"] = (base[:oi + 1] + [json.dumps({"e": "open", "fd": 996, "obj": 7, "acc": "rdonly", "creat": 0, "trunc": 0, "excl": 0})]
                                  + base[oi + 1:], True)
    out = {}
    for name, (beh, want_rej) in variants.items():
        sub = os.path.join(work, "ost_" + name)
        os.makedirs(sub, exist_ok=True)
        rej, matched, inv, tail, raw = tracecheck.confirm(beh, TRACE_TLA, TRACE_CFG, sub)
        if raw["error"] and not rej:
            die_broken("oracle self-test: TLC failed on variant %s: %s" % (name, raw["error"]))
        out[name] = "rejected at line %s" % matched if rej else "accepted"
        if rej != want_rej:
            die_broken("oracle self-test: Trace_ToolRun %s the %s trace of %s on %s\n%s" % ("rejects" if rej else "ACCEPTS", name, results[k]["inv"],
                                                                                      results[k]["state"], tail[-600:]))
    ev.cov["oracle_selftest"] = {"trace": "%s on %s" % (results[k]["inv"], results[k]["state"]), "verdicts": out}


def round2_evidence(ev, vd, univ, sbyid, ibyid, results):
    """Evidence about the catalogue runs (never a verdict): did the -z forms engage the undo manager, does the real
    e2undo do what the guard-chain model of ToolRunUniv expects, which disjuncts of the final guard did dry runs reach."""
    expect = {(x["defect"], x["rel"], x["flags"], x["z"]): x["expect"] for x in univ["undo"]}
    zruns = [r for r in results if ibyid[r["inv"]].group.startswith("z_")]
    eng = collections.Counter(); tot = collections.Counter(); rdwr = collections.Counter()
    for r in zruns:
        tot[r["tool"]] += 1
        eng[r["tool"]] += 1 in r.get("auxopened", [])
        rdwr[r["tool"]] += any(e["e"] == "open" and e["tgt"] == 0 and e["acc"] != "rdonly" for e in r["events"])
    uruns = [r for r in results if ibyid[r["inv"]].group == "e2undo_catalogue"]
    agree, undecided, dis = 0, 0, []
    reached = collections.Counter()
    for r in uruns:
        _, d, rel = sbyid[r["state"]].variant.split(":")
        m = ibyid[r["inv"]].meta
        e = expect.get((d, rel, m["flags"], m["z"]))
        if e is None:
            die_broken("run %s on %s is not an element of ToolRunUniv!UndoRuns" % (r["inv"], r["state"]))
        mk = r["marks"]
        final = int(r["sig"] == 0 and (r["code"] == 0 or mk["csum"] or mk["io"] or mk["incomplete"]))
        if final:
            force = "f" in m["flags"]
            reached["final"] += 1
            reached["io_alone"] += bool(mk["io"] and not mk["csum"])
            reached["csum_alone"] += bool(mk["csum"] and not mk["io"])
            reached["force_alone"] += bool(force and not mk["io"] and not mk["csum"])
            reached["incomplete_without_f"] += bool(mk["incomplete"] and not force)
            reached["nothing_set"] += bool(not force and not mk["incomplete"] and not mk["io"] and not mk["csum"])
        if not e["decided"]:
            undecided += 1
            continue
        obs = dict(opens=r["opened_target"], final=final, code=r["code"], io=mk["io"], csum=mk["csum"], incomplete=mk["incomplete"])
        ok = (r["sig"] == 0 and obs["opens"] == e["opens"] and final == int(e["stage"] == "final") and r["code"] == e["code"]
              and (not final or (obs["io"], obs["csum"], obs["incomplete"]) == (e["io"], e["csum"], e["incomplete"])))
        if ok:
            agree += 1
        else:
            dis.append({"inv": r["inv"], "state": r["state"], "expected": e, "observed": obs, "sig": r["sig"], "stderr": r["stderr"][-160:]})
    ev.cov["round2"] = {
        "catalogue": {"z_invocations": len(univ["zinv"]), "axis_points": len(univ["axes"]), "undo_runs_per_profile": len(univ["undo"]),
                      "undo_log_states_per_profile": len(univ["undo_catalogue"])},
        "z_runs": {"count": len(zruns), "by_tool": dict(tot), "undo_manager_engaged_by_tool": dict(eng),
                   "target_opened_writable_by_tool": dict(rdwr),
                   "aux_file_written": sum(1 for r in zruns if r.get("auxw", 0))},
        "e2undo_runs": {"count": len(uruns), "model_decided_and_agreeing": agree, "model_undecided": undecided,
                        "model_disagreements": {"count": len(dis), "first": dis[:20]},
                        "final_guard_reached_by_dry_runs": dict(reached),
                        "undo_log_changed_by_run": sum(r.get("undo_changed", 0) for r in uruns)}}
    # non-vacuity: unless a violation explains it, the real runs must reach the final guard with each disjunct
    need = ("io_alone", "csum_alone", "force_alone", "incomplete_without_f", "nothing_set")
    lack = [k for k in need if uruns and not reached[k]]
    if lack and not vd.viol:
        die_broken("no e2undo dry run of the catalogue reached the final guard with %s (of %d runs): the universe does not exercise it"
                   % (", ".join(lack), len(uruns)))
    if zruns and not sum(eng.values()) and not vd.viol:
        die_broken("no -z run opened the undo file: the undo manager was never engaged (instrumentation or command lines wrong)")


def judge(ev, vd, runner, states, invs, pairs, results, work, tier, timing, univ=None):
    sbyid = {s.id: s for s in states}
    ibyid = {i.id: i for i in invs}
    behs, preds = [], []
    for r in results:
        preds.append(predict(r))
        behs.append(to_behaviour(r))
    # ---- instrumentation sanity: every run produced at least the reset + exit line; control runs must be SEEN writing
    ctl = [(r, p) for r, p in zip(results, preds) if r["cls"] == "rw"]
    blind = [r for r, p in ctl if r["sig"] == 0 and r["code"] in (0, 1) and r.get("nwr", 0) == 0 and r["inv"] not in ("ctl-e2fsck-p",)]
    if ctl and len(blind) * 2 > len(ctl):
        die_broken("instrumentation incomplete: %d of %d writing control runs show no write-class call on the target (e.g. %s on %s: %s)"
                   % (len(blind), len(ctl), blind[0]["inv"], blind[0]["state"], blind[0]["stderr"][-200:]))
    unseen = [r for r, p in ctl if p[0] == "digest"]
    if unseen:
        die_broken("instrumentation incomplete: control run %s on %s changed the image without any recorded write-class call"
                   % (unseen[0]["inv"], unseen[0]["state"]))
    shape = [(r, p) for r, p in zip(results, preds) if p[0] == "shape"]
    if shape:
        die_broken("iotrace stream is not a well-formed descriptor history (%s) for %s on %s" % (shape[0][1][1], shape[0][0]["inv"], shape[0][0]["state"]))
    seen_open = collections.defaultdict(int)
    for r in results:
        seen_open[r["tool"]] += any(e["e"] == "open" for e in r["events"])
    blind_tools = [t for t in set(r["tool"] for r in results) if seen_open[t] == 0]
    if blind_tools:
        die_broken("instrumentation incomplete: no open() of the target was recorded in any run of %s" % ", ".join(sorted(blind_tools)))
    # ---- round 3 sanity: the universe must REACH the journal device (read-only runs open it, writing control runs are seen
    # writing it and change its digest); otherwise the recorder / the lookup through BLKID_FILE / -j is not working
    xruns = [r for r in results if ibyid[r["inv"]].group.startswith("extj_")]
    if xruns:
        xctl = [r for r in xruns if r["cls"] == "rw"]
        seenw = [r for r in xctl if r.get("nwr_j", 0) > 0 and not r["jdigest_equal"]]
        if not seenw:
            die_broken("instrumentation incomplete: none of the %d writing control runs on states with an external journal device was seen "
                       "writing the journal device (e.g. %s)" % (len(xctl), xctl[0]["stderr"][-200:] if xctl else "no control run"))
        reach = collections.Counter()
        for r in xruns:
            if r["cls"] == "ro":
                m = ibyid[r["inv"]].meta
                reach[(r["tool"], m["reach"])] += r["opened_jdev"]
        for need in (("e2fsck", "opt"), ("e2fsck", "uuid"), ("debugfs", "opt"), ("debugfs", "uuid"), ("tune2fs", "self"), ("dumpe2fs", "self"),
                     ("e2image", "self")):
            if not reach[need] and not any(p[0] in ("write", "digest") for p in preds):
                die_broken("no read-only run of %s reaching the journal device by '%s' opened it: the universe does not exercise the "
                           "external journal device" % need)
        ev.cov["round3"] = {
            "catalogue_runs": len(univ["extj"]) if univ else 0, "runs": len(xruns), "journal_device_images": len({r["state"] for r in xruns}),
            "ro_runs_that_opened_the_journal_device": sum(r["opened_jdev"] for r in xruns if r["cls"] == "ro"),
            "ro_runs_with_a_writable_descriptor_of_the_journal_device": sum(
                1 for r in xruns if r["cls"] == "ro" and any(e["e"] == "open" and e["tgt"] == 3 and e["acc"] != "rdonly" for e in r["events"])),
            "opened_by_tool_and_reach": {"%s/%s" % k: v for k, v in sorted(reach.items())},
            "control_runs": len(xctl), "control_runs_seen_writing_the_journal_device": len(seenw)}
    oracle_selftest(ev, results, preds, behs, work)
    # ---- bulk validation of the runs predicted to be accepted
    ok_idx = [k for k, p in enumerate(preds) if p[0] == "ok"]
    res = tracecheck.validate([behs[k] for k in ok_idx], TRACE_TLA, TRACE_CFG, work, chunk_lines=4000 if tier == "quick" else 12000,
                              jobs=min(NPROC, 8))
    if res["broken"]:
        die_broken("TLC failed on a trace chunk: %s\n%s" % (res["broken"][0]["error"], res["broken"][0]["out_tail"][-1500:]))
    ev.cov["states"] += res["distinct"]; ev.cov["transitions"] += res["generated"]
    for f in res["failures"]:
        k = ok_idx[f["behaviour"]]
        rej, matched, inv, tail, _ = tracecheck.confirm(behs[k], TRACE_TLA, TRACE_CFG, work)
        die_broken("oracle disagreement: the trace of %s on %s was predicted accepted but Trace_ToolRun %s it (line %s, invariant %s)\n%s"
                   % (results[k]["inv"], results[k]["state"], "rejects" if rej else "rejected only inside a chunk", matched, inv, tail[-800:]))
    accepted = len(ok_idx)
    # runs whose only blemish is an exit status outside the contract table (an observation, not C13): TLC still decides the
    # C13 part of every one of them -- same trace spec, RoUnmodified / ModifiedIffVersion / digest, without ExitDocumented
    xd_idx = [k for k, p in enumerate(preds) if p[0] == "exitdoc"]
    if xd_idx:
        subx = os.path.join(work, "xd")
        os.makedirs(subx, exist_ok=True)
        resx = tracecheck.validate([behs[k] for k in xd_idx], TRACE_TLA, TRACE_CFG_C13, subx, chunk_lines=4000, jobs=min(NPROC, 8))
        if resx["broken"]:
            die_broken("TLC failed on a trace chunk: %s\n%s" % (resx["broken"][0]["error"], resx["broken"][0]["out_tail"][-1500:]))
        ev.cov["states"] += resx["distinct"]; ev.cov["transitions"] += resx["generated"]
        for f in resx["failures"]:
            k = xd_idx[f["behaviour"]]
            die_broken("oracle disagreement: the trace of %s on %s (exit status %d outside the contract table) was predicted C13-clean "
                       "but Trace_ToolRun rejects it without ExitDocumented" % (results[k]["inv"], results[k]["state"], results[k]["code"]))
        accepted += len(xd_idx)
    # ---- candidates: re-run, then let TLC decide each one alone
    cand = [k for k, p in enumerate(preds) if p[0] in ("write", "digest")]
    exitdoc = [k for k, p in enumerate(preds) if p[0] == "exitdoc"]
    maxconf = 40 if tier == "quick" else 160
    confirmed, unstable = [], 0

    def confirm_one(k):
        r = results[k]
        r2 = runner.run(sbyid[r["state"]], ibyid[r["inv"]])          # soundness rule 5: immediate re-run with the same input
        p2 = predict(r2)
        if p2[0] not in ("write", "digest"):
            return k, None, "not reproduced on re-run"
        sub = os.path.join(work, "conf%d" % k)
        os.makedirs(sub, exist_ok=True)
        rej, matched, inv, tail, _ = tracecheck.confirm(to_behaviour(r2), TRACE_TLA, TRACE_CFG, sub)
        if not rej:
            return k, False, "TLC accepts the trace"
        return k, (r2, p2, matched, inv, tail), ""
    with cf.ThreadPoolExecutor(max_workers=min(NPROC, 8)) as ex:
        for k, out, why in ex.map(confirm_one, cand[:maxconf]):
            if out is None:
                unstable += 1
                continue
            if out is False:
                die_broken("oracle disagreement: %s on %s predicted rejected (%s) but Trace_ToolRun accepts it" % (results[k]["inv"], results[k]["state"], preds[k][1]))
            r2, p2, matched, inv, tail = out
            confirmed.append(k)
            what = "%s on image state %s: %s (exit %d, signal %d); trace rejected at line %s" % (
                " ".join(os.path.basename(a) if a.startswith("/") else a for a in r2["argv"]), r2["state"], p2[1], r2["code"], r2["sig"], matched)
            vd.violation("%s@%s" % (r2["inv"], r2["state"]), what,
                         {"state": r2["state"], "inv": r2["inv"], "tier": tier, "seed": seed(), "argv": r2["argv"], "trace": to_behaviour(r2),
                          "first_unmatched_line": matched, "stderr": r2["stderr"], "tlc_tail": tail[-1200:]})
    # exit-contract observations: confirmed by TLC one by one (a few), never a C13 verdict
    exit_obs = []
    for k in exitdoc[:12]:
        rej, matched, inv, tail, _ = tracecheck.confirm(behs[k], TRACE_TLA, TRACE_CFG, work)
        if not rej or inv != "ExitDocumented":
            die_broken("oracle disagreement on the exit contract of %s on %s (TLC: rejected=%s invariant=%s)" % (results[k]["inv"], results[k]["state"], rej, inv))
    for k in exitdoc:
        exit_obs.append({"inv": results[k]["inv"], "state": results[k]["state"], "code": results[k]["code"], "stderr": results[k]["stderr"][-160:]})
    # ---- evidence
    c06 = [{"inv": r["inv"], "state": r["state"], "signal": r["sig"], "timeout": r["timeout"], "ms": r["ms"], "stderr": r["stderr"][-160:]}
           for r in results if r["sig"] != 0]
    hist = collections.defaultdict(collections.Counter)
    for r in results:
        hist[r["tool"] + "/" + r["cls"]]["sig%d" % r["sig"] if r["sig"] else str(r["code"])] += 1
    ev.cov["traces_validated_against_impl"] = accepted
    ev.cov["evaluations"] = len(results)
    ev.cov["trace_lines_validated"] = sum(len(behs[k]) for k in ok_idx)
    for r in results:
        if sbyid[r["state"]].kind != "clean" and r["cls"] == "ro":
            ev.nontrivial((r["inv"], r["state"]))
    ev.cov["rule"] = ("universe = image states x invocations; one evaluation = one tool run under iotrace.so on a private copy of the state, "
                      "its event stream + exit line validated against Trace_ToolRun; non-trivial = read-only-class run on an image state "
                      "other than 'clean' (journal needing recovery / s_errno set, orphan list/file, MMP, quota, corruption recipe, random damage, "
                      "post-tune2fs, a (target, undo log) pair of the e2undo catalogue, or a (filesystem, external journal device) pair); distinct by (invocation id, state id).  The -z forms, "
                      "the journal x orphan axis points, the e2undo dry-run catalogue and the external-journal-device catalogue (flavour x journal device "
                      "state x form x reach) are enumerated by TLC from spec/ToolRunUniv.tla")
    ev.cov["universe"] = {"states": len(states), "profiles": len(G.PROFILES), "invocations_ro": len([i for i in invs if i.cls == "ro" and i.group != "c06_probe"]),
                          "invocations_control_rw": len([i for i in invs if i.cls == "rw"]), "pairs_run": len(pairs),
                          "invocations_z": len([i for i in invs if i.group.startswith("z_")]),
                          "invocations_e2undo_catalogue": len([i for i in invs if i.group == "e2undo_catalogue"]),
                          "invocations_ext_journal": len([i for i in invs if i.group.startswith("extj_")]),
                          "states_by_kind": dict(collections.Counter(s.kind for s in states)),
                          "runs_by_group": dict(collections.Counter(ibyid[r["inv"]].group for r in results))}
    ev.cov["exit_histogram"] = {k: dict(v) for k, v in sorted(hist.items())}
    ev.cov["c06_observations"] = {"count": len(c06), "timeouts": sum(x["timeout"] for x in c06), "first": c06[:40]}
    ev.cov["exit_contract_observations"] = {"count": len(exit_obs), "first": exit_obs[:40]}
    ev.cov["refused_write_attempts"] = {"runs": sum(1 for r in results if r.get("refused", 0) and r["cls"] == "ro"),
                                        "first": [{"inv": r["inv"], "state": r["state"], "n": r["refused"]} for r in results if r.get("refused", 0) and r["cls"] == "ro"][:20]}
    ev.cov["control_runs"] = {"count": len(ctl), "with_write_class_calls": sum(1 for r, p in ctl if r.get("nwr", 0) > 0),
                              "digest_changed": sum(1 for r, p in ctl if not r["digest_equal"])}
    ev.cov["rdwr_opens_in_ro_runs"] = sum(1 for r in results if r["cls"] == "ro" and any(e["e"] == "open" and e["acc"] != "rdonly" for e in r["events"]))
    ev.cov["candidates"] = {"write_or_digest": len(cand), "confirmed": len(confirmed), "not_reproduced_on_rerun": unstable,
                            "beyond_confirmation_budget": max(0, len(cand) - maxconf)}
    ev.cov["timing"] = timing
    if univ:
        round2_evidence(ev, vd, univ, sbyid, ibyid, results)
    for k in (0, len(results) // 3, 2 * len(results) // 3):
        if k < len(results):
            ev.sample({"state": results[k]["state"], "inv": results[k]["inv"], "argv": results[k]["argv"], "exit": results[k]["code"],
                       "sig": results[k]["sig"], "digest_equal": results[k]["digest_equal"], "trace": [json.loads(x) for x in behs[k]]})
    ev.cov["checker_cmd"] = ("TRACE=<chunk> tlc -workers 1 -config spec/Trace_ToolRun.cfg spec/Trace_ToolRun.tla (EXTENDS ToolRunZ; POSTCONDITION "
                             "TraceAccepted, INVARIANT RoUnmodified, ModifiedIffVersion, ExitDocumented; runs with an undocumented exit status are "
                             "validated with Trace_ToolRun_c13only.cfg = the same without ExitDocumented)")
    ev.assumptions = [
        "a write-class system call (write, pwrite, pwritev, ftruncate, fallocate, open with O_TRUNC/O_CREAT) on a descriptor of the target "
        "that permits writing counts as a modification even if it stores the bytes already there (device-level reading of 'modify'; "
        "with the fixed fake clock a superblock flush can rewrite identical bytes); the sha256 comparison is the independent second oracle",
        "a write-class call on an O_RDONLY descriptor cannot change the device (EBADF) and is only counted (refused_write_attempts)",
        "the target of an invocation is the SET of devices it names or reaches (ToolRunZ!TargetObjs): the device of the command line (object 0) "
        "and the external journal device (object 3: -j, logdump -f, s_journal_uuid lookup through a private BLKID_FILE cache, or the journal "
        "device itself on the command line); journal device images are regular files made by mke2fs -O journal_dev and attached with debugfs "
        "(mke2fs -J device= insists on a block special file); the descriptors libblkid opens on the journal device are traced like the tool's own",
        "the file named by -z and the undo log given to e2undo are auxiliary files, not the target (ToolRunZ): calls on them are traced "
        "(iotrace objects 1 and 2) and are steps of every class; each run gets a private copy of the undo log",
        "the expectation of the e2undo guard-chain model (ToolRunUniv!Expect) is compared with exit status, open() of the target and the three "
        "messages of the final stage as evidence that the catalogue reaches every guard; a disagreement is reported, never a C13 verdict; "
        "outcomes the model leaves undecided (killed recordings; -f with an unreadable first key block or a wrong block size / key count) "
        "are still C13-checked",
        "on the MMP profile the generator records with the MMP bit hidden (a read-write open sleeps 11 s) and re-syncs the log's superblock copy",
        "the target is a regular file on tmpfs: block-device-only paths (BLKDISCARD / BLKZEROOUT ioctls, O_EXCL busy checks, mounted-fs checks) are not exercised",
        "debugfs requests that explicitly ask for a read-write open (open -w, init_filesys) are not 'debugfs without -w' and are not in the universe; "
        "e2image -I (writes the device by design) is not in the universe",
        "writes through mmap, io_uring or a statically linked helper would be invisible to iotrace.so; the digest comparison covers them",
        "signals / timeouts (> %d s) are recorded for C06 and are not C13 violations; exit codes outside the contract table are observations" % TIMEOUT,
    ]
    return vd.finish()


def replay(path):
    d = json.load(open(path))
    rp = d["replay"]
    if "seed" in rp:
        os.environ["VERIF_SEED"] = str(rp["seed"])      # garbage bytes of the corruption recipes are seeded
    work = fast_tmp()
    try:
        b = build.build()
        univ = load_universe(work)
        states, ustates, xstates, _, _ = build_universe(b, work, rp.get("tier", "quick"), only=[rp["state"]], univ=univ)
        st = [s for s in states + ustates + xstates if s.id == rp["state"]]
        inv = [i for i in invocations(univ) if i.id == rp["inv"]]
        if not st or not inv:
            die_broken("replay refers to an unknown state or invocation: %s / %s" % (rp["state"], rp["inv"]))
        runner = Runner(b, work)
        r = runner.run(st[0], inv[0])
        p = predict(r)
        beh = to_behaviour(r)
        rej, matched, invname, tail, _ = tracecheck.confirm(beh, TRACE_TLA, TRACE_CFG, work)
        print("%s on %s: exit %d signal %d digest_equal %d, %d events; prediction %s %s" % (r["inv"], r["state"], r["code"], r["sig"],
                                                                                          r["digest_equal"], len(r["events"]), p[0], p[1]))
        if rej and invname == "ExitDocumented":
            print("exit-contract observation only (not a C13 verdict)"); print("replay accepted"); return 0
        if rej:
            print("first unmatched line %s: %s" % (matched, beh[matched] if matched is not None and matched < len(beh) else "?"))
            print(tail[-800:])
            print("VIOLATION property=%s replay=%s" % (PID, path)); return 1
        print("replay accepted"); return 0
    finally:
        shutil.rmtree(work, ignore_errors=True)
