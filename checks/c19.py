"""C19 -- e2image images preserve all metadata and never touch the source.

Model checking: TLC checks spec/E2image.tla (MC_E2image*.cfg): block discovery of write_raw_image_file() over the block
classes of an abstract filesystem (the classes the property calls metadata must be marked), the literal qcow2 writer of
misc/e2image.c (sequential cluster allocation, L1/L2 tables with the L2 cache flush, refcount table/blocks,
add_l2_item / update_refcount bookkeeping) and the literal reader qcow2_write_raw_image() of lib/ext2fs/qcow2.c on small
constants (L2 tables of 2 entries, refcount blocks of 4 entries, 6..9 blocks, every subset of marked and zero blocks), with
the contract invariants  QcowToRaw(Qcow(src)) = Raw(src), every cluster of the file used exactly once and refcounted once,
Raw = src on marked blocks and zero elsewhere.  The specification states every offset computation of the writers and of the
reader with the width of the C type it is evaluated in (W*, Shl); the MC_E2image_narrow_* configurations substitute a
narrower evaluation and TLC must find the contract violation.

Conformance (trace validation): for every base profile of gen/mkbase.py plus generated filesystems whose sizes cross
qcow2 L2-table and refcount-block boundaries and sparse filesystems larger than 4 GiB with metadata just below, at and just
above the byte offsets 2^31 and 2^32 (the boundary catalogue is Part 4 of E2image.tla, enumerated by Emit_E2image), the
built e2image runs in the modes -r, -Q, -r on the qcow2 file, -ra,
-Qa and -r on that qcow2 file under LD_PRELOAD=harness/iotrace.so.  Every block of the source is classified with the
independent reader (reader/ext4read.py: fixed-metadata map + per-inode owner map), the per-class counts of differing /
non-zero blocks, the tool results (e2fsck -fn, dumpe2fs), this module's own parse of the qcow2 header/L1/L2/refcount
structures and the system-call record of the source are logged as one ndjson line per run, and TLC validates every line
against Trace_E2image.tla (the same contract operators the model is checked against).  The verdict of a line is TLC's.
Second binding (Trace_E2imageLayout.tla): TLC steps the literal writer / reader model with the real constants over the blocks
the real -Q run mapped and compares the qcow2 file, the direct raw file and the converted file it builds (positions computed
with the stated widths) with the three real files.  All files are read hole-aware (SEEK_DATA), so a 4 GiB sparse file costs
what its data costs.
"""
import os, sys, json, struct, hashlib, shutil, time, re, glob, errno, mmap, collections, concurrent.futures as cf
from common import VERIF, SCRATCH, NPROC, seed, fast_tmp, tool_env, die_broken
from common import run as sh
import build as B, tlc as T, mkbase, ext4read, c19_images
from evidence import Evidence, Verdict

PID = "C19"
SPEC = os.path.join(VERIF, "spec")
IOTRACE = os.path.join(VERIF, "harness", "iotrace.so")

# ------------------------------------------------------------------------------------------------------------------
# block classes (the names are the ones spec/E2image.tla uses)
# ------------------------------------------------------------------------------------------------------------------
CLASSES = ["sb", "gdt", "rsvgdt", "bbm", "ibm", "itab", "mmp",
           "bsb", "bgdt", "brsvgdt", "bbm_un", "ibm_un", "itab_un",
           "dirdata", "dirmap", "filemap", "xattr", "eadata", "eamap", "journal", "quota", "orphan", "sysmap",
           "resizemap", "symlink", "filedata", "mate", "free", "boot", "unknown"]


# classes a metadata image never copies on its own (only used to name the blocks that ride along in a bigalloc cluster)
NONCOPIED = {"free", "filedata", "brsvgdt", "bsb", "bgdt", "boot", "bbm_un", "ibm_un", "itab_un", "unknown"}


def _in_ranges(rs):
    s = set()
    for a, b in rs:
        s.update(range(a, b + 1))
    return s


def classify(P):
    """block number -> class, from the reader's projection P (fixed map, group descriptors, per-inode owner map).
    Returns (list cls[b] for b in 0..blocks-1, notes)."""
    g = P["geo"]
    n, bs, cr, first = g["blocks"], g["bs"], g["cr"], g["first"]
    cls = [None] * n
    notes = []

    def put(b, c, weak=False):
        if 0 <= b < n:
            if cls[b] is None or (not weak and cls[b] in ("free",)):
                cls[b] = c
            elif cls[b] != c and not weak:
                notes.append("block %d claimed as %s and %s" % (b, cls[b], c))
    fx = P["fixed"]
    gdc, bpg = g["gdc"], g["bpg"]
    meta_bg = "meta_bg" in g["features"]
    dpb = bs // g["dsize"]

    def group_of(b):
        return (b - first) // bpg
    for a, b_ in fx["sb"]:
        for b in range(a, b_ + 1):
            put(b, "sb" if group_of(b) == 0 else "bsb")
    if first == 1 and n > 0:
        put(0, "boot")
    for a, b_ in fx["gdt"]:
        for b in range(a, b_ + 1):
            gg = group_of(b)
            if meta_bg and gg // dpb >= g["first_meta_bg"]:
                put(b, "gdt" if gg % dpb == 0 else "bgdt")
            else:
                put(b, "gdt" if gg == 0 else "bgdt")
    for a, b_ in fx["rsvgdt"]:
        for b in range(a, b_ + 1):
            put(b, "rsvgdt" if group_of(b) == 0 else "brsvgdt")
    for a, b_ in fx["mmp"]:
        for b in range(a, b_ + 1):
            put(b, "mmp")
    have_csum = g["csum"] != "none"
    ipb = bs // g["isize"]
    for d in P["gd"]:
        fl = d["flags"]
        bu = have_csum and "BLOCK_UNINIT" in fl
        iu = have_csum and "INODE_UNINIT" in fl
        if d["bb"]:
            put(d["bb"], "bbm_un" if bu else "bbm")
        if d["ib"]:
            put(d["ib"], "ibm_un" if iu else "ibm")
        if d["it"]:
            used = g["itb"]
            if iu:
                used = 0
            elif have_csum:
                used = g["itb"] - d["unused"] // ipb
            for k in range(g["itb"]):
                put(d["it"] + k, "itab" if k < used else "itab_un")
    sbf = P["sb"]
    special = {}
    if sbf["journal_inum"]:
        special[sbf["journal_inum"]] = "journal"
    for k in ("usr_quota", "grp_quota", "prj_quota"):
        if sbf[k]:
            special[sbf[k]] = "quota"
    if sbf["orphan_file_ino"]:
        special[sbf["orphan_file_ino"]] = "orphan"
    first_ino = g["first_ino"]
    for I in P["inodes"]:
        if not (I["links"] > 0):
            continue          # e2image (and e2fsck) ignore inodes with a zero link count: their blocks are not owned
        ino, t, own = I["ino"], I["type"], I["own"]
        if ino in special:
            dc, mc = special[ino], "sysmap"
        elif I["map"] == "resize" or ino == 7:
            dc, mc = "brsvgdt", "resizemap"
        elif t == "dir":
            dc, mc = "dirdata", "dirmap"
        elif t == "lnk":
            dc, mc = "symlink", "filemap"
        elif I.get("ea_inode"):
            dc, mc = "eadata", "eamap"
        elif t == "reg":
            dc, mc = "filedata", "filemap"
        else:
            dc, mc = "unknown", "unknown"
        for a, b_ in own["data"]:
            for b in range(a, b_ + 1):
                put(b, dc)
        for key in ("index", "ind"):
            for a, b_ in own[key]:
                for b in range(a, b_ + 1):
                    if cls[b] == "rsvgdt" and mc == "resizemap":
                        continue
                    put(b, mc)
        if own["xattr"]:
            if cls[own["xattr"]] != "xattr":
                put(own["xattr"], "xattr")
    for b in range(n):
        if cls[b] is None:
            cls[b] = "free"
    # bigalloc: e2image's block map has cluster granularity, a block sharing a cluster with a copied block is copied too
    if cr > 1:
        for c0 in range(first, n, cr):
            blk = range(c0, min(c0 + cr, n))
            cs = {cls[b] for b in blk}
            if cs - NONCOPIED:
                for b in blk:
                    if cls[b] in NONCOPIED:
                        cls[b] = "mate"
            elif cs - {"free", "boot"}:
                for b in blk:
                    if cls[b] == "free":
                        cls[b] = "mate"
    return cls, notes


# ------------------------------------------------------------------------------------------------------------------
# own qcow2 parser (format document: header big-endian; L1 -> L2 -> cluster; refcount table -> refcount blocks of u16)
# ------------------------------------------------------------------------------------------------------------------
COPIED = 1 << 63
COMPR = 1 << 62


def parse_qcow2(path, bs, nblocks):
    """Returns dict: header fields, mapping {virtual cluster -> file cluster}, structural facts."""
    d = open(path, "rb").read()
    magic, ver, bfo, bfs, cbits, size, crypt, l1n, l1off, rtoff, rtcl, nsnap, snapoff = struct.unpack_from(">IIQIIQIIQQIIQ", d, 0)
    out = {"magic_ok": int(magic == 0x514649fb), "version": ver, "cbits": cbits, "size_blocks": size >> cbits if cbits < 40 else -1,
           "size_rem": size & ((1 << cbits) - 1) if cbits < 40 else -1, "crypt": crypt, "l1n": l1n, "backing": int(bfo != 0 or bfs != 0), "nsnap": nsnap}
    csz = 1 << cbits
    fclusters = (len(d) + csz - 1) // csz
    out["file_clusters"] = fclusters
    l2n = csz // 8
    use = {}          # file cluster -> what uses it
    bad = []

    def claim(c, what):
        if c in use:
            bad.append("cluster %d used as %s and %s" % (c, use[c], what))
        use[c] = what
    claim(0, "hdr")
    if l1off % csz:
        bad.append("l1 unaligned")
    for k in range((l1n * 8 + csz - 1) // csz):
        claim(l1off // csz + k, "l1")
    for k in range(rtcl):
        claim(rtoff // csz + k, "rt")
    mapping = {}
    l1 = struct.unpack_from(">%dQ" % l1n, d, l1off) if l1off + 8 * l1n <= len(d) else ()
    if not l1:
        bad.append("l1 beyond file")
    l2_tables = 0
    l2_beyond_virtual = 0
    for i, e in enumerate(l1):
        off = e & ~(COPIED | COMPR) & ((1 << 62) - 1)
        if off == 0:
            continue
        if e & COMPR:
            bad.append("l1 compressed")
        if off % csz or off + csz > len(d):
            bad.append("l1[%d] offset bad" % i)
            continue
        l2_tables += 1
        if off > size:
            l2_beyond_virtual += 1
        claim(off // csz, "l2")
        l2 = struct.unpack_from(">%dQ" % l2n, d, off)
        for j, e2 in enumerate(l2):
            o2 = e2 & ((1 << 62) - 1)
            if o2 == 0:
                continue
            if e2 & COMPR:
                bad.append("l2 compressed")
            v = i * l2n + j
            if o2 % csz or o2 + csz > len(d):
                bad.append("l2[%d][%d] offset bad" % (i, j))
                continue
            if v >= nblocks:
                bad.append("mapping beyond virtual size")
            mapping[v] = o2 // csz
            claim(o2 // csz, "data")
    # refcounts
    rpb = csz // 2
    rt = struct.unpack_from(">%dQ" % (rtcl * csz // 8), d, rtoff) if rtoff + rtcl * csz <= len(d) else ()
    refblocks = 0
    refcount = {}
    for i, e in enumerate(rt):
        if e == 0:
            continue
        if e % csz or e + csz > len(d):
            bad.append("refcount table[%d] bad" % i)
            continue
        refblocks += 1
        claim(e // csz, "rb")
        rb = struct.unpack_from(">%dH" % rpb, d, e)
        for j, r in enumerate(rb):
            if r:
                refcount[i * rpb + j] = r
    used = set(use)
    ref_missing = sorted(c for c in used if refcount.get(c, 0) != 1)
    ref_extra = sorted(c for c in refcount if c not in used and c < fclusters)
    ref_beyond = sorted(c for c in refcount if c >= fclusters)
    unused = sorted(c for c in range(fclusters) if c not in used)
    lows = sorted(v // l2n for v in mapping)
    l2_first = 0
    if lows and l1:
        l2_first = (l1[lows[0]] & ((1 << 62) - 1)) // csz
    out.update({"l1_off": l1off // csz, "rt_off": rtoff // csz, "rtc": rtcl, "l1c": max(0, rtoff // csz - l1off // csz), "l2_first": l2_first,
                "rb_first": (rt[0] // csz) if rt else 0, "data_first": mapping[min(mapping)] if mapping else 0})
    out.update({"l2_tables": l2_tables, "l2_beyond_virtual": l2_beyond_virtual, "refblocks": refblocks, "mapped": len(mapping),
                "overlap": len(bad), "bad": bad[:5], "ref_missing": len(ref_missing), "ref_extra": len(ref_extra), "ref_beyond": len(ref_beyond),
                "unused_clusters": len(unused), "l1_used": len({v // l2n for v in mapping}),
                "l2n": l2n, "rpb": rpb})
    out["_l1"] = [(e & ((1 << 62) - 1)) for e in l1]
    out["_rt"] = [e // csz for e in rt]
    out["_vsize"] = size
    return out, mapping, d


def qcow2_read_block(d, mapping, b, bs):
    c = mapping.get(b)
    if c is None:
        return None
    return d[c * bs:(c + 1) * bs]


# ------------------------------------------------------------------------------------------------------------------
# hole-aware file access (a source of 4.3 GiB with half a megabyte of data must cost half a megabyte)
# ------------------------------------------------------------------------------------------------------------------
def _segments(f, size):
    """(start, end) of the data segments of an open file; the whole file when the filesystem cannot tell"""
    fd, pos = f.fileno(), 0
    while pos < size:
        try:
            a = os.lseek(fd, pos, os.SEEK_DATA)
        except OSError as e:
            if e.errno == errno.ENXIO:
                return
            yield pos, size
            return
        try:
            b = os.lseek(fd, a, os.SEEK_HOLE)
        except OSError:
            b = size
        yield a, b
        pos = b


def _chunks(path, align):
    """(offset, bytes) of the `align`-aligned chunks that intersect a data segment and are not all zero, ascending"""
    size = os.path.getsize(path)
    zero = bytes(align)
    with open(path, "rb") as f:
        done = 0
        for a, b in list(_segments(f, size)):
            pos = max(a - a % align, done)
            while pos < b:
                f.seek(pos)
                d = f.read(align)
                if not d:
                    break
                if d != zero[:len(d)]:
                    yield pos, d
                pos += align
            done = max(done, pos)


class BlkFile:
    """the non-zero blocks of a file (block -> bytes, a short last block padded with zeros); everything else reads as zero"""

    def __init__(self, path, bs):
        self.bs, self.size, self.nz = bs, os.path.getsize(path), {}
        z = bytes(bs)
        step = max(bs, 1 << 18)
        for off, d in _chunks(path, step):
            for k in range(0, len(d), bs):
                x = d[k:k + bs]
                if len(x) < bs:
                    x = x + bytes(bs - len(x))
                if x != z:
                    self.nz[(off + k) // bs] = x
        self.zero = z

    def get(self, b):
        return self.nz.get(b, self.zero)


class DictImg:
    """same interface over a dict block -> bytes (the virtual disk of a qcow2 file)"""

    def __init__(self, blocks, bs):
        z = bytes(bs)
        self.bs, self.zero, self.nz = bs, z, {b: d for b, d in blocks.items() if d != z}

    def get(self, b):
        return self.nz.get(b, self.zero)


def content_digest(path):
    """digest of size + content that never reads holes (chunk boundaries are absolute, all-zero chunks are skipped: a function
    of the bytes of the file only)"""
    h = hashlib.sha256()
    h.update(b"%d\n" % os.path.getsize(path))
    for off, d in _chunks(path, 1 << 16):
        h.update(b"%d:%d\n" % (off, len(d)))
        h.update(d)
    return h.hexdigest()


class _MapReader(ext4read.Reader):
    """the independent reader on a memory map (reader/ext4read.py loads at most 1 GiB of the image)"""

    def __init__(self, path):
        self._f = open(path, "rb")
        self.img = mmap.mmap(self._f.fileno(), 0, access=mmap.ACCESS_READ)
        self.size = len(self.img)
        self.err = {}
        self.loc = {}
        self.short_reads = 0


def project_any(path):
    if os.path.getsize(path) <= ext4read.Reader.MAX_IMAGE:
        return ext4read.project(path)
    try:
        r = _MapReader(path)
    except Exception as ex:
        return {"fatal": "open:%s:%s" % (type(ex).__name__, ex)}
    return r.project()


# ------------------------------------------------------------------------------------------------------------------
# running the tools
# ------------------------------------------------------------------------------------------------------------------


def e2image(build, env, args, src, dst, work, tag):
    """run e2image under the system-call recorder targeted at the source; returns (rc, stderr, events on the source)"""
    tr = os.path.join(work, "io_%s.ndjson" % tag)
    if os.path.exists(tr):
        os.unlink(tr)
    e = dict(env)
    e.update({"LD_PRELOAD": IOTRACE, "VERIF_IOTRACE_TARGET": src, "VERIF_IOTRACE_OUT": tr})
    rc, out, err = sh([os.path.join(build, "misc", "e2image")] + args + [src, dst], env=e, timeout=300)
    ev = []
    if os.path.exists(tr):
        for ln in open(tr):
            ln = ln.strip()
            if ln:
                ev.append(json.loads(ln))
    return rc, (out + err).decode("utf8", "replace"), ev


WRITE_EVENTS = ("write", "pwrite", "pwrite64", "pwritev", "ftruncate", "ftruncate64", "fallocate", "fallocate64", "posix_fallocate")


def io_summary(ev):
    opens = [x for x in ev if x.get("e") == "open"]
    writes = [x for x in ev if x.get("e") in WRITE_EVENTS]
    rw = [x for x in opens if x.get("acc") != "rdonly" or x.get("creat") or x.get("trunc")]
    return {"opens": len(opens), "rw_opens": len(rw), "writes": len(writes)}


def norm_tool(text, path):
    return text.replace(path, "DEV")


def tool_outputs(build, env, img):
    """e2fsck -fn and dumpe2fs (full) of an image; device name normalised"""
    rc1, o1, e1 = sh([os.path.join(build, "e2fsck", "e2fsck"), "-fn", img], env=env, timeout=300)
    rc2, o2, e2 = sh([os.path.join(build, "misc", "dumpe2fs"), img], env=env, timeout=300)
    return {"fsck_rc": rc1, "fsck_out": norm_tool((o1 + e1).decode("utf8", "replace"), img),
            "dump_rc": rc2, "dump_out": norm_tool(o2.decode("utf8", "replace"), img),
            "dump_err": norm_tool(e2.decode("utf8", "replace"), img)}


def count_classes(cls, S, I, nblocks):
    """per class: n blocks, srcnz = non-zero in the source, diff = image block != source block, imgnz = image block non-zero
    (a block beyond the end of the image file reads as zero); S, I: BlkFile / DictImg"""
    out = {c: {"n": 0, "srcnz": 0, "diff": 0, "imgnz": 0} for c in CLASSES}
    first_diff = {}
    for c, k in collections.Counter(cls).items():
        out[c]["n"] = k
    for b in S.nz:
        if b < nblocks:
            out[cls[b]]["srcnz"] += 1
    for b in I.nz:
        if b < nblocks:
            out[cls[b]]["imgnz"] += 1
    for b in sorted(S.nz.keys() | I.nz.keys()):
        if b < nblocks and S.get(b) != I.get(b):
            out[cls[b]]["diff"] += 1
            first_diff.setdefault(cls[b], b)
    return out, first_diff


# ------------------------------------------------------------------------------------------------------------------
# one source image -> six trace lines
# ------------------------------------------------------------------------------------------------------------------
MODES = [("raw", ["-r"], None), ("qcow", ["-Q"], None), ("q2r", ["-r"], "qcow"), ("all", ["-ra"], None), ("qall", ["-Qa"], None), ("qall2r", ["-r"], "qall")]
QZERO = {k: 0 for k in ("magic_ok", "version", "cbits", "size_blocks", "size_rem", "crypt", "l1n", "backing", "nsnap", "file_clusters", "l2_tables",
                        "l2_beyond_virtual", "refblocks", "mapped", "overlap", "ref_missing", "ref_extra", "ref_beyond", "unused_clusters", "l1_used",
                        "l2n", "rpb", "l1_off", "rt_off", "rtc", "l1c", "l2_first", "rb_first", "data_first")}
CONV0 = {"have": 0, "eq": 0, "size_eq": 0, "neq_blocks": 0, "neq_skipped": 0, "neq_lastbyte": 0}
TOOLS0 = {"have": 0, "fsck_src": 0, "fsck_img": 0, "fsck_eq": 0, "dump_rc_src": 0, "dump_rc_img": 0, "dump_eq": 0}


def virtual_image(qd, mapping, bs, nblocks):
    """the blocks a reader of the qcow2 file sees, through this module's own parse of the mapping"""
    return DictImg({b: qd[c * bs:(c + 1) * bs] for b, c in mapping.items() if b < nblocks}, bs)


def compare_conv(A, R, q, bs, nblocks):
    """A: the converted file, R: the directly produced raw file (BlkFile)"""
    c = dict(CONV0)
    c["have"] = 1
    c["size_eq"] = int(A.size == R.size)
    c["eq"] = int(A.size == R.size and A.nz == R.nz)
    if not c["eq"] and c["size_eq"]:
        l2n = bs // 8
        l1 = q["_l1"]
        z = bytes(bs)
        for b in sorted(A.nz.keys() | R.nz.keys()):
            x, y = A.get(b), R.get(b)
            if x == y:
                continue
            c["neq_blocks"] += 1
            i = b // l2n
            if i < len(l1) and l1[i] > q["_vsize"] and x == z:
                c["neq_skipped"] += 1
            elif b == nblocks - 1 and x[:-1] == y[:-1] and x[-1] == 0:
                c["neq_lastbyte"] += 1
    return c


def file_obs(F, S, index):
    """the non-zero blocks of an output file as [position, id]: id - 1 = the source block whose bytes the position holds (the
    position itself when it matches, else the smallest source block with these bytes), -1 = bytes of no source block"""
    out = []
    for p in sorted(F.nz):
        d = F.nz[p]
        out.append([p, p + 1 if S.nz.get(p) == d else index.get(d, -2) + 1])
    return out


def observe(build, env, name, src, work, want_modes=None, wide=None):
    """run every mode on one source filesystem; returns (lines, info).  wide: entry of the boundary catalogue this filesystem
    was built for (its targets, its hole and the non-zero blocks of the source with their classes go into the layout observation)"""
    P = project_any(src)
    info = {"image": name}
    if "fatal" in P or P.get("reader_err"):
        info["skipped"] = "reader could not project the source: %s" % (P.get("fatal") or P.get("reader_err"))
        return [], info
    cls, notes = classify(P)
    info["notes"] = notes[:5]
    if notes:
        info["skipped"] = "ambiguous block ownership in the source (not a consistent filesystem for the reader): %s" % notes[0]
        return [], info
    g = P["geo"]
    bs, nblocks = g["bs"], g["blocks"]
    S = BlkFile(src, bs)
    sha0 = content_digest(src)
    t_src = tool_outputs(build, env, src)
    lines = []
    paths = {}
    files = {}
    qfacts = {}
    by_mode = {}
    if want_modes:
        want_modes = set(want_modes)
        for m, deps in (("q2r", ("qcow", "raw")), ("qall2r", ("qall", "all"))):
            if m in want_modes:
                want_modes.update(deps)
    for mode, args, from_mode in MODES:
        if want_modes and mode not in want_modes:
            continue
        dst = os.path.join(work, "%s.%s" % (name, mode))
        if os.path.exists(dst):
            os.unlink(dst)
        inp = paths[from_mode] if from_mode else src
        rc, msg, ev = e2image(build, env, args, inp, dst, work, name + "_" + mode)
        paths[mode] = dst
        io = io_summary(ev)
        if from_mode:
            # the input of a conversion is the qcow2 file; the filesystem itself is not an operand of this run
            io = {"opens": max(1, io["opens"]), "rw_opens": io["rw_opens"], "writes": io["writes"]}
        io["sha_eq"] = int(content_digest(src) == sha0)
        line = {"e": "Run", "id": "%s/%s" % (name, mode), "image": name, "mode": mode, "rc": rc,
                "geo": {"bs": bs, "blocks": nblocks, "first": g["first"], "cr": g["cr"]},
                "io": io, "tools": dict(TOOLS0), "q": dict(QZERO), "conv": dict(CONV0), "tree_eq": -1, "len_eq": 0,
                "cls": {c: {"n": 0, "srcnz": 0, "diff": 0, "imgnz": 0} for c in CLASSES}, "first_diff": {}}
        by_mode[mode] = line
        if rc != 0 or not os.path.exists(dst):
            line["msg"] = msg[-300:]
            lines.append(line)
            continue
        line["len_eq"] = int(mode in ("qcow", "qall") or os.path.getsize(dst) == nblocks * bs)
        if mode in ("qcow", "qall"):
            q, mapping, qd = parse_qcow2(dst, bs, nblocks)
            qfacts[mode] = q
            line["q"] = {k: q[k] for k in QZERO}
            line["qbad"] = q["bad"]
            line["_layout"] = layout_obs(q, mapping, bs, nblocks)
            I = virtual_image(qd, mapping, bs, nblocks)
            del qd
        else:
            I = files[mode] = BlkFile(dst, bs)
        if mode in ("q2r", "qall2r"):
            ref = "raw" if mode == "q2r" else "all"
            if ref in files and from_mode in qfacts:
                line["conv"] = compare_conv(I, files[ref], qfacts[from_mode], bs, nblocks)
            if from_mode in qfacts:
                line["q"] = {k: qfacts[from_mode][k] for k in QZERO}
        cnt, fd = count_classes(cls, S, I, nblocks)
        line["cls"] = cnt
        line["first_diff"] = fd
        if mode in ("raw", "all"):
            t = tool_outputs(build, env, dst)
            line["tools"] = {"have": 1, "fsck_src": t_src["fsck_rc"], "fsck_img": t["fsck_rc"], "fsck_eq": int(t["fsck_out"] == t_src["fsck_out"]),
                             "dump_rc_src": t_src["dump_rc"], "dump_rc_img": t["dump_rc"],
                             "dump_eq": int(t["dump_out"] == t_src["dump_out"] and t["dump_err"] == t_src["dump_err"])}
            if not line["tools"]["fsck_eq"] or not line["tools"]["dump_eq"]:
                line["tool_diff"] = {"fsck_img": t["fsck_out"][-400:], "fsck_src": t_src["fsck_out"][-400:]}
        if mode == "all":
            P2 = project_any(dst)
            if "tree" in P2 and "tree" in P:
                line["tree_eq"] = int(P2["tree"] == P["tree"])
        lines.append(line)
    # the layout observation of a qcow2 file is completed with the two raw-format files that belong to it
    index = None
    for qm, rm, cm in (("qcow", "raw", "q2r"), ("qall", "all", "qall2r")):
        l = by_mode.get(qm)
        if not l or not l.get("_layout"):
            continue
        if rm not in files or cm not in files:
            l["_layout"] = None           # a run failed: the line trace reports it
            continue
        if index is None:
            index = {}
            for b in sorted(S.nz, reverse=True):
                index[S.nz[b]] = b
        l["_layout"]["targets"] = list(wide["targets"]) if wide else []
        l["_layout"]["hole"] = wide["hole"] if wide else 0
        l["_layout"]["srcnz"] = [{"b": b, "c": cls[b]} for b in sorted(S.nz) if b < nblocks] if wide else []
        for key, m in (("raw", rm), ("conv", cm)):
            F = files[m]
            l["_layout"][key] = file_obs(F, S, index)
            l["_layout"][key + "_blocks"] = F.size // bs if F.size % bs == 0 else -1
    for p in paths.values():
        try:
            os.unlink(p)
        except OSError:
            pass
    info["classes"] = sorted(c for c in CLASSES if any(x == c for x in set(cls)))
    info["blocks"] = nblocks
    return lines, info


# ------------------------------------------------------------------------------------------------------------------
# layout binding: TLC runs the literal writer model with the real constants of one image (Trace_E2imageLayout.tla)
# ------------------------------------------------------------------------------------------------------------------
LAYOUT_MAX_MAPPED = 4000          # cost grows with mapped blocks x file clusters
LAYOUT_MAX_CLUSTERS = 6000
LAYOUT_QUICK_CLUSTERS = 1300
LAYOUT_WHAT = {"LayoutMatches": "the qcow2 file is not the file the writer model builds",
               "RawMatches": "the direct raw image is not the file the raw writer of the specification builds (position / content of a block)",
               "ConvMatches": "the converted image is not the file the reader of the specification builds: a cluster was copied to a position other than (l1_index * l2_size + l2_index) << cluster_bits evaluated in 64 bits, or with other content",
               "LConvertEqualsRaw": "on the blocks the real -Q image maps, the model's converted file differs from its raw file"}
COVER_INV = ("Covers", "CoversHole")
LAYOUT_INV = ("WriterSane", "RefcountExact", "L2TablesDistinct", "LMapExact", "LConvertEqualsRaw", "LayoutMatches", "RawMatches", "ConvMatches")


def layout_obs(q, mapping, bs, nblocks):
    """None when the image is outside the model's assumptions (refcount table of one cluster) or too large to step through"""
    if q["rtc"] != 1 or q["overlap"] or len(mapping) > LAYOUT_MAX_MAPPED or q["file_clusters"] > LAYOUT_MAX_CLUSTERS or not mapping:
        return None
    if nblocks >= 1 << 31 or max(mapping) >= nblocks:
        return None
    rt = list(q["_rt"])
    while rt and rt[-1] == 0:
        rt.pop()
    return {"map": [[b, mapping[b]] for b in sorted(mapping)], "l1": [e // bs for e in q["_l1"]], "rt": rt,
            "file_clusters": q["file_clusters"], "nb": nblocks, "l2n": bs // 8, "rpb": bs // 2, "l1n": q["l1n"], "cbits": q["cbits"]}


class LayoutBroken(Exception):
    """TLC could not decide a layout trace (evaluation error, model stuck, catalogue not realised)"""


def validate_layout(obs, work, tag, covers=False):
    """returns (ok, TlcResult); raises LayoutBroken when TLC itself fails"""
    cfg = os.path.join(work, "layout_%s.cfg" % tag)
    with open(cfg, "w") as f:
        f.write("SPECIFICATION LSpec\nCONSTANTS\n  NB = %d\n  L2N = %d\n  RPB = %d\n  CacheN = %d\n  MClasses = {\"free\"}\n  AllModes = {FALSE}\n"
                % (obs["nb"], obs["l2n"], obs["rpb"], min(obs["l1n"], 512)))
        f.write("".join("  %s = FALSE\n" % d for d in DEVS))
        f.write("  MaxC <- ObsMaxC\n  CBits <- ObsCBits\n")
        f.write("".join("INVARIANT %s\n" % i for i in LAYOUT_INV + (COVER_INV if covers else ())))
        f.write("POSTCONDITION LayoutDone\nCHECK_DEADLOCK FALSE\n")
    tp = os.path.join(work, "layout_%s.ndjson" % tag)
    with open(tp, "w") as f:
        f.write(json.dumps({k: obs[k] for k in ("map", "l1", "rt", "file_clusters", "cbits", "raw", "conv", "raw_blocks", "conv_blocks", "targets", "hole", "srcnz")}) + "\n")
    r = T.tlc(os.path.join(SPEC, "Trace_E2imageLayout.tla"), cfg, workers=1, timeout=900, env={"TRACE": tp}, xmx="3g")
    m = re.search(r"The invariant of (\w+) is equal to FALSE", r.out)      # an invariant that fails in the initial state (lib/tlc.py files it under errors)
    if m and r.violated is None:
        r.violated, r.error = m.group(1), None
    if r.error or r.violated == "POSTCONDITION" or (r.rc != 0 and r.violated is None):
        raise LayoutBroken("TLC failed on the layout trace %s: %s\n%s" % (tag, r.error or r.violated, r.out[-2500:]))
    if r.violated is not None and r.violated not in LAYOUT_INV + COVER_INV:
        raise LayoutBroken("TLC reports %s on the layout trace %s\n%s" % (r.violated, tag, r.out[-2500:]))
    if r.violated in COVER_INV:
        raise LayoutBroken("the filesystem of %s does not realise the boundary catalogue of E2image.tla (%s: a target block is not non-zero metadata of the source, or the hole is missing): targets %s hole %s" % (tag, r.violated, obs.get("targets"), obs.get("hole")))
    return r.violated is None, r


# ------------------------------------------------------------------------------------------------------------------
# TLC
# ------------------------------------------------------------------------------------------------------------------
DEVS = ("DevEaInodeDataSkipped", "DevL1VsVirtualSize", "DevLastByteZeroed")


def trace_cfg(path, devs=()):
    T.write_cfg(path, spec="TraceSpec", postcondition="TraceAccepted",
                constants=dict([("NB", 4), ("L2N", 2), ("RPB", 4), ("CacheN", 2), ("MClasses", '{"free"}'), ("AllModes", "{FALSE}")] +
                               [(d, "TRUE" if d in devs else "FALSE") for d in DEVS]))


def strip_line(l):
    return {k: v for k, v in l.items() if k not in ("first_diff", "msg", "qbad", "tool_diff", "image", "_layout")}


def validate(lines, work, devs=(), tag="t"):
    """TLC evaluates every line against Trace_E2image; returns ({index: (failed clauses, failed classes)}, TlcResult)"""
    cfg = os.path.join(work, "Trace_E2image_%s.cfg" % tag)
    trace_cfg(cfg, devs)
    tp = os.path.join(work, "trace_%s.ndjson" % tag)
    with open(tp, "w") as f:
        for l in lines:
            f.write(json.dumps(strip_line(l), sort_keys=True) + "\n")
    r = T.tlc(os.path.join(SPEC, "Trace_E2image.tla"), cfg, workers=1, timeout=600, env={"TRACE": tp}, xmx="3g")
    if not r.ok:
        die_broken("TLC failed on the trace (%s): %s\n%s" % (tag, r.error or r.violated, r.out[-2500:]))
    bad = {}
    # (TLC breaks a long tuple over several lines: << "BADLINE",\n   6, ...)
    for m in re.finditer(r'<<\s*"BADLINE",\s*(\d+),\s*(\{[^}]*\}),\s*(\{[^}]*\})\s*>>', r.out):
        bad[int(m.group(1)) - 1] = (re.findall(r'"(\w+)"', m.group(2)), re.findall(r'"(\w+)"', m.group(3)))
    if len(bad) != r.out.count('"BADLINE"'):
        die_broken("could not read every BADLINE of TLC's output (%s): %d parsed, %d printed" % (tag, len(bad), r.out.count('"BADLINE"')))
    return bad, r


# (cfg, None = every invariant must hold | name of the invariant TLC must find violated)
MC_QUICK = [("MC_E2image_quick.cfg", None), ("MC_E2image_dense.cfg", None), ("MC_E2image_narrow_offout.cfg", "ConvertEqualsRaw")]
MC_THOROUGH = [("MC_E2image.cfg", None), ("MC_E2image_dense.cfg", None), ("MC_E2image_dense9.cfg", None), ("MC_E2image_l2n4.cfg", None),
               ("MC_E2image_literal.cfg", None), ("MC_E2image_literal_reach.cfg", "DevReachable"), ("MC_E2image_literal_lastbyte.cfg", "DevReachable"),
               ("MC_E2image_literal_ea.cfg", "DiscoveryOK"), ("MC_E2image_narrow_offout.cfg", "ConvertEqualsRaw"),
               ("MC_E2image_narrow_rawpos.cfg", "RawContract"), ("MC_E2image_narrow_srcpos.cfg", "RawContract")]


def model_check(ev, tier):
    res = []
    jobs = MC_QUICK if tier == "quick" else MC_THOROUGH

    def one(j):
        cfg, expect = j
        return j, T.tlc(os.path.join(SPEC, "E2image.tla"), os.path.join(SPEC, cfg), workers=2 if tier == "quick" else 4, timeout=2400, xmx="4g")
    with cf.ThreadPoolExecutor(max_workers=2) as ex:
        for (cfg, expect), r in ex.map(one, jobs):
            if r.error:
                die_broken("TLC on %s: %s\n%s" % (cfg, r.error, r.out[-1500:]))
            if expect is None and not r.ok:
                die_broken("model %s: invariant %s violated -- the specification does not satisfy its own contract\n%s" % (cfg, r.violated, r.out[-1500:]))
            if expect is not None and r.violated != expect:
                die_broken("model %s: TLC was expected to find %s violated (the deviation / narrow evaluation it demonstrates must break exactly that), found %s" % (cfg, expect, r.violated))
            ev.add_tlc(r, cfg + ("" if expect is None else " (expected violation of %s: reachable)" % r.violated))
            res.append((cfg, r.distinct, r.generated))
    return res


def load_catalogue(work):
    """the boundary catalogue (E2image.tla Part 4), enumerated by TLC"""
    out = os.path.join(work, "catalogue.json")
    r = T.tlc(os.path.join(SPEC, "Emit_E2image.tla"), os.path.join(SPEC, "Emit_E2image.cfg"), workers=1, timeout=300, env={"OUT": out}, xmx="1g")
    if not r.ok or not os.path.exists(out):
        die_broken("TLC could not enumerate the boundary catalogue (Emit_E2image): %s\n%s" % (r.error, r.out[-1500:]))
    return json.load(open(out))


def source_images(build, tier, cat):
    """returns (images [(name, path)], skipped [(name, why)], wide {name: catalogue entry})"""
    bdir, bmeta = mkbase.base_images(build)
    out, skipped = [], []
    for n, i in bmeta.items():
        if i.get("ok"):
            out.append((n, os.path.join(bdir, n + ".img")))
        else:
            skipped.append((n, "base profile does not pass e2fsck -fn"))
    sizes = cat["sizes_quick"] + (cat["sizes_more"] if tier == "thorough" else [])
    wide = {c19_images.wide_name(e): e for e in cat["wide_quick"] + (cat["wide_more"] if tier == "thorough" else [])}
    names = c19_images.EXTRA + sorted(c19_images.size_name(e) for e in sizes) + sorted(wide)
    xdir, xmeta = c19_images.images(build, names, wide)
    for n in names:
        i = xmeta[n]
        if not i.get("ok"):
            why = "mke2fs refused or e2fsck -fn not clean: %s" % (i.get("mke2fs_err") or i.get("fsck_out") or "")[-200:]
            if n in wide:
                die_broken("the filesystem %s of the boundary catalogue could not be built: %s" % (n, why))
            skipped.append((n, why))
            continue
        out.append((n, os.path.join(xdir, n + ".img")))
    return out, skipped, wide


def run(tier):
    ev = Evidence(PID, tier, "model_checking")
    vd = Verdict(PID, ev)
    if not os.path.exists(IOTRACE):
        sh(["make", "-C", os.path.join(VERIF, "harness"), "-s", "all"], timeout=300)
        if not os.path.exists(IOTRACE):
            die_broken("harness/iotrace.so is missing (make -C harness)")
    try:
        build = B.build()
    except Exception as e:
        die_broken("build failed: %s" % e)
    env = tool_env(build)
    work = fast_tmp()
    try:
        with cf.ThreadPoolExecutor(max_workers=1) as mcx:
            mc_future = mcx.submit(model_check, ev, tier)
            cat = load_catalogue(work)
            imgs, skipped, wide = source_images(build, tier, cat)
            lines, infos = [], []

            def one(a):
                n, p = a
                return observe(build, env, n, p, work, wide=wide.get(n))
            with cf.ThreadPoolExecutor(max_workers=4) as ex:
                for ls, info in ex.map(one, imgs):
                    lines += ls
                    infos.append(info)
            for info in infos:
                if info.get("skipped"):
                    if info["image"] in wide:
                        die_broken("the filesystem %s of the boundary catalogue could not be observed: %s" % (info["image"], info["skipped"]))
                    skipped.append((info["image"], info["skipped"]))
            if not lines:
                die_broken("no source filesystem could be observed")
            ev.cov["phase_wall_s"] = {"observe": round(time.time() - ev.t0, 1)}
            bad, r = validate(lines, work)
            ev.cov["phase_wall_s"]["trace"] = round(time.time() - ev.t0, 1)
            ev.add_tlc(r, "Trace_E2image (%d lines)" % len(lines))
            # confirm: observe the images again (once per image), validate the re-observed lines again (one TLC run)
            paths = dict(imgs)
            confirmed = []
            if bad:
                by_img = {}
                for bi in sorted(bad):
                    by_img.setdefault(lines[bi]["image"], set()).add(lines[bi]["mode"])
                again = []
                for im, modes in by_img.items():
                    ls2, _ = observe(build, env, im, paths[im], work, want_modes=modes)
                    got = [x for x in ls2 if x["mode"] in modes]
                    if len(got) != len(modes):
                        die_broken("could not re-observe %s %s" % (im, sorted(modes)))
                    again += got
                bad2, r2 = validate(again, work, tag="confirm")
                confirmed = [(again[k], bad2[k]) for k in sorted(bad2)]
            # attribution: which named deviation (alone, then all together) makes TLC accept the line?
            devkey = {}
            todo = list(range(len(confirmed)))
            for devs in [(d,) for d in DEVS] + [DEVS]:
                if not todo:
                    break
                badd, rd = validate([confirmed[k][0] for k in todo], work, devs=devs, tag="dev")
                for j, k in enumerate(list(todo)):
                    if j not in badd:
                        devkey[k] = "+".join(devs)
                todo = [k for j, k in enumerate(todo) if j in badd]
            confirmed = [(l, cc, devkey.get(k)) for k, (l, cc) in enumerate(confirmed)]
            for l, (clauses, classes), dev in confirmed:
                key = dev if dev else "%s|%s|%s" % (l["id"], ",".join(sorted(clauses)), ",".join(sorted(classes)))
                what = "e2image %s on %s: contract clauses %s fail%s%s" % (l["mode"], l["image"], sorted(clauses),
                                                                          (" (block classes %s, first differing block per class %s)" % (sorted(classes), {c: l["first_diff"].get(c) for c in classes})) if classes else "",
                                                                          (" -- behaviour of the named deviation %s" % dev) if dev else "")
                vd.violation(key, what, {"image": l["image"], "mode": l["mode"], "line": strip_line(l), "first_diff": l.get("first_diff"), "detail": {k: l.get(k) for k in ("msg", "qbad", "tool_diff") if l.get(k)}})
            # second binding: the literal writer / reader model, run with the real constants, must build the very files e2image wrote
            # (cost grows with mapped blocks x file clusters; quick takes the -Q files up to LAYOUT_QUICK_CLUSTERS clusters, thorough also the -Qa files)
            # an image the line trace already convicts may be anything (overlapping clusters, a run that failed): when the layout model
            # cannot be stepped over it, that is not a broken check
            convicted = {l["image"] for l, _, _ in confirmed}
            for n in wide:
                for l in lines:
                    if l["image"] == n and l["mode"] == "qcow" and not l.get("_layout") and n not in convicted:
                        die_broken("the -Q image of %s is outside the assumptions of the layout model (rc %d, refcount table clusters %d, %d mapped blocks)" % (n, l["rc"], l["q"]["rtc"], l["q"]["mapped"]))
            lay = [l for l in lines if l.get("_layout") and l["rc"] == 0 and
                   (tier == "thorough" or (l["mode"] == "qcow" and (l["q"]["file_clusters"] <= LAYOUT_QUICK_CLUSTERS or l["image"] in wide)))]
            lay_undecided = []

            def lay_check(l, obs, tag):
                try:
                    return validate_layout(obs, work, tag, covers=l["image"] in wide and l["mode"] == "qcow")
                except LayoutBroken as e:
                    if l["image"] not in convicted:
                        die_broken(str(e))
                    lay_undecided.append(l["id"])
                    return None, None

            def lay_one(l):
                return l, lay_check(l, l["_layout"], l["id"].replace("/", "_"))
            lay_ok = lay_bad = 0
            lay_walls = {}
            with cf.ThreadPoolExecutor(max_workers=4) as ex:
                for l, (ok, r) in ex.map(lay_one, lay):
                    if r is None:
                        continue
                    lay_walls[l["id"]] = round(r.wall, 1)
                    ev.cov["states"] += r.distinct
                    ev.cov["transitions"] += r.generated
                    if ok:
                        lay_ok += 1
                        continue
                    ls2, _ = observe(build, env, l["image"], paths[l["image"]], work, want_modes={"q2r" if l["mode"] == "qcow" else "qall2r"}, wide=wide.get(l["image"]))
                    l2 = [x for x in ls2 if x["mode"] == l["mode"]][0]
                    ok2, r2 = lay_check(l, l2["_layout"], l["id"].replace("/", "_") + "_confirm") if l2.get("_layout") else (True, None)
                    if ok2 is None:
                        continue
                    if not ok2:
                        lay_bad += 1
                        vd.violation("layout|%s|%s" % (l["id"], r2.violated),
                                     "e2image %s on %s: %s (invariant %s of Trace_E2imageLayout)" % (l["mode"], l["image"], LAYOUT_WHAT.get(r2.violated, "the files are not the files the writer / reader model builds"), r2.violated),
                                     {"image": l["image"], "mode": l["mode"], "layout": {k: (l2["_layout"][k] if k in ("file_clusters", "nb", "l2n", "rpb", "cbits") or len(l2["_layout"][k]) <= 400 else "(%d entries)" % len(l2["_layout"][k]))
                                                                                          for k in ("map", "l1", "rt", "raw", "conv", "file_clusters", "nb", "l2n", "rpb", "cbits")}})
                    else:
                        lay_ok += 1
            ev.cov["layout_traces"] = {"wall_s": lay_walls, "run": len(lay), "accepted": lay_ok, "rejected": lay_bad, "undecided_on_images_already_in_violation": sorted(set(lay_undecided)), "what": "literal writer / reader model stepped with the real constants over the mapped blocks; every block's data cluster, L1 and refcount table entries and the file size equal the real qcow2 file; position and content of every non-zero block of the direct raw file and of the converted file equal RawFile / ConvFile (offsets evaluated with the stated widths)"}
            ev.cov["phase_wall_s"]["layout"] = round(time.time() - ev.t0, 1)
            mc = mc_future.result()
            ev.cov["phase_wall_s"]["model_checking_done"] = round(time.time() - ev.t0, 1)
        ev.cov["evaluations"] = len(lines)
        ev.cov["traces_validated_against_impl"] = len(lines) - len(confirmed) + lay_ok
        ev.cov["source_filesystems"] = len([i for i in infos if not i.get("skipped")])
        ev.cov["skipped_sources"] = [list(s) for s in skipped]
        ev.cov["model_checking"] = [{"cfg": c, "distinct": d, "generated": g} for c, d, g in mc]
        classes_seen = set()
        for l in lines:
            for c, v in l["cls"].items():
                if v["n"]:
                    classes_seen.add(c)
                    if l["mode"] in ("raw", "qcow") and v["srcnz"]:
                        ev.nontrivial((l["image"], c))
        ev.cov["block_classes_present_in_some_source"] = sorted(classes_seen)
        ev.cov["block_classes_never_present"] = sorted(set(CLASSES) - classes_seen)
        ev.cov["qcow2_boundaries"] = {
            "max_l2_tables_in_one_image": max(l["q"]["l2_tables"] for l in lines), "max_refcount_blocks_in_one_image": max(l["q"]["refblocks"] for l in lines),
            "images_with_partial_last_l2_table": len({l["image"] for l in lines if l["mode"] == "qcow" and l["geo"]["blocks"] % max(1, l["q"]["l2n"])}),
            "images_with_l2_tables_beyond_virtual_size": sorted({l["id"] for l in lines if l["q"]["l2_beyond_virtual"] > 0 and l["mode"] in ("qcow", "qall")}),
            "images_flushing_the_l2_cache": sorted({l["id"] for l in lines if l["q"]["l2_tables"] > 512 and l["mode"] in ("qcow", "qall")})}
        ev.cov["width_boundaries"] = {
            "catalogue": {n: {"kind": e["kind"], "bs": e["bs"], "blocks": e["blocks"], "targets": e["targets"], "hole_blocks": e["hole"]} for n, e in wide.items()}, "byte_offsets": ["2^%d" % b for b in cat["boundary_bits"]],
            "mapped_blocks_at_or_beyond_2^32": {l["id"]: sum(1 for b, c in l["_layout"]["map"] if b * l["geo"]["bs"] >= 1 << 32) for l in lines if l["image"] in wide and l.get("_layout")},
            "what": "TLC (invariants Covers / CoversHole of Trace_E2imageLayout) confirms that every target block is non-zero metadata of the source (class from the independent reader) and that the hole kind has two consecutive imaged blocks at least 2^31 bytes apart"}
        ev.cov["rule"] = ("one evaluation = one run of e2image (image x mode) judged by TLC; non-trivial = (source image, block class) pairs with at least one "
                          "non-zero block of that class in a metadata-image run, i.e. places where leaving the class out would be seen")
        for l in lines[:3]:
            ev.sample({"id": l["id"], "cls": {c: v for c, v in l["cls"].items() if v["n"]}, "q": {k: l["q"][k] for k in ("l1n", "l2_tables", "refblocks", "mapped", "file_clusters")}, "io": l["io"], "tools": l["tools"], "conv": l["conv"]})
        ev.assumptions = ASSUMPTIONS
        return vd.finish()
    finally:
        shutil.rmtree(work, ignore_errors=True)


ASSUMPTIONS = [
    "Block classes come from the independent reader (reader/ext4read.py): fixed-metadata map, group flags, per-inode owner map of every inode with a non-zero link count; only sources that pass e2fsck -fn and that the reader projects without ambiguity enter the universe (others are listed under skipped_sources, never counted)",
    "MetaLive (spec/E2image.tla) = primary superblock, descriptors, reserved GDT blocks (indirect blocks of the resize inode) and its double-indirect block, initialised bitmaps, in-use inode-table blocks, MMP, every directory block, every extent index/leaf and (double/triple) indirect block, xattr blocks, data blocks of EA inodes, all blocks of the journal / quota / orphan-file inodes, slow-symlink blocks. Blocks the format declares uninitialised (BLOCK_UNINIT / INODE_UNINIT / bg_itable_unused) and backups (backup superblocks, descriptors, backup reserved GDT) are not required in any image",
    "qcow2 images are judged through this check's own parser of the header / L1 / L2 / refcount structures (e2fsck and dumpe2fs cannot open qcow2; their outputs are compared on the raw-format images, and the converted image is compared byte-for-byte with the direct raw image)",
    "the image file is a new regular file (e2image then treats all-zero blocks as holes); -b, -o/-O, -c, -s, -I, -p, stdout output, block-device targets and the old 'normal' image format are not exercised",
    "bigalloc: the block map of e2image has cluster granularity, unowned blocks sharing a cluster with a copied block ('mate') are unconstrained",
    "images in the model and in the layout traces: refcount table of one cluster (the L1 table takes the clusters its size needs); qcow2 files stay far below 2 GiB",
    "integer-width boundaries: the universe reaches byte offsets 2^31 and 2^32 of the filesystem (raw file positions, virtual offsets of the qcow2 image, read positions in the source) on sparse filesystems of 4.25 GiB; block numbers >= 2^31 (2 TiB at 1 KiB blocks) and qcow2 file offsets >= 2^31 (2 GiB of imaged blocks) are not reached",
    "files are compared hole-aware: a block inside a hole is a zero block (SEEK_DATA / SEEK_HOLE; on a filesystem without them the whole file is read)",
]


def replay(path):
    d = json.load(open(path))
    rp = d.get("replay", d)
    name, mode = rp["image"], rp["mode"]
    build = B.build()
    env = tool_env(build)
    work = fast_tmp()
    try:
        imgs, _, _ = source_images(build, "thorough", load_catalogue(work))
        paths = dict(imgs)
        if name not in paths:
            print("image %s not available" % name)
            return 2
        ls, info = observe(build, env, name, paths[name], work, want_modes={mode})
        ls = [x for x in ls if x["mode"] == mode]
        bad, r = validate(ls, work, tag="replay")
        print(json.dumps(strip_line(ls[0]))[:1500])
        if bad:
            print("VIOLATION property=%s replay=%s  (clauses %s classes %s)" % (PID, path, bad[0][0], bad[0][1]))
            return 1
        print("replay accepted")
        return 0
    finally:
        shutil.rmtree(work, ignore_errors=True)
