"""C16 -- every bitmap implementation behaves as a set of integers.

(1) TLC model-checks spec/BitmapRb.tla (transcription of blkmap64_rb.c refining a set: Structural, Refines,
    ResultsAgree) exhaustively on a small range.
(2) Operation histories are stepped through the real library on all three back ends by harness/bmdrv.c; every
    logged line (results on each back end, rbtree extents + cursors via hook H2, full bit vectors as runs) is
    validated by TLC against Trace_BitmapRb (the spec's action for that operation must produce exactly the logged
    state and results; all invariants are evaluated after every line).
(3) Interval abstraction (DESIGN 2.3): the same specification runs on CELLS between cut points; the cut points of a
    behaviour are drawn from a boundary catalogue derived from the constants of the real code (byte, 64-bit word,
    the 256-byte chunk of ext2fs_mem_is_zero, 2^16, a bitmap of 2^17 bits, absolute positions around 2^31 / 2^32)
    and every range operation is issued between cut points, so the byte / word / chunk loops of the bit-array and
    legacy back ends are crossed while TLC still validates every line on a few dozen cells."""
import os, sys, json, random, shutil, subprocess, time
from common import VERIF, fast_tmp, seed, die_broken, NPROC
import build, tlc as T, tracecheck
from evidence import Evidence, Verdict

PID = "C16"
SPEC = os.path.join(VERIF, "spec")

# (start, end, real_end, cluster_bits) -- absolute numbers as ext2fs_alloc_generic_bmap takes them
CONFIGS = [
    (0, 7, 7, 0), (1, 8, 8, 0), (0, 5, 7, 0), (1, 12, 15, 0), (0, 23, 23, 0), (1, 64, 71, 0),
    (0, 199, 207, 0), (0, 15, 15, 2), (0, 12, 15, 1), (1, 40, 47, 2),
]


def gen_behaviour(rng, cfg, nops):
    s, e, re_, cb = cfg
    ratio = 1 << cb
    lines = ["reset %d %d %d %d" % (s, e, re_, cb)]
    cur_e, cur_re = e, re_
    hot = None
    for _ in range(nops):
        # positions in bitmap (cluster) units; cluster the activity so that merges/splits/cursor hits happen
        def pos():
            nonlocal hot
            if hot is None or rng.random() < 0.25:
                hot = rng.randint(s, cur_e)
            p = hot + rng.randint(-3, 3)
            return min(max(p, s), cur_e)
        def blk(p):  # a block inside cluster p
            return p * ratio + rng.randint(0, ratio - 1)
        k = rng.random()
        if k < 0.18:
            lines.append("mark %d" % blk(pos()))
        elif k < 0.34:
            lines.append("unmark %d" % blk(pos()))
        elif k < 0.52:
            lines.append("test %d" % blk(pos()))
        elif k < 0.72:
            p = pos(); q = min(cur_e, p + rng.randint(0, 5))
            a = blk(p); bb = q * ratio + rng.randint(0, ratio - 1)
            n = bb - a + 1
            if n < 1:
                a, n = p * ratio, ratio
            op = rng.choice(["mark_range", "unmark_range", "test_range"])
            if op == "test_range" and n == 1:
                n = 2
                if (a + n - 1) // ratio > cur_e:
                    a -= 1
                    if a // ratio < s:
                        continue
            lines.append("%s %d %d" % (op, a, n))
        elif k < 0.80:
            p = pos(); q = rng.randint(p, cur_e)
            a = blk(p); b = max(a, q * ratio + rng.randint(0, ratio - 1))
            lines.append("%s %d %d" % (rng.choice(["ffz", "ffs"]), a, b))
        elif k < 0.86:
            # bulk get/set: start aligned to 8 relative to the bitmap start (precondition of the bit-array back ends)
            nbytes = (cur_e - s + 1 + 7) // 8
            off = 8 * rng.randrange(nbytes)
            mx = cur_e - s + 1 - off
            if mx < 1:
                continue
            n = rng.choice([mx, min(mx, 8), min(mx, 16), rng.randint(1, mx)])
            if rng.random() < 0.5:
                lines.append("get_range %d %d" % (s + off, n))
            else:
                # the bit-array back ends copy whole bytes: keep n a multiple of 8 unless the range ends at `end`
                if n % 8 and off + n != cur_e - s + 1:
                    n = (n // 8) * 8
                    if n == 0:
                        continue
                if n % 8:
                    # trailing partial byte is only legal at the very end of the bitmap and needs real_end room
                    if (off + n + 7) // 8 * 8 - 1 > cur_re - s:
                        continue
                style = rng.random()
                if style < 0.3:
                    bits = "".join(rng.choice("01") for _ in range(n))
                elif style < 0.6:
                    bits = "".join(rng.choice(["00000000", "11111111", "11110000", "00111100"]) for _ in range((n + 7) // 8))[:n]
                else:
                    bits = ("1" * rng.randint(0, n)).ljust(n, "0")
                lines.append("set_range %d %d %s" % (s + off, n, bits))
        elif k < 0.89:
            lines.append(rng.choice(["clear", "copy", "copy", "set_padding"]))
        elif k < 0.93:
            ne = rng.randint(s, re_ if re_ < s + 220 else s + 220)
            nre = max(ne, rng.choice([ne, ne | 7, cur_re]))
            if nre - s >= 240:
                continue
            lines.append("resize %d %d" % (ne, nre))
            cur_e, cur_re = ne, nre
        else:
            lines.append("cmp %d" % rng.choice([-1, -2, cur_e, pos(), pos()]))
    return lines


# ---------------------------------------------------------------- interval abstraction: boundary catalogue
BYTE = 8                  # ba_* / legacy range operations split a range into head bits, whole bytes, tail bits
WORD = 64                 # ba_find_first_zero / ba_find_first_set scan 8-byte words once aligned
CHUNK = 256 * 8           # ext2fs_mem_is_zero compares 256 bytes at a time
B16, B17 = 1 << 16, 1 << 17

def catalogue(span, extra=()):
    """cut-point candidates (bit positions relative to the bitmap start) up to span: every boundary b of the real
    constants with b-1, b, b+1; extra = configuration specific boundaries (absolute 2^31 / 2^32 seen from start)"""
    bases = [BYTE, WORD, CHUNK, CHUNK + BYTE, CHUNK + WORD, 2 * CHUNK, 2 * CHUNK + BYTE, 3 * CHUNK, 4 * CHUNK, 8 * CHUNK, 16 * CHUNK,
             B16 - CHUNK, B16, B16 + CHUNK, B17 - CHUNK, B17 - WORD, B17 - BYTE, B17]
    bases += list(extra) + [span - BYTE, span]
    pts = {0, 1}
    for b in bases:
        pts |= {b - 1, b, b + 1}
    return sorted(p for p in pts if 0 <= p <= span)

# (start, cluster_bits, span = largest relative position + 1 the behaviour may grow to, extra boundaries, bulk get/set allowed)
# start is 0 or 1 in every in-tree caller; the two large starts put the absolute positions 2^31 (legacy, signed 32 bit)
# and 2^32 (64-bit back ends only: real_end does not fit the legacy type) inside the bitmap.
CUT_GEOMS = [
    (0, 0, 2 * CHUNK + 104, (), True),
    (1, 0, 3 * CHUNK + 160, (), True),
    (0, 0, 8 * CHUNK + 72, (), True),
    (1, 0, B16 + 72, (), True),
    (0, 0, B17, (), True),
    (1, 0, B17 + 64, (), True),
    (0, 2, 2 * CHUNK + 104, (), True),
    ((1 << 32) - 3001, 0, 3 * CHUNK + 160, (3001,), False),
    ((1 << 31) - 2501, 0, 3 * CHUNK + 160, (2501,), False),
]


def gen_cut_behaviour(rng, geom, nops, cover=None):
    start, cb, span, extra, bulk = geom
    ratio = 1 << cb
    cat = catalogue(span, extra)
    anchors = set(rng.sample(cat, min(len(cat), rng.randint(8, 14))))
    for p in list(anchors):                      # companions: cells of one bit next to a boundary
        if rng.random() < 0.5 and p + 1 <= span: anchors.add(p + 1)
        if rng.random() < 0.25 and p - 1 >= 0: anchors.add(p - 1)
    for _ in range(2):                           # seeded fillers that are on no boundary
        p = rng.randint(0, span - 1); anchors |= {p, p + 1}
    cuts = sorted(anchors | {0, span})
    K = len(cuts) - 1                            # cells 0..K-1
    E = rng.randint(max(1, K // 2), K)           # current end = cuts[E] - 1
    R = rng.choice([E, E, min(K, E + 1), rng.randint(E, K)])
    logoff = start if start >= 8 else 0
    lines = ["reset %d %d %d %d %d %s" % (start, start + cuts[E] - 1, start + cuts[R] - 1, cb, logoff, " ".join(map(str, cuts)))]
    hot = None

    def blk0(i):      # first block of the first unit of cell i
        return (start + cuts[i]) * ratio
    def note(op, i, j):
        if cover is not None:
            cover.add((op, cuts[i], cuts[j]))
    for _ in range(nops):
        def pos():
            nonlocal hot
            if hot is None or hot >= E or rng.random() < 0.25:
                hot = rng.randrange(E)
            return min(max(hot + rng.randint(-3, 3), 0), E - 1)
        def span_cells():
            i = pos()
            j = min(E, i + 1 + rng.randint(0, 4)) if rng.random() < 0.5 else rng.randint(i + 1, E)
            return i, j
        k = rng.random()
        if k < 0.28:
            ones = [i for i in range(E) if cuts[i + 1] - cuts[i] == 1]
            if not ones:
                continue
            c = pos()
            i = min(ones, key=lambda x: (abs(x - c), x)) if rng.random() < 0.7 else rng.choice(ones)
            lines.append("%s %d" % (rng.choice(["mark", "mark", "unmark"]), blk0(i) + rng.randint(0, ratio - 1)))
        elif k < 0.40:
            i = pos()
            u = rng.choice([cuts[i], cuts[i + 1] - 1, rng.randint(cuts[i], cuts[i + 1] - 1)])
            lines.append("test %d" % ((start + u) * ratio + rng.randint(0, ratio - 1)))
        elif k < 0.66:
            i, j = span_cells()
            a = blk0(i) + rng.randint(0, ratio - 1)
            last = blk0(j) - 1 - rng.randint(0, ratio - 1)
            op = rng.choice(["mark_range", "unmark_range", "test_range", "test_range"])
            if last < a:
                a, last = blk0(i), blk0(j) - 1
            n = last - a + 1
            if op == "test_range" and n < 2:
                if j < E:
                    j += 1; last = blk0(j) - 1; n = last - a + 1
                else:
                    continue
            lines.append("%s %d %d" % (op, a, n)); note(op, i, j)
        elif k < 0.76:
            i, j = span_cells()
            op = rng.choice(["ffz", "ffs"])
            a = blk0(i) + rng.randint(0, ratio - 1); last = blk0(j) - 1 - rng.randint(0, ratio - 1)
            if last < a:
                a, last = blk0(i), blk0(j) - 1
            lines.append("%s %d %d" % (op, a, last)); note(op, i, j)
        elif k < 0.84:
            if not bulk:
                continue
            # bulk get/set: start aligned to 8 relative to the bitmap start (precondition of the bit-array back ends)
            al = [i for i in range(E) if cuts[i] % 8 == 0]
            i = rng.choice(al)
            if rng.random() < 0.5:
                j = rng.randint(i + 1, E)
                lines.append("get_range %d %d" % (start + cuts[i], cuts[j] - cuts[i])); note("get_range", i, j)
            else:
                # whole bytes unless the range ends at `end`, and then only with real_end room for the last byte
                js = [j for j in range(i + 1, E + 1) if cuts[j] % 8 == 0 or (j == E and (cuts[j] + 7) // 8 * 8 <= cuts[R])]
                if not js:
                    continue
                j = rng.choice(js)
                style = rng.random()
                if style < 0.4:
                    on = [rng.random() < 0.5 for _ in range(i, j)]
                elif style < 0.7:
                    t = rng.randint(0, j - i); on = [x < t for x in range(j - i)]
                else:
                    t = rng.randint(0, j - i); on = [x >= t for x in range(j - i)]
                runs = []
                for x, o in enumerate(on):
                    if o:
                        runs.append("%d %d" % (cuts[i + x] - cuts[i], cuts[i + x + 1] - cuts[i + x]))
                lines.append(("set_runs %d %d %s" % (start + cuts[i], cuts[j] - cuts[i], " ".join(runs))).rstrip()); note("set_range", i, j)
        elif k < 0.88:
            lines.append(rng.choice(["clear", "copy", "copy", "set_padding"]))
        elif k < 0.94:
            ne = rng.randint(1, K)
            nr = rng.choice([ne, ne, min(K, ne + 1), rng.randint(ne, K)])
            lines.append("resize %d %d" % (start + cuts[ne] - 1, start + cuts[nr] - 1)); note("resize", ne, nr)
            E, R = ne, nr
        else:
            ones = [i for i in range(E) if cuts[i + 1] - cuts[i] == 1]
            c = rng.choice([-1, -2] + ([rng.choice(ones)] * 2 if ones else []))
            lines.append("cmp %d" % (c if c < 0 else start + cuts[c]))
    return lines


def run_driver(drv, behaviours, workdir):
    script = os.path.join(workdir, "ops.txt")
    with open(script, "w") as f:
        for b in behaviours:
            f.write("\n".join(b) + "\n")
    out = os.path.join(workdir, "trace.ndjson")
    with open(script) as fin, open(out, "w") as fout:
        p = subprocess.run([drv], stdin=fin, stdout=fout, stderr=subprocess.PIPE, timeout=1800)
    if p.returncode != 0:
        return None, "bmdrv exited %d: %s" % (p.returncode, p.stderr.decode()[-500:])
    return out, None


def validate_capped(behaviours, module, cfg, workdir, chunk_lines, cap=20, timeout=900):
    """tracecheck.validate with a bound on the work after failures (same scheme as checks/c17.py): a failing chunk is
    continued behind its first rejected behaviour as ONE new chunk (not one JVM per behaviour), and the search stops once
    `cap` behaviours have been rejected -- the verdict is a violation by then; behaviours not looked at are reported as
    unchecked and not counted as validated.  On a tree where everything is accepted this is exactly tracecheck.validate."""
    import concurrent.futures as cf
    chunks, cur, curlen = [], [], 0
    for bi, b in enumerate(behaviours):
        if cur and curlen + len(b) > chunk_lines:
            chunks.append(cur); cur = []; curlen = 0
        cur.append(bi); curlen += len(b)
    if cur:
        chunks.append(cur)
    nchunks = len(chunks)
    failures, broken, tot_d, tot_g, rnd, unchecked = [], [], 0, 0, 0, 0
    while chunks:
        rnd += 1
        tasks = []
        for ci, ch in enumerate(chunks):
            pth = os.path.join(workdir, "vc_%d_%05d.ndjson" % (rnd, ci))
            n = 0
            with open(pth, "w") as f:
                for bi in ch:
                    for ln in behaviours[bi]:
                        f.write(ln if ln.endswith("\n") else ln + "\n"); n += 1
            tasks.append((module, cfg, pth, n, timeout, False))
        with cf.ThreadPoolExecutor(max_workers=NPROC) as ex:
            res = list(ex.map(tracecheck._run_chunk, tasks))
        nxt = []
        for ch, r in zip(chunks, res):
            tot_d += r["distinct"]; tot_g += r["generated"]
            if r["accepted"]:
                continue
            if r["error"] and r["violated"] is None:
                broken.append(r); continue
            m = r["matched"] if r["matched"] is not None else 0
            if r["violated"] and m > 0:
                m -= 1      # an invariant failed in the state reached by line m-1: that line is the offending one
            pos = 0; hit = None
            for bi in ch:
                if m < pos + len(behaviours[bi]):
                    hit = bi; break
                pos += len(behaviours[bi])
            if hit is None:
                hit = ch[-1]
            failures.append(dict(behaviour=hit))
            rest = ch[ch.index(hit) + 1:]
            if rest:
                nxt.append(rest)
        if len(failures) >= cap:
            unchecked = sum(len(c) for c in nxt)
            break
        chunks = nxt
    return dict(chunks=nchunks, failures=failures, broken=broken, distinct=tot_d, generated=tot_g, unchecked=unchecked)


def nontrivial(trace_lines):
    """merge (insert that reduced the extent count), split (remove that increased it), cursor-hit query."""
    merge = split = hit = False
    prev_n, prev_r = 0, 0
    for ln in trace_lines:
        d = json.loads(ln)
        n = len(d.get("ext", []))
        if d["e"] in ("mark", "mark_range", "set_range") and n < prev_n:
            merge = True
        if d["e"] in ("unmark", "unmark_range") and n > prev_n:
            split = True
        if d["e"] == "test" and prev_r != 0:
            hit = True
        prev_n, prev_r = n, d.get("r", 0)
    return merge and split and hit


def model_check(ev, tier, work):
    maxn = 5 if tier == "quick" else 7
    cfg = os.path.join(work, "MC_BitmapRb.cfg")
    T.write_cfg(cfg, spec="Spec", constants=dict(MaxN=maxn, DevFfzEmpty="FALSE", DevGetEmpty="FALSE", DevRemoveRet="FALSE",
                                                  DevSetRangeOr="FALSE", DevCmpLast="FALSE"),
                invariants=["Structural", "Refines", "ResultsAgree"])
    r = T.tlc(os.path.join(SPEC, "BitmapRb.tla"), cfg, timeout=3000, coverage=False, xmx="16g")
    ev.add_tlc(r, "BitmapRb MaxN=%d exhaustive BFS: Structural, Refines, ResultsAgree" % maxn)
    if r.violated:
        return "model: invariant %s violated in BitmapRb (design-level counterexample)\n%s" % (r.violated, r.out[-3000:])
    if not r.ok:
        die_broken("TLC failed on BitmapRb: %s\n%s" % (r.error, r.out[-2000:]))
    ev.cov["exhaustive"] = True
    return None


def run(tier):
    ev = Evidence(PID, tier, "model_checking")
    vd = Verdict(PID, ev)
    work = fast_tmp()
    try:
        try:
            b = build.build()
            drv = build.driver(b, "bmdrv")
        except RuntimeError as e:
            die_broken(str(e))
        mc_err = model_check(ev, tier, work)
        if mc_err:
            vd.violation("model", mc_err[:300], {"tlc": mc_err})
        rng = random.Random(seed())
        nbeh = 1200 if tier == "quick" else 40000
        nops = 30 if tier == "quick" else 40
        behaviours = [gen_behaviour(rng, CONFIGS[i % len(CONFIGS)], nops) for i in range(nbeh)]
        # interval abstraction: histories between cut points of the boundary catalogue (own generator stream, so the
        # small-range universe of a seed does not depend on this part)
        rng2 = random.Random(seed() * 1000003 + 16)
        ncut = 100 * len(CUT_GEOMS) if tier == "quick" else 1500 * len(CUT_GEOMS)
        cover = set()
        nsmall = len(behaviours)
        behaviours += [gen_cut_behaviour(rng2, CUT_GEOMS[i % len(CUT_GEOMS)], nops, cover) for i in range(ncut)]
        trace, err = run_driver(drv, behaviours, work)
        if err:
            # a crash of the library under a legal history is a violation; find the behaviour by bisection
            bad = None
            for i, bh in enumerate(behaviours):
                t2, e2 = run_driver(drv, [bh], work)
                if e2:
                    bad = (i, bh, e2); break
            if bad:
                vd.violation("crash", "library crashed/aborted on a legal history: " + bad[2][:200], {"ops": bad[1]})
                return vd.finish()
            die_broken(err)
        lines = open(trace).read().splitlines()
        tb = tracecheck.split_behaviours(lines, lambda s: s.startswith('{"e":"reset"'))
        if len(tb) != len(behaviours):
            die_broken("instrumentation incomplete: %d behaviours logged, %d issued" % (len(tb), len(behaviours)))
        for i, (ops, tl) in enumerate(zip(behaviours, tb)):
            if len(ops) != len(tl):
                die_broken("instrumentation incomplete: behaviour %d logged %d of %d lines" % (i, len(tl), len(ops)))
        res = validate_capped(tb, os.path.join(SPEC, "Trace_BitmapRb.tla"), os.path.join(SPEC, "Trace_BitmapRb.cfg"), work,
                              chunk_lines=3000 if tier == "quick" else 12000)
        if res["broken"]:
            die_broken("TLC failed on a trace chunk: %s\n%s" % (res["broken"][0]["error"], res["broken"][0]["out_tail"][-1500:]))
        ev.cov["states"] += res["distinct"]; ev.cov["transitions"] += res["generated"]
        ev.cov["trace_lines_validated"] = len(lines)
        nfail = 0
        for f in res["failures"]:
            bi = f["behaviour"]
            rej, matched, inv, tail, _ = tracecheck.confirm(tb[bi], os.path.join(SPEC, "Trace_BitmapRb.tla"),
                                                            os.path.join(SPEC, "Trace_BitmapRb.cfg"), work)
            if not rej:
                continue      # not reproducible alone: never reported
            nfail += 1
            k = matched if matched is not None else 0
            line = tb[bi][k] if k < len(tb[bi]) else "(end)"
            opname = json.loads(line)["e"] if line != "(end)" else "?"
            what = ("invariant %s violated" % inv) if inv else "trace rejected"
            vd.violation("%s@%s" % (what, opname), "%s at operation %d (%s) of behaviour %d: %s" % (what, k, behaviours[bi][k] if k < len(behaviours[bi]) else "", bi, line[:300]),
                         {"ops": behaviours[bi], "trace": tb[bi], "first_unmatched_line": k, "tlc_tail": tail[-1500:]})
        ev.cov["traces_validated_against_impl"] = len(tb) - nfail - res["unchecked"]
        if res["unchecked"]:
            ev.cov["behaviours_not_looked_at_after_%d_rejections" % len(res["failures"])] = res["unchecked"]
        ev.cov["evaluations"] = len(tb)
        for ops, tl in zip(behaviours, tb):
            if nontrivial(tl[1:]):
                ev.nontrivial(hash(tuple(ops)))
        ev.cov["rule"] = ("histories of %d operations drawn (seeded): %d over 10 small bitmap geometries (positions = bits) incl. start=1, end<real_end padding and "
                          "cluster_bits 1,2; %d over %d large geometries (up to 2^17 bits, start 0/1, cluster_bits 2, absolute positions across 2^31 and 2^32) in the "
                          "interval abstraction: 12-40 cut points per behaviour drawn from the boundary catalogue (byte, 64-bit word, 256-byte chunk of "
                          "ext2fs_mem_is_zero and its multiples, 2^16, 2^17, each -1/0/+1) and every range operation issued between cut points; "
                          "non-trivial = performs >=1 extent merge, >=1 extent split and >=1 test issued while rcursor is set; distinct by operation sequence"
                          % (nops, nsmall, ncut, len(CUT_GEOMS)))
        ev.cov["cut_mode"] = {"behaviours": ncut, "catalogue_points": len(catalogue(B17 + 64)),
                              "distinct_range_operations_by_real_bounds": len(cover),
                              "by_operation": {o: len([1 for c in cover if c[0] == o]) for o in sorted({c[0] for c in cover})},
                              "ranges_longer_than_one_mem_is_zero_chunk": len([1 for c in cover if c[2] - c[1] > CHUNK + 2 * BYTE])}
        ev.sample({"ops": behaviours[0][:12], "first_trace_lines": [json.loads(x) for x in tb[0][:3]]})
        ev.sample({"ops": behaviours[7][:12]})
        ev.sample({"interval_abstraction_ops": behaviours[nsmall][:12], "first_trace_lines": [json.loads(x) for x in tb[nsmall][:3]]})
        ev.cov["checker_cmd"] = "TRACE=<chunk> tlc -workers 1 -config spec/Trace_BitmapRb.cfg spec/Trace_BitmapRb.tla (POSTCONDITION TraceAccepted, INVARIANT Structural, Refines, ResultsAgree)"
        ev.assumptions = ["bulk get/set are issued with (start - bitmap start) % 8 == 0 and whole bytes except at the end of the bitmap (what rw_bitmaps.c does)",
                          "bulk get/set are issued only on bitmaps whose first position is 0 or 1 (every in-tree bitmap; ba_get/set_bmap_range index the byte array with the absolute position)",
                          "interval abstraction: single-bit mark/unmark/compare-flip act on cells of width one; a range test of exactly one bit (routed through test_bmap by the generic layer) is not issued",
                          "the legacy 32-bit back end takes part whenever cluster_bits = 0 and every position of the behaviour fits in 32 bits",
                          "arguments stay inside start..end; out-of-range arguments are refused by the generic layer and not part of the universe",
                          "the extent list printed by hook H2 is the in-order walk of the rb tree; rb tree balancing itself (rbtree.c) is not modelled, only its in-order content"]
        return vd.finish()
    finally:
        shutil.rmtree(work, ignore_errors=True)


def replay(path):
    d = json.load(open(path))
    ops = d["replay"]["ops"]
    work = fast_tmp()
    try:
        b = build.build(); drv = build.driver(b, "bmdrv")
        trace, err = run_driver(drv, [ops], work)
        if err:
            print("VIOLATION property=%s replay=%s (%s)" % (PID, path, err)); return 1
        tl = open(trace).read().splitlines()
        rej, matched, inv, tail, _ = tracecheck.confirm(tl, os.path.join(SPEC, "Trace_BitmapRb.tla"), os.path.join(SPEC, "Trace_BitmapRb.cfg"), work)
        if rej:
            print("first unmatched line %s: %s" % (matched, tl[matched] if matched is not None and matched < len(tl) else "?"))
            print(tail[-1200:])
            print("VIOLATION property=%s replay=%s" % (PID, path)); return 1
        print("replay accepted"); return 0
    finally:
        shutil.rmtree(work, ignore_errors=True)
