"""C16 -- every bitmap implementation behaves as a set of integers.

(1) TLC model-checks spec/BitmapRb.tla (transcription of blkmap64_rb.c refining a set: Structural, Refines,
    ResultsAgree) exhaustively on a small range.
(2) Operation histories are stepped through the real library on all three back ends by harness/bmdrv.c; every
    logged line (results on each back end, rbtree extents + cursors via hook H2, full bit vectors) is validated by
    TLC against Trace_BitmapRb (the spec's action for that operation must produce exactly the logged state and
    results; all invariants are evaluated after every line)."""
import os, sys, json, random, shutil, subprocess, time
from common import VERIF, fast_tmp, seed, die_broken, NPROC
import build, tlc as T, tracecheck
from evidence import Evidence, Verdict

PID = "C16"
SPEC = os.path.join(VERIF, "spec")

# (start, end, real_end, cluster_bits) -- absolute numbers as ext2fs_alloc_generic_bmap takes them
CONFIGS = [
    (0, 7, 7, 0), (1, 8, 8, 0), (0, 5, 7, 0), (1, 12, 15, 0), (0, 23, 23, 0), (1, 64, 71, 0),
    (0, 199, 207, 0), (0, 15, 15, 2), (0, 12, 15, 1), (1, 40, 47, 2),
]


def gen_behaviour(rng, cfg, nops):
    s, e, re_, cb = cfg
    ratio = 1 << cb
    lines = ["reset %d %d %d %d" % (s, e, re_, cb)]
    cur_e, cur_re = e, re_
    hot = None
    for _ in range(nops):
        # positions in bitmap (cluster) units; cluster the activity so that merges/splits/cursor hits happen
        def pos():
            nonlocal hot
            if hot is None or rng.random() < 0.25:
                hot = rng.randint(s, cur_e)
            p = hot + rng.randint(-3, 3)
            return min(max(p, s), cur_e)
        def blk(p):  # a block inside cluster p
            return p * ratio + rng.randint(0, ratio - 1)
        k = rng.random()
        if k < 0.18:
            lines.append("mark %d" % blk(pos()))
        elif k < 0.34:
            lines.append("unmark %d" % blk(pos()))
        elif k < 0.52:
            lines.append("test %d" % blk(pos()))
        elif k < 0.72:
            p = pos(); q = min(cur_e, p + rng.randint(0, 5))
            a = blk(p); bb = q * ratio + rng.randint(0, ratio - 1)
            n = bb - a + 1
            if n < 1:
                a, n = p * ratio, ratio
            op = rng.choice(["mark_range", "unmark_range", "test_range"])
            if op == "test_range" and n == 1:
                n = 2
                if (a + n - 1) // ratio > cur_e:
                    a -= 1
                    if a // ratio < s:
                        continue
            lines.append("%s %d %d" % (op, a, n))
        elif k < 0.80:
            p = pos(); q = rng.randint(p, cur_e)
            a = blk(p); b = max(a, q * ratio + rng.randint(0, ratio - 1))
            lines.append("%s %d %d" % (rng.choice(["ffz", "ffs"]), a, b))
        elif k < 0.86:
            # bulk get/set: start aligned to 8 relative to the bitmap start (precondition of the bit-array back ends)
            nbytes = (cur_e - s + 1 + 7) // 8
            off = 8 * rng.randrange(nbytes)
            mx = cur_e - s + 1 - off
            if mx < 1:
                continue
            n = rng.choice([mx, min(mx, 8), min(mx, 16), rng.randint(1, mx)])
            if rng.random() < 0.5:
                lines.append("get_range %d %d" % (s + off, n))
            else:
                # the bit-array back ends copy whole bytes: keep n a multiple of 8 unless the range ends at `end`
                if n % 8 and off + n != cur_e - s + 1:
                    n = (n // 8) * 8
                    if n == 0:
                        continue
                if n % 8:
                    # trailing partial byte is only legal at the very end of the bitmap and needs real_end room
                    if (off + n + 7) // 8 * 8 - 1 > cur_re - s:
                        continue
                style = rng.random()
                if style < 0.3:
                    bits = "".join(rng.choice("01") for _ in range(n))
                elif style < 0.6:
                    bits = "".join(rng.choice(["00000000", "11111111", "11110000", "00111100"]) for _ in range((n + 7) // 8))[:n]
                else:
                    bits = ("1" * rng.randint(0, n)).ljust(n, "0")
                lines.append("set_range %d %d %s" % (s + off, n, bits))
        elif k < 0.89:
            lines.append(rng.choice(["clear", "copy", "copy", "set_padding"]))
        elif k < 0.93:
            ne = rng.randint(s, re_ if re_ < s + 220 else s + 220)
            nre = max(ne, rng.choice([ne, ne | 7, cur_re]))
            if nre - s >= 240:
                continue
            lines.append("resize %d %d" % (ne, nre))
            cur_e, cur_re = ne, nre
        else:
            lines.append("cmp %d" % rng.choice([-1, -2, cur_e, pos(), pos()]))
    return lines


def run_driver(drv, behaviours, workdir):
    script = os.path.join(workdir, "ops.txt")
    with open(script, "w") as f:
        for b in behaviours:
            f.write("\n".join(b) + "\n")
    out = os.path.join(workdir, "trace.ndjson")
    with open(script) as fin, open(out, "w") as fout:
        p = subprocess.run([drv], stdin=fin, stdout=fout, stderr=subprocess.PIPE, timeout=1800)
    if p.returncode != 0:
        return None, "bmdrv exited %d: %s" % (p.returncode, p.stderr.decode()[-500:])
    return out, None


def nontrivial(trace_lines):
    """merge (insert that reduced the extent count), split (remove that increased it), cursor-hit query."""
    merge = split = hit = False
    prev_n, prev_r = 0, 0
    for ln in trace_lines:
        d = json.loads(ln)
        n = len(d.get("ext", []))
        if d["e"] in ("mark", "mark_range", "set_range") and n < prev_n:
            merge = True
        if d["e"] in ("unmark", "unmark_range") and n > prev_n:
            split = True
        if d["e"] == "test" and prev_r != 0:
            hit = True
        prev_n, prev_r = n, d.get("r", 0)
    return merge and split and hit


def model_check(ev, tier, work):
    maxn = 5 if tier == "quick" else 7
    cfg = os.path.join(work, "MC_BitmapRb.cfg")
    T.write_cfg(cfg, spec="Spec", constants=dict(MaxN=maxn, DevFfzEmpty="FALSE", DevGetEmpty="FALSE", DevRemoveRet="FALSE",
                                                  DevSetRangeOr="FALSE", DevCmpLast="FALSE"),
                invariants=["Structural", "Refines", "ResultsAgree"])
    r = T.tlc(os.path.join(SPEC, "BitmapRb.tla"), cfg, timeout=3000, coverage=False, xmx="16g")
    ev.add_tlc(r, "BitmapRb MaxN=%d exhaustive BFS: Structural, Refines, ResultsAgree" % maxn)
    if r.violated:
        return "model: invariant %s violated in BitmapRb (design-level counterexample)\n%s" % (r.violated, r.out[-3000:])
    if not r.ok:
        die_broken("TLC failed on BitmapRb: %s\n%s" % (r.error, r.out[-2000:]))
    ev.cov["exhaustive"] = True
    return None


def run(tier):
    ev = Evidence(PID, tier, "model_checking")
    vd = Verdict(PID, ev)
    work = fast_tmp()
    try:
        try:
            b = build.build()
            drv = build.driver(b, "bmdrv")
        except RuntimeError as e:
            die_broken(str(e))
        mc_err = model_check(ev, tier, work)
        if mc_err:
            vd.violation("model", mc_err[:300], {"tlc": mc_err})
        rng = random.Random(seed())
        nbeh = 1200 if tier == "quick" else 40000
        nops = 30 if tier == "quick" else 40
        behaviours = [gen_behaviour(rng, CONFIGS[i % len(CONFIGS)], nops) for i in range(nbeh)]
        trace, err = run_driver(drv, behaviours, work)
        if err:
            # a crash of the library under a legal history is a violation; find the behaviour by bisection
            bad = None
            for i, bh in enumerate(behaviours):
                t2, e2 = run_driver(drv, [bh], work)
                if e2:
                    bad = (i, bh, e2); break
            if bad:
                vd.violation("crash", "library crashed/aborted on a legal history: " + bad[2][:200], {"ops": bad[1]})
                return vd.finish()
            die_broken(err)
        lines = open(trace).read().splitlines()
        tb = tracecheck.split_behaviours(lines, lambda s: s.startswith('{"e":"reset"'))
        if len(tb) != len(behaviours):
            die_broken("instrumentation incomplete: %d behaviours logged, %d issued" % (len(tb), len(behaviours)))
        for i, (ops, tl) in enumerate(zip(behaviours, tb)):
            if len(ops) != len(tl):
                die_broken("instrumentation incomplete: behaviour %d logged %d of %d lines" % (i, len(tl), len(ops)))
        res = tracecheck.validate(tb, os.path.join(SPEC, "Trace_BitmapRb.tla"), os.path.join(SPEC, "Trace_BitmapRb.cfg"), work,
                                  chunk_lines=3000 if tier == "quick" else 12000)
        if res["broken"]:
            die_broken("TLC failed on a trace chunk: %s\n%s" % (res["broken"][0]["error"], res["broken"][0]["out_tail"][-1500:]))
        ev.cov["states"] += res["distinct"]; ev.cov["transitions"] += res["generated"]
        ev.cov["trace_lines_validated"] = len(lines)
        nfail = 0
        for f in res["failures"]:
            bi = f["behaviour"]
            rej, matched, inv, tail, _ = tracecheck.confirm(tb[bi], os.path.join(SPEC, "Trace_BitmapRb.tla"),
                                                            os.path.join(SPEC, "Trace_BitmapRb.cfg"), work)
            if not rej:
                continue      # not reproducible alone: never reported
            nfail += 1
            k = matched if matched is not None else 0
            line = tb[bi][k] if k < len(tb[bi]) else "(end)"
            opname = json.loads(line)["e"] if line != "(end)" else "?"
            what = ("invariant %s violated" % inv) if inv else "trace rejected"
            vd.violation("%s@%s" % (what, opname), "%s at operation %d (%s) of behaviour %d: %s" % (what, k, behaviours[bi][k] if k < len(behaviours[bi]) else "", bi, line[:300]),
                         {"ops": behaviours[bi], "trace": tb[bi], "first_unmatched_line": k, "tlc_tail": tail[-1500:]})
        ev.cov["traces_validated_against_impl"] = len(tb) - nfail
        ev.cov["evaluations"] = len(tb)
        for ops, tl in zip(behaviours, tb):
            if nontrivial(tl[1:]):
                ev.nontrivial(hash(tuple(ops)))
        ev.cov["rule"] = ("histories of %d operations drawn (seeded) over 10 bitmap geometries incl. start=1, end<real_end padding and cluster_bits 1,2; "
                          "non-trivial = performs >=1 extent merge, >=1 extent split and >=1 test issued while rcursor is set; distinct by operation sequence" % nops)
        ev.sample({"ops": behaviours[0][:12], "first_trace_lines": [json.loads(x) for x in tb[0][:3]]})
        ev.sample({"ops": behaviours[7][:12]})
        ev.cov["checker_cmd"] = "TRACE=<chunk> tlc -workers 1 -config spec/Trace_BitmapRb.cfg spec/Trace_BitmapRb.tla (POSTCONDITION TraceAccepted, INVARIANT Structural, Refines, ResultsAgree)"
        ev.assumptions = ["bulk get/set are issued with (start - bitmap start) % 8 == 0 and whole bytes except at the end of the bitmap (what rw_bitmaps.c does)",
                          "arguments stay inside start..end; out-of-range arguments are refused by the generic layer and not part of the universe",
                          "the extent list printed by hook H2 is the in-order walk of the rb tree; rb tree balancing itself (rbtree.c) is not modelled, only its in-order content"]
        return vd.finish()
    finally:
        shutil.rmtree(work, ignore_errors=True)


def replay(path):
    d = json.load(open(path))
    ops = d["replay"]["ops"]
    work = fast_tmp()
    try:
        b = build.build(); drv = build.driver(b, "bmdrv")
        trace, err = run_driver(drv, [ops], work)
        if err:
            print("VIOLATION property=%s replay=%s (%s)" % (PID, path, err)); return 1
        tl = open(trace).read().splitlines()
        rej, matched, inv, tail, _ = tracecheck.confirm(tl, os.path.join(SPEC, "Trace_BitmapRb.tla"), os.path.join(SPEC, "Trace_BitmapRb.cfg"), work)
        if rej:
            print("first unmatched line %s: %s" % (matched, tl[matched] if matched is not None and matched < len(tl) else "?"))
            print(tail[-1200:])
            print("VIOLATION property=%s replay=%s" % (PID, path)); return 1
        print("replay accepted"); return 0
    finally:
        shutil.rmtree(work, ignore_errors=True)
