"""C17 -- block I/O layer: coherent, durable on flush, failed device writes reported; threaded bitmap loading
equals single-threaded loading and follows the locking protocol.

Cache part
 (1) TLC model-checks spec/UnixIoCache.tla (transcription of lib/ext2fs/unix_io.c, one action per manager entry
     point) exhaustively at K in {3,4} slots against the property view spec/IoChannel.tla (invariants Coherent,
     DurableAfterFlush, ErrorReported, Refines + action property RefinesIoChannel), and by simulation at the real
     constants K=8, D=4.  The literal (pinned-tree) behaviours stay in the spec behind Dev* constants; the check
     also confirms that switching them on makes TLC find the violation (vacuity guard).
 (2) Operation histories (seeded) are run through the real unix_io_manager by harness/iodrv.c under every channel
     configuration (cached, cache=off, write-through, UNIX_IO_FORCE_BOUNCE, O_DIRECT, offset, undo_io wrapped,
     write_error handler, injected device write failures through iotrace.so).  Every logged call (arguments,
     return code, returned tags, the 8 cache slots + LRU order via hook H1, handler calls, device events, backing
     file content) is validated by TLC against Trace_UnixIoCache.
 (2b) Managers stacked on the unix channel (undo_io): spec/StackedIo.tla states the property once more for the caller of
     the wrapper (OuterCoherent, OuterDurable, OuterLogical, OuterErrorReported, OuterCloseClean) over a transcription
     of undo_io.c's entry points as sequences of nested calls on the real channel and on the undo file.  TLC model-checks
     it with device failures in every nested call while the undo file is fine, and the other way round
     (MC_StackedIo).  Histories on the undo channel are logged call by call (o_begin, nested calls, calls on the undo
     file, o_end) and validated against the same machine; write failures are injected at fault positions enumerated
     from the spec's catalogue FaultCells = entry point x store hit first (Emit_StackedIo).
Thread part
 (3) TLC model-checks spec/BitmapLoad.tla (partition formula, lock protocol, all interleavings, termination).
 (4) harness/bmload.c loads the bitmaps of images with 1..40 groups with 1..16 threads under schedule
     perturbation; error code, presence and content of the bitmaps and flags must equal the single-threaded load and
     hook H3's events must be a behaviour of Trace_BitmapLoad.  The images include damaged ones (bad block / inode
     bitmap checksum, unreadable bitmap block, truncated image) with the damage in a group owned by the first, a middle
     and the last thread: the catalogue is BitmapLoad!FailPos x DamageKinds, enumerated by Emit_BitmapLoad."""
import os, sys, json, random, shutil, subprocess, time, hashlib
from common import VERIF, fast_tmp, seed, die_broken, NPROC, tool_env
import build, tlc as T, tracecheck
from evidence import Evidence, Verdict

PID = "C17"
SPEC = os.path.join(VERIF, "spec")
IOTRACE = os.path.join(VERIF, "harness", "iotrace.so")
NG = 48                       # granules of 512 bytes: 24 blocks of 1k, 12 of 2k, 6 of 4k
GR = 512
WORKERS = 4

# channel configurations: name -> reset fields
CONFIGS = {
    "cached":   dict(wt=0, bounce=0, handler=0, undo=0, dio=0, off=0, nocache=0),
    "handler":  dict(wt=0, bounce=0, handler=1, undo=0, dio=0, off=0, nocache=0),
    "nocache":  dict(wt=0, bounce=0, handler=0, undo=0, dio=0, off=0, nocache=1),
    "wt":       dict(wt=1, bounce=0, handler=0, undo=0, dio=0, off=0, nocache=0),
    "bounce":   dict(wt=0, bounce=1, handler=0, undo=0, dio=0, off=0, nocache=0),
    "bounce_h": dict(wt=0, bounce=1, handler=1, undo=0, dio=0, off=0, nocache=0),
    "offset":   dict(wt=0, bounce=0, handler=0, undo=0, dio=0, off=3, nocache=0),
    "undo":     dict(wt=0, bounce=0, handler=0, undo=1, dio=0, off=0, nocache=0),
    "undo_wt":  dict(wt=1, bounce=0, handler=1, undo=1, dio=0, off=0, nocache=0),
    "undo_h":   dict(wt=0, bounce=0, handler=1, undo=1, dio=0, off=0, nocache=0),
    "dio":      dict(wt=0, bounce=0, handler=0, undo=0, dio=1, off=0, nocache=0),
}
PLAIN_ORDER = ["cached", "handler", "nocache", "wt", "bounce", "offset", "undo", "cached", "bounce_h", "undo_wt", "dio", "cached"]
FAULT_ORDER = ["cached", "handler", "wt", "bounce", "bounce_h", "handler", "nocache", "cached"]
UNDO_ORDER = ["undo", "undo_h", "undo_wt"]
# outer entry point -> the value of the generator's choice variable that selects it
FAVOR_K = {"read": 0.1, "write": 0.4, "wbyte": 0.65, "zero": 0.72, "discard": 0.78, "flush": 0.83, "blksize": 0.88, "cacheoff": 0.945, "close": 0.97}


def reset_line(cfg):
    c = CONFIGS[cfg]
    return "reset %d wt=%d bounce=%d handler=%d undo=%d dio=%d off=%d nocache=%d" % (
        NG, c["wt"], c["bounce"], c["handler"], c["undo"], c["dio"], c["off"], c["nocache"])


def gen_behaviour(rng, cfg, nops, favor=None):
    """A history inside the preconditions: arguments in range; while the cache is switched off by set_option and
    may still hold entries only non-modifying calls are issued (what rw_bitmaps.c does).  favor: an operation that is
    chosen more often (to reach a given fault cell)."""
    c = CONFIGS[cfg]
    lines = [reset_line(cfg)]
    bs = 2                      # granules per block
    is_open = True
    toggled_off = False         # cache=off issued during the history (entries may be retained)
    hot = rng.randrange(NG // bs)
    ro_left = 0
    n = 0
    while n < nops:
        n += 1
        if not is_open:
            lines.append("open"); is_open = True; bs = 2; toggled_off = False
            continue
        nblk = NG // bs
        if rng.random() < 0.3:
            hot = rng.randrange(nblk)
        def blk(span=1):
            b = hot + rng.randint(-3, 3) if rng.random() < 0.8 else rng.randrange(nblk)
            return min(max(b, 0), nblk - span)
        def count():
            k = rng.random()
            if k < 0.55:
                return rng.randint(1, 2)
            if k < 0.75:
                return rng.randint(3, 4)
            if k < 0.88:
                return rng.randint(5, 6)
            return -rng.choice([1, 2, 3, bs, bs + 1, 2 * bs, 5])          # byte-count form, in granules
        def ranged(cnt):
            span = cnt if cnt > 0 else (-cnt + bs - 1) // bs
            b = blk(span)
            if cnt < 0 and b * bs + (-cnt) > NG:
                b = (NG - (-cnt)) // bs
            return b
        k = rng.random()
        if favor in FAVOR_K and n > 3 and rng.random() < 0.3:
            k = FAVOR_K[favor]
        if toggled_off:
            # read-only phase
            if k < 0.7:
                cnt = count(); lines.append("read %d %d" % (ranged(cnt), cnt))
            elif k < 0.8:
                lines.append("flush")
            elif k < 0.85:
                lines.append("readahead %d %d" % (blk(2), 2))
            else:
                lines.append("cache on"); toggled_off = False
            continue
        if k < 0.30:
            cnt = count(); lines.append("read %d %d" % (ranged(cnt), cnt))
        elif k < 0.62:
            cnt = count(); lines.append("write %d %d" % (ranged(cnt), cnt))
        elif k < 0.69:
            ln = rng.choice([1, 1, 2, 3, bs, bs + 1])
            off = min(max(hot * bs + rng.randint(-2, 3), 0), NG - ln)
            lines.append("wbyte %d %d" % (off, ln))
        elif k < 0.76:
            cnt = rng.randint(1, 3); lines.append("zero %d %d" % (blk(cnt), cnt))
        elif k < 0.80:
            cnt = rng.randint(1, 3); lines.append("discard %d %d" % (blk(cnt), cnt))
        elif k < 0.86:
            lines.append("flush")
        elif k < 0.91:
            nb = rng.choice([1024, 2048, 2048, 4096, 1024])
            lines.append("blksize %d" % nb); bs = nb // GR; hot = min(hot, NG // bs - 1)
        elif k < 0.93:
            lines.append("readahead %d %d" % (blk(2), 2))
        elif k < 0.96 and not c["nocache"]:
            lines.append("cache off"); toggled_off = True
        elif k < 0.98:
            lines.append("close"); is_open = False
        else:
            lines.append("flush")
    if is_open:
        if toggled_off:
            lines.append("cache on")
        lines.append("close")
    return lines


def run_driver(drv, behaviours, workdir, tag="p", fail=None, timeout=1800):
    """Run behaviours (list of list[str]) in one driver process; returns (trace lines, error)."""
    d = os.path.join(workdir, "drv_" + tag)
    os.makedirs(d, exist_ok=True)
    script = os.path.join(d, "ops.txt")
    with open(script, "w") as f:
        for b in behaviours:
            f.write("\n".join(b) + "\n")
    out = os.path.join(d, "trace.ndjson")
    io = os.path.join(d, "io.ndjson")
    if os.path.exists(io):
        os.unlink(io)
    # target 0 = the device, target 1 = the undo file (iotrace.so numbers the write-class calls on both in one sequence)
    env = {"PATH": "/usr/bin:/bin", "LC_ALL": "C", "LD_PRELOAD": IOTRACE, "VERIF_IOTRACE_TARGET": "dev.img:dev.img.e2undo",
           "VERIF_IOTRACE_OUT": io}
    if fail:
        env["VERIF_FAIL_WRITE"] = str(fail[0]); env["VERIF_FAIL_COUNT"] = str(fail[1])
    with open(script) as fin, open(out, "w") as fout:
        try:
            p = subprocess.run([drv, os.path.join(d, "dev.img")], stdin=fin, stdout=fout, stderr=subprocess.PIPE, timeout=timeout, env=env)
        except subprocess.TimeoutExpired:
            return None, "iodrv timed out"
    lines = open(out).read().splitlines()
    run_driver.io_events = []
    try:
        for x in open(io):
            if '"n":' in x:
                rec = json.loads(x)
                run_driver.io_events.append((rec["n"], rec["tgt"], rec["e"], rec.get("fail", 0)))
    except (OSError, ValueError):
        pass
    for fn in ("dev.img", "dev.img.e2undo", "io.ndjson"):
        try: os.unlink(os.path.join(d, fn))
        except OSError: pass
    if p.returncode != 0:
        return lines, "iodrv exited %d: %s" % (p.returncode, p.stderr.decode()[-400:])
    return lines, None


def outer_line(ln):
    return ln.startswith('{"e":"o_') or ln.startswith('{"e":"u_')


def count_write_events(trace_lines):
    n = 0
    for ln in trace_lines:
        if outer_line(ln):
            continue
        n += len(json.loads(ln).get("ev", []))
    return n


def expected_lines(ops, undo):
    """Number of lines the driver must print for a behaviour (instrumentation completeness); None if unknown (undo)."""
    return None if undo else len(ops)


def nontrivial(tl):
    """>= 1 dirty eviction (a device write during a cached read/write that is not write-through) and >= 1 direct
    (cache-bypassing) call overlapping a block that was cached when it was issued."""
    evict = overlap = False
    prev = None
    for ln in tl:
        if outer_line(ln):
            continue
        d = json.loads(ln)
        e = d["e"]
        if e == "skip":
            continue
        if prev is not None and prev["nocache"] == 0 and prev["bs"] > 0:
            bs = prev["bs"]
            cached = {s[0] for s in prev["slots"] if s[1]}
            if e in ("read", "write") and 0 < d["b"] <= 4 and d["cfg"][0] == 0 and any(x[0] == 1 for x in d["ev"]):
                evict = True
            rng = None
            if e == "write" and (d["b"] < 0 or d["b"] > 4):
                g0 = d["a"] * bs; rng = range(g0, g0 + (d["b"] * bs if d["b"] > 0 else -d["b"]))
            elif e == "wbyte":
                rng = range(d["a"], d["a"] + d["b"])
            elif e in ("zero", "discard"):
                rng = range(d["a"] * bs, (d["a"] + d["b"]) * bs)
            if rng is not None and any((g // bs) in cached for g in rng):
                overlap = True
        prev = d
    return evict and overlap


# ------------------------------------------------------------------------------------------------ model checking
MC_BASE = dict(NG=6, K=3, D=2, InitBS=1, DevInvalSkipsClean="FALSE", DevZeroBypassesCache="FALSE", DevWriteEvictErrLost="FALSE", TogglePre="TRUE",
               BlkSizes="{1}", NegSizes="{1}", ByteLens="{1}", MaxW=1, MaxFaults=0, Toggle="FALSE", ZeroFail="FALSE")
MC_INV = ["Coherent", "DurableAfterFlush", "ErrorReported", "Refines", "NoDupSlots", "LruWellFormed", "WriteThroughClean"]


def mc_cfg(work, name, over, cfgs="CfgPlain", simulate=False):
    c = dict(MC_BASE); c.update(over)
    path = os.path.join(work, "MC_%s.cfg" % name)
    L = ["SPECIFICATION MCSpec", "CONSTANTS"] + ["  %s = %s" % kv for kv in c.items()] + ["  Cfgs <- %s" % cfgs]
    if not simulate:
        L.append("VIEW MCView")
    L += ["INVARIANT %s" % i for i in MC_INV] + ["PROPERTY RefinesIoChannel", "CHECK_DEADLOCK FALSE"]
    with open(path, "w") as f:
        f.write("\n".join(L) + "\n")
    return path


def model_check_cache(ev, vd, tier, work):
    """Exhaustive runs (sizes measured in this sandbox, see the labels), simulation at the real constants, and the
    vacuity guards.  Two TLC processes with two workers each run side by side."""
    import concurrent.futures as cf
    mod = os.path.join(SPEC, "MC_UnixIoCache.tla")
    small_f = dict(NG=3, K=2, D=1, MaxW=2, MaxFaults=1, ZeroFail="TRUE")
    if tier == "quick":
        runs = [
            ("core K=3 D=2 NG=5", dict(NG=5), "CfgPlain", 900),
            ("blksize {1,2} K=3 D=2 NG=4", dict(NG=4, BlkSizes="{1,2}", NegSizes="{1,3}", ByteLens="{1,2}"), "CfgPlain", 900),
            ("device write failures, with and without handler, K=2 D=1 NG=3", small_f, "CfgFault", 900),
        ]
    else:
        runs = [
            ("core K=3 D=2 NG=6", dict(), "CfgPlain", 1800),
            ("core K=4 D=2 NG=5", dict(K=4, NG=5), "CfgPlain", 2400),      # NG=6 at K=4 does not finish in 40 min on a loaded machine (measured)
            ("blksize {1,2} K=3 D=2 NG=4", dict(NG=4, BlkSizes="{1,2}", NegSizes="{1,3}", ByteLens="{1,2}"), "CfgPlain", 900),
            ("device write failures, with and without handler, K=3 D=2 NG=4", dict(NG=4, MaxW=2, MaxFaults=1, ZeroFail="TRUE"), "CfgFault", 2400),
            ("write-through + failures K=3 D=2 NG=4", dict(NG=4, MaxW=2, MaxFaults=1), "CfgWt", 1800),
            ("force-bounce + failures + blksize {1,2} K=2 D=1 NG=4", dict(NG=4, K=2, D=1, BlkSizes="{1,2}", NegSizes="{1,3}", MaxW=2, MaxFaults=1), "CfgBounce", 1800),
            ("cache off/on around read-only phases + failures K=3 D=2 NG=4", dict(NG=4, Toggle="TRUE", MaxW=2, MaxFaults=1), "CfgFault", 2400),
        ]
    jobs = []
    for label, over, cfgs, tmo in runs:
        cfg = mc_cfg(work, hashlib.sha1(label.encode()).hexdigest()[:8], over, cfgs)
        jobs.append((label, cfg, dict(workers=2, timeout=tmo, xmx="3g")))
    nsim, depth = (32, 40) if tier == "quick" else (300, 50)      # per worker; measured: ~0.4 behaviours/s/worker at the real constants idle, a third of that loaded
    simw = 4 if tier == "quick" else 8
    simcfg = mc_cfg(work, "sim", dict(K=8, D=4, NG=16, BlkSizes="{1,2}", NegSizes="{1,3,5}", ByteLens="{1,2}", MaxW=4, MaxFaults=2,
                                      Toggle="TRUE", ZeroFail="TRUE"), "CfgAll", simulate=True)
    jobs.append(("simulation at the real constants K=8 D=4 NG=16, all configurations: %d behaviours of depth %d" % (nsim * simw, depth), simcfg,
                 dict(workers=simw, timeout=3000, simulate=nsim, depth=depth, xmx="3g")))
    guards = []
    for dev in ("DevInvalSkipsClean", "DevZeroBypassesCache"):
        guards.append((dev, mc_cfg(work, "lit_" + dev, {dev: "TRUE", "NG": 4}), dict(workers=1, timeout=300, xmx="2g")))
    d3 = dict(small_f); d3["DevWriteEvictErrLost"] = "TRUE"
    guards.append(("DevWriteEvictErrLost", mc_cfg(work, "lit_evict", d3, "CfgFault"), dict(workers=1, timeout=300, xmx="2g")))
    guards.append(("TogglePre", mc_cfg(work, "notogglepre", dict(NG=4, Toggle="TRUE", TogglePre="FALSE")), dict(workers=1, timeout=300, xmx="2g")))
    with cf.ThreadPoolExecutor(max_workers=4) as ex:
        futs = [(label, cfg, ex.submit(T.tlc, mod, cfg, **kw)) for label, cfg, kw in jobs]
        gfuts = [(dev, ex.submit(T.tlc, mod, cfg, **kw)) for dev, cfg, kw in guards]
        for label, cfg, fu in futs:
            r = fu.result()
            ev.add_tlc(r, "UnixIoCache: " + label)
            if r.violated:
                vd.violation("model:" + r.violated, "UnixIoCache (%s): %s violated -- design-level counterexample" % (label, r.violated),
                             {"tlc_tail": r.out[-6000:], "cfg": open(cfg).read()})
            elif not r.ok:
                die_broken("TLC failed on MC_UnixIoCache (%s): %s\n%s" % (label, r.error, r.out[-1500:]))
        # vacuity guards: with a pinned-tree behaviour switched on (or the toggle precondition dropped) TLC must find the incoherence
        for dev, fu in gfuts:
            r = fu.result()
            if r.violated not in ("Refines", "Coherent", "DurableAfterFlush", "ErrorReported", "RefinesIoChannel"):
                die_broken("vacuity guard: UnixIoCache with %s does not violate the property (%s / %s)" % (dev, r.violated, r.error))
            ev.cov.setdefault("deviating_models_rejected", []).append("%s -> %s after %d states" % (dev, r.violated, r.distinct))
    ev.cov["exhaustive"] = True


def model_check_stacked(ev, vd, tier, work):
    """StackedIo (undo_io around the unix channel): exhaustive runs with failures of the device only, of the undo file only
    (and of both in the thorough tier), and the vacuity guard (a wrapper that drops the result of the real flush / of the real write)."""
    import concurrent.futures as cf
    mod = os.path.join(SPEC, "MC_StackedIo.tla")
    HEAD_IGN = '{"setup.ublk", "setup.rd", "ix.sb1", "ix.sb2", "cl.ufile"}'
    base = dict(NG=2, K=2, D=1, InitBS=1, DevInvalSkipsClean="FALSE", DevZeroBypassesCache="FALSE", DevWriteEvictErrLost="FALSE", TogglePre="TRUE",
                SBG=1, IgnoredSites=HEAD_IGN, BlkSizes="{1}", NegSizes="{1}", ByteLens="{1}", MaxW=2, MaxFaults=0, MaxUFaults=0, MaxSave=1, ZeroOps='{"zero"}')
    inv = ["Coherent", "DurableAfterFlush", "ErrorReported", "Refines", "NoDupSlots", "LruWellFormed",
           "OuterCoherent", "OuterDurable", "OuterLogical", "OuterErrorReported", "OuterCloseClean", "OuterRetAsSpecified"]

    def cfgfile(name, over, cfgs="CfgFault"):
        c = dict(base); c.update(over)
        path = os.path.join(work, "MCS_%s.cfg" % name)
        with open(path, "w") as f:
            f.write("\n".join(["SPECIFICATION MCSpec", "CONSTANTS"] + ["  %s = %s" % kv for kv in c.items()] + ["  Cfgs <- %s" % cfgs, "VIEW MCView"]
                              + ["INVARIANT %s" % i for i in inv] + ["CHECK_DEADLOCK FALSE"]) + "\n")
        return path
    if tier == "quick":
        runs = [("the device fails, the undo file is fine; with and without handler, K=2 D=1 NG=2", dict(MaxFaults=1), "CfgFault", 900),
                ("the undo file fails, the device is fine; K=2 D=1 NG=2", dict(MaxUFaults=1), "CfgFault", 900)]
    else:
        runs = [("the device fails, the undo file is fine; with and without handler, K=2 D=1 NG=3, zeroout and discard, 2 save reads per call",
                 dict(NG=3, MaxFaults=1, MaxSave=2, ZeroOps='{"zero", "discard"}'), "CfgFault", 2400),
                ("the undo file fails, the device is fine; K=2 D=1 NG=3", dict(NG=3, MaxUFaults=1, MaxSave=2, ZeroOps='{"zero", "discard"}'), "CfgFault", 2400),
                ("device and undo file fail; K=2 D=1 NG=2", dict(MaxFaults=1, MaxUFaults=1), "CfgFault", 2400),
                ("block sizes {1,2} (write_undo_indexes really switches the block size), the device fails; K=2 D=1 NG=4",
                 dict(NG=4, BlkSizes="{1, 2}", NegSizes="{1, 3}", MaxFaults=1), "CfgPlain", 2400),      # measured: 1.7e6 states with CfgFault, 11 min on 4 workers
                ("write-through, the device fails; K=2 D=1 NG=2", dict(MaxFaults=1), "CfgWt", 1800)]
    guard = cfgfile("ign_flush", dict(MaxFaults=1, IgnoredSites=HEAD_IGN[:-1] + ', "fl.real"}'))
    guard2 = cfgfile("ign_write", dict(MaxFaults=1, IgnoredSites=HEAD_IGN[:-1] + ', "ap.write"}'))
    with cf.ThreadPoolExecutor(max_workers=4) as ex:
        futs = [(label, ex.submit(T.tlc, mod, cfgfile(hashlib.sha1(label.encode()).hexdigest()[:8], over, cfgs), workers=2, timeout=tmo, xmx="3g"))
                for label, over, cfgs, tmo in runs]
        gfuts = [("fl.real", ex.submit(T.tlc, mod, guard, workers=1, timeout=600, xmx="2g")),
                 ("ap.write", ex.submit(T.tlc, mod, guard2, workers=1, timeout=600, xmx="2g"))]
        for label, fu in futs:
            r = fu.result()
            ev.add_tlc(r, "StackedIo: " + label)
            if r.violated:
                vd.violation("model:StackedIo:" + r.violated, "StackedIo (%s): %s violated -- design-level counterexample" % (label, r.violated), {"tlc_tail": r.out[-6000:]})
            elif not r.ok:
                die_broken("TLC failed on MC_StackedIo (%s): %s\n%s" % (label, r.error, r.out[-1500:]))
        for site, fu in gfuts:
            r = fu.result()
            if r.violated not in ("OuterDurable", "OuterErrorReported", "OuterCloseClean", "OuterLogical"):
                die_broken("vacuity guard: StackedIo with the result of %s dropped does not violate the property (%s / %s)" % (site, r.violated, r.error))
            ev.cov.setdefault("deviating_models_rejected", []).append("StackedIo IgnoredSites + %s -> %s after %d states" % (site, r.violated, r.distinct))


# ------------------------------------------------------------------------------------------------ conformance
def validate_capped(behaviours, module, cfg, workdir, chunk_lines, jobs, timeout, cap=10):
    """tracecheck.validate with a bound on the work after failures: a failing chunk is continued behind its first rejected
    behaviour as ONE new chunk (not one process per behaviour), and the search stops once `cap` behaviours have been
    rejected (the verdict is a violation by then; the behaviours not looked at are not counted as validated).
    Returns dict(failures=[behaviour indices], broken=[...], distinct, generated, unchecked=n)."""
    import concurrent.futures as cf
    chunks, cur, curlen = [], [], 0
    for bi, b in enumerate(behaviours):
        if cur and curlen + len(b) > chunk_lines:
            chunks.append(cur); cur = []; curlen = 0
        cur.append(bi); curlen += len(b)
    if cur:
        chunks.append(cur)
    failures, broken, tot_d, tot_g, rnd, unchecked = [], [], 0, 0, 0, 0
    while chunks:
        rnd += 1
        tasks = []
        for ci, ch in enumerate(chunks):
            pth = os.path.join(workdir, "vc_%d_%05d.ndjson" % (rnd, ci))
            n = 0
            with open(pth, "w") as f:
                for bi in ch:
                    for ln in behaviours[bi]:
                        f.write(ln if ln.endswith("\n") else ln + "\n"); n += 1
            tasks.append((module, cfg, pth, n, timeout, False))
        with cf.ThreadPoolExecutor(max_workers=jobs) as ex:
            res = list(ex.map(tracecheck._run_chunk, tasks))
        nxt = []
        for ch, r in zip(chunks, res):
            tot_d += r["distinct"]; tot_g += r["generated"]
            if r["accepted"]:
                continue
            if r["error"] and r["violated"] is None:
                broken.append(r); continue
            m = r["matched"] if r["matched"] is not None else 0
            pos = 0; hit = None
            for bi in ch:
                if m < pos + len(behaviours[bi]):
                    hit = bi; break
                pos += len(behaviours[bi])
            if hit is None:
                hit = ch[-1]
            failures.append(hit)
            rest = ch[ch.index(hit) + 1:]
            if rest:
                nxt.append(rest)
        if len(failures) >= cap:
            unchecked = sum(len(c) for c in nxt)
            break
        chunks = nxt
    return dict(failures=failures, broken=broken, distinct=tot_d, generated=tot_g, unchecked=unchecked)


def stacked_catalogue(work):
    """Fault positions for histories on the undo_io wrapper, enumerated by the specification (Emit_StackedIo)."""
    out = os.path.join(work, "stacked_catalogue.json")
    r = T.tlc(os.path.join(SPEC, "Emit_StackedIo.tla"), os.path.join(SPEC, "Emit_StackedIo.cfg"), workers=1, timeout=300, env={"OUT": out}, xmx="1g")
    if not os.path.exists(out):
        die_broken("TLC could not enumerate the fault catalogue (Emit_StackedIo): %s\n%s" % (r.error, r.out[-1500:]))
    return json.load(open(out))


def outer_windows(tl):
    """[(op, first event number, last event number)] of the calls made on the wrapper, from the o_begin / o_end lines."""
    out, op, n0 = [], None, 0
    for ln in tl:
        if ln.startswith('{"e":"o_begin"'):
            d = json.loads(ln); op = d["op"]; n0 = d["n0"]
        elif ln.startswith('{"e":"o_end"'):
            out.append((op, n0 + 1, json.loads(ln)["n1"]))
    return out


def validate_and_report(vd, ev, behaviours, traces, work, what, literal=False):
    mod = os.path.join(SPEC, "Trace_UnixIoCache.tla")
    cfg = os.path.join(SPEC, "Trace_UnixIoCache_literal.cfg" if literal else "Trace_UnixIoCache.cfg")
    res = validate_capped(traces, mod, cfg, work, chunk_lines=2500, jobs=WORKERS, timeout=1200)
    if res["broken"]:
        die_broken("TLC failed on a trace chunk (%s): %s\n%s" % (what, res["broken"][0]["error"], res["broken"][0]["out_tail"][-1500:]))
    ev.cov["states"] += res["distinct"]; ev.cov["transitions"] += res["generated"]
    nfail = 0
    for bi in res["failures"]:
        rej, matched, inv, tail, _ = tracecheck.confirm(traces[bi], mod, cfg, work)
        if not rej:
            continue
        nfail += 1
        k = matched if matched is not None else 0
        if inv and k > 0:
            k -= 1                      # the state after line k-1 violates the invariant
        line = traces[bi][k] if k < len(traces[bi]) else "(end)"
        d = json.loads(line) if line != "(end)" else {}
        opname = (d.get("e", "?") + (":" + d["op"] if "op" in d else "")) if d else "?"
        whatv = ("invariant %s violated" % inv) if inv else "trace rejected"
        vd.violation("%s@%s" % (whatv, opname), "%s (%s) at line %d of behaviour %d: %s" % (whatv, what, k, bi, line[:400]),
                     {"ops": behaviours[bi]["ops"], "fail": behaviours[bi].get("fail"), "trace": traces[bi], "first_unmatched_line": k,
                      "tlc_tail": tail[-1500:]})
    return len(traces) - nfail - res["unchecked"]


def check_undo_lines(b, tl, what):
    """Instrumentation completeness of a history on the wrapper: every operation gives reset/open, o_begin..o_end or skip."""
    n = sum(1 for x in tl if x.startswith(('{"e":"reset"', '{"e":"open"', '{"e":"o_end"', '{"e":"skip"')))
    nb = sum(1 for x in tl if x.startswith('{"e":"o_begin"'))
    ne = sum(1 for x in tl if x.startswith('{"e":"o_end"'))
    if n != len(b["ops"]) or nb != ne:
        die_broken("instrumentation incomplete (%s): %d operations, %d accounted for, %d o_begin / %d o_end" % (what, len(b["ops"]), n, nb, ne))


def stacked_faults(ev, vd, tier, work, drv, rng):
    """Histories on the undo_io wrapper with injected write failures: one fault position per cell <<entry point, store hit
    first>> of the specification's catalogue (round-robin over the cells and the undo configurations)."""
    cat = stacked_catalogue(work)
    cells = sorted((c["op"], c["store"]) for c in cat["cells"])
    rounds, nops = (3, 18) if tier == "quick" else (24, 30)
    counts = [2, 3, 1]           # consecutive failing write-class calls: 2 = a pwrite and its write(2) retry, i.e. exactly one failed raw write
    behaviours, traces = [], []
    covered, unreached, hit = {}, {}, {}
    for r in range(rounds):
        for ci, cell in enumerate(cells):
            found = None
            for attempt in range(4):
                cfg = UNDO_ORDER[(r + ci + attempt) % len(UNDO_ORDER)]
                ops = gen_behaviour(rng, cfg, nops, favor=cell[0])
                l0, e0 = run_driver(drv, [ops], work, "s0")
                if e0:
                    vd.violation("crash", "library crashed/aborted on a legal history (undo_io): " + e0[:200], {"ops": ops}); return
                store = {0: "dev", 1: "undo"}
                cand = [n for (op, a, z) in outer_windows(l0) if op == cell[0]
                        for (n, tgt, e, fl) in run_driver.io_events
                        if a <= n <= z and store.get(tgt) == cell[1] and e in ("write", "pwrite", "pwritev", "fallocate")]
                if cand:
                    found = (ops, rng.choice(cand)); break
            key = "%s:%s" % cell
            if not found:
                unreached[key] = unreached.get(key, 0) + 1
                continue
            ops, at = found
            cnt = counts[r % len(counts)]
            l1, e1 = run_driver(drv, [ops], work, "s1", fail=(at, cnt))
            if e1:
                vd.violation("crash", "library crashed/aborted under an injected write failure (undo_io): " + e1[:200], {"ops": ops, "fail": [at, cnt]}); return
            b = {"cfg": cfg, "ops": ops, "fail": [at, cnt], "cell": key}
            check_undo_lines(b, l1, "faulty history on the wrapper")
            behaviours.append(b); traces.append(l1)
            covered[key] = covered.get(key, 0) + 1
            st = sorted({("dev", "undo")[tgt] for (n, tgt, e, fl) in run_driver.io_events if fl})
            hk = "+".join(st) + " fails" if st else "nothing failed"
            hit[hk] = hit.get(hk, 0) + 1
    ev.cov["stacked_fault_catalogue"] = {"cells": len(cells), "nested_call_sites": len(cat["rsites"]) + len(cat["usites"]), "ignored_sites": sorted(cat["ignored"])}
    ev.cov["stacked_fault_behaviours_per_cell"] = covered
    ev.cov["stacked_fault_cells_without_a_write_in_4_histories"] = sorted(k for k in unreached if k not in covered)
    ev.cov["stacked_fault_runs_by_store_that_failed"] = hit
    return behaviours, traces


def conformance_cache(ev, vd, tier, work, drv):
    rng = random.Random(seed())
    nplain, nfault, nops = (420, 150, 36) if tier == "quick" else (12000, 3000, 45)
    # --- without faults: one driver process
    plain = []
    for i in range(nplain):
        cfg = PLAIN_ORDER[i % len(PLAIN_ORDER)]
        plain.append({"cfg": cfg, "ops": gen_behaviour(rng, cfg, nops)})
    lines, err = run_driver(drv, [b["ops"] for b in plain], work, "plain")
    if err:
        bad = None
        for i, b in enumerate(plain):
            l2, e2 = run_driver(drv, [b["ops"]], work, "bisect")
            if e2:
                bad = (i, b, e2); break
        if bad:
            vd.violation("crash", "library crashed/aborted on a legal history: " + bad[2][:200], {"ops": bad[1]["ops"]})
            return
        die_broken(err)
    tb = tracecheck.split_behaviours(lines, lambda s: s.startswith('{"e":"reset"'))
    if len(tb) != len(plain):
        die_broken("instrumentation incomplete: %d behaviours logged, %d issued" % (len(tb), len(plain)))
    for i, (b, tl) in enumerate(zip(plain, tb)):
        if CONFIGS[b["cfg"]]["undo"]:
            check_undo_lines(b, tl, "behaviour %d" % i)
        elif len(tl) != len(b["ops"]):
            die_broken("instrumentation incomplete: behaviour %d logged %d of %d lines" % (i, len(tl), len(b["ops"])))
    # --- with injected device write failures: one process per behaviour (iotrace.so counts per process)
    faulty, ftraces = [], []
    for i in range(nfault):
        cfg = FAULT_ORDER[i % len(FAULT_ORDER)]
        ops = gen_behaviour(rng, cfg, nops)
        l0, e0 = run_driver(drv, [ops], work, "f0")
        if e0:
            vd.violation("crash", "library crashed/aborted on a legal history: " + e0[:200], {"ops": ops}); return
        nev = count_write_events(l0)
        if nev < 2:
            continue
        at = rng.randint(2, nev)            # event 1 is the fsync of unix_open
        cnt = rng.choice([1, 2, 2, 2, 3, 4])
        l1, e1 = run_driver(drv, [ops], work, "f1", fail=(at, cnt))
        if e1:
            vd.violation("crash", "library crashed/aborted under an injected write failure: " + e1[:200], {"ops": ops, "fail": [at, cnt]}); return
        faulty.append({"cfg": cfg, "ops": ops, "fail": [at, cnt]}); ftraces.append(l1)
        if len(l1) != len(ops):
            die_broken("instrumentation incomplete: faulty behaviour %d logged %d of %d lines" % (i, len(l1), len(ops)))
    # --- histories on the undo_io wrapper with failures at the device / at the undo file
    sf = stacked_faults(ev, vd, tier, work, drv, random.Random(seed() + 4711))
    if sf is None:
        return
    sbeh, straces = sf
    ok1 = validate_and_report(vd, ev, plain, tb, work, "no faults")
    ok2 = validate_and_report(vd, ev, faulty, ftraces, work, "injected write failures")
    ok3 = validate_and_report(vd, ev, sbeh, straces, work, "undo_io wrapper, injected write failures")
    ev.cov["traces_validated_against_impl"] += ok1 + ok2 + ok3
    ev.cov["evaluations"] += len(tb) + len(ftraces) + len(straces)
    ev.cov["trace_lines_validated"] = sum(len(t) for t in tb) + sum(len(t) for t in ftraces) + sum(len(t) for t in straces)
    nrep = 0
    fkinds = {}
    for t in ftraces:
        for ln in t:
            d = json.loads(ln)
            if any(x[0] == 1 and x[3] == 1 for x in d.get("ev", [])):
                nrep += 1
                k = d["e"] + (":handler" if d["hb"] else ":retval" if d["ret"] else ":retried")
                fkinds[k] = fkinds.get(k, 0) + 1
    ev.cov["calls_with_failed_device_write_attempts"] = nrep
    ev.cov["failed_attempts_by_call_and_report"] = fkinds
    # outer calls of the wrapper that met a failing nested call, by entry point and by how the caller learnt of it
    okinds = {}
    for t in straces:
        cur = None
        for ln in t:
            d = json.loads(ln)
            if d["e"] == "o_begin":
                cur = {"op": d["op"], "dev": False, "undo": False, "hb": False}
            elif cur is not None and d["e"] == "o_end":
                if cur["dev"] or cur["undo"]:
                    k = "%s:%s:%s" % (cur["op"], "+".join(x for x in ("dev", "undo") if cur[x]), "retval" if d["ret"] else "handler" if cur["hb"] else "retried")
                    okinds[k] = okinds.get(k, 0) + 1
                cur = None
            elif cur is not None and d["e"].startswith("u_"):
                cur["undo"] = cur["undo"] or (d["ret"] != 0 and d["e"] != "u_read")
            elif cur is not None:
                cur["dev"] = cur["dev"] or any(x[0] == 1 and x[3] == 1 for x in d.get("ev", []))
                cur["hb"] = cur["hb"] or bool(d.get("hb"))
    ev.cov["wrapper_calls_with_failed_nested_writes_by_entry_store_report"] = okinds
    by_cfg = {}
    for b, tl in list(zip(plain, tb)) + list(zip(faulty, ftraces)) + list(zip(sbeh, straces)):
        by_cfg[b["cfg"]] = by_cfg.get(b["cfg"], 0) + 1
        if nontrivial(tl):
            ev.nontrivial(hashlib.sha1(("\n".join(b["ops"]) + str(b.get("fail"))).encode()).hexdigest())
    ev.cov["behaviours_per_configuration"] = by_cfg
    ev.sample({"configuration": plain[0]["cfg"], "ops": plain[0]["ops"][:14], "first_trace_lines": [json.loads(x) for x in tb[0][:3]]})
    if faulty:
        ev.sample({"configuration": faulty[0]["cfg"], "fail_write_nth_count": faulty[0]["fail"], "ops": faulty[0]["ops"][:14]})
    if sbeh:
        ev.sample({"configuration": sbeh[0]["cfg"], "fault_cell": sbeh[0]["cell"], "fail_write_nth_count": sbeh[0]["fail"], "ops": sbeh[0]["ops"][:14]})


# ------------------------------------------------------------------------------------------------ thread part
BL_INV = ["PartitionExact", "MutualExclusion", "LockHeld", "LoadedOnce", "ResultScheduleIndependent"]


def bl_cfg(work, name, spec, consts, invariants, props=()):
    path = os.path.join(work, "BL_%s.cfg" % name)
    L = ["SPECIFICATION %s" % spec, "CONSTANTS"] + ["  %s = %s" % kv for kv in consts.items()]
    L += ["INVARIANT %s" % i for i in invariants] + ["PROPERTY %s" % q for q in props] + ["CHECK_DEADLOCK FALSE"]
    with open(path, "w") as f:
        f.write("\n".join(L) + "\n")
    return path


def setof(xs):
    return "{" + ", ".join(str(x) for x in xs) + "}"


def model_check_threads(ev, vd, tier, work):
    import concurrent.futures as cf
    mod = os.path.join(SPEC, "BitmapLoad.tla")
    base = dict(MaxT=3, UseLock="TRUE", DevJoinLastWins="FALSE", Gs="{1, 2, 4, 5, 6}", Ns="{1, 2, 3}", Flexes="{1, 2}", Kinds="{1, 2}", BadSets="{{}, {1}}",
                FailModes='{"none"}')
    inv = BL_INV + ["FailsIffThreadFailed", "NeverLoadsFailing"]
    jobs = [("all interleavings, every bitmap loads, G in {1,2,4,5,6}, n <= 3, flex in {1,2}, 1-2 bitmap kinds, fair termination",
             bl_cfg(work, "mc", "FairSpec", base, inv, ["Termination"]), dict(workers=2, timeout=1200, xmx="3g"))]
    # loads that meet an unloadable bitmap (bad checksum / unreadable block): one damaged pair at the first and the last group of the
    # first, a middle and the last thread (FailPos), and two damaged pairs (two threads fail / one thread meets two)
    if tier == "quick":
        fl = dict(base, Gs="{3, 5}", Kinds="{2}", BadSets="{{}}", FailModes='{"one", "two"}')
        flabel = "G in {3,5}, n <= 3, flex in {1,2}, both bitmap kinds"
    else:
        fl = dict(base, Gs="{2, 4, 5, 6}", FailModes='{"one", "two"}')
        flabel = "G in {2,4,5,6}, n <= 3, flex in {1,2}, 1-2 bitmap kinds, with and without a tail problem"
    jobs.append(("all interleavings of loads with one or two unloadable bitmaps (a failing reader thread, join loop, cleanup), " + flabel,
                 bl_cfg(work, "mcfail", "FairSpec", fl, inv, ["Termination"]), dict(workers=2, timeout=2400, xmx="3g")))
    if tier == "thorough":
        big = dict(base, MaxT=4, Gs="{8, 9}", Ns="{4}", Kinds="{1}", BadSets="{{}, {3}}", FailModes='{"none", "one"}')
        jobs.append(("all interleavings, G in {8,9}, 4 threads, flex in {1,2}, no or one unloadable bitmap", bl_cfg(work, "mcbig", "FairSpec", big, inv, ["Termination"]),
                     dict(workers=4, timeout=2400, xmx="4g")))
        pg = list(range(1, 41)) + [47, 48, 49, 63, 64, 65, 96, 127, 128, 129, 200, 255, 256, 257]
        pn = list(range(1, 18)) + [24, 31, 32, 33, 48, 64]
        pf = [1, 2, 4, 8, 16, 32, 64]
    else:
        pg = list(range(1, 41)) + [64, 65, 129]
        pn = [1, 2, 3, 4, 5, 7, 8, 16, 17, 32]
        pf = [1, 2, 4, 16]
    part = dict(base, MaxT=64, Gs=setof(pg), Ns=setof(pn), Flexes=setof(pf), Kinds="{1}", BadSets="{{}}")
    jobs.append(("partition formula (incl. flex_bg rounding and fall-backs) over %d parameter tuples" % (len(pg) * len(pn) * len(pf) * 2),
                 bl_cfg(work, "part", "PartOnly", part, ["PartitionExact"]), dict(workers=2, timeout=1800, xmx="3g")))
    nolock = dict(base); nolock["UseLock"] = "FALSE"
    lastwins = dict(base, Gs="{2, 4, 5}", Kinds="{2}", BadSets="{{}}", FailModes='{"one"}', DevJoinLastWins="TRUE")
    with cf.ThreadPoolExecutor(max_workers=4) as ex:
        futs = [(label, cfg, ex.submit(T.tlc, mod, cfg, **kw)) for label, cfg, kw in jobs]
        gf = ex.submit(T.tlc, mod, bl_cfg(work, "nolock", "Spec", nolock, inv), workers=1, timeout=600, xmx="2g")
        gj = ex.submit(T.tlc, mod, bl_cfg(work, "lastwins", "Spec", lastwins, inv), workers=1, timeout=600, xmx="2g")
        for label, cfg, fu in futs:
            r = fu.result()
            ev.add_tlc(r, "BitmapLoad: " + label)
            if r.violated:
                vd.violation("model:BitmapLoad:" + r.violated, "BitmapLoad (%s): %s violated" % (label, r.violated), {"tlc_tail": r.out[-6000:]})
            elif not r.ok:
                die_broken("TLC failed on BitmapLoad (%s): %s\n%s" % (label, r.error, r.out[-1500:]))
        r = gf.result()
        if r.violated not in ("MutualExclusion", "LoadedOnce", "ResultScheduleIndependent", "LockHeld"):
            die_broken("vacuity guard: BitmapLoad without the lock does not violate MutualExclusion (%s / %s)" % (r.violated, r.error))
        ev.cov.setdefault("deviating_models_rejected", []).append("BitmapLoad UseLock=FALSE -> %s after %d states" % (r.violated, r.distinct))
        r = gj.result()
        if r.violated not in ("FailsIffThreadFailed", "ResultScheduleIndependent"):
            die_broken("vacuity guard: BitmapLoad with a join loop that keeps the last result does not violate FailsIffThreadFailed (%s / %s)" % (r.violated, r.error))
        ev.cov.setdefault("deviating_models_rejected", []).append("BitmapLoad DevJoinLastWins=TRUE -> %s after %d states" % (r.violated, r.distinct))


def damage_catalogue(work, geoms):
    """The damaged-image universe, enumerated by the specification (Emit_BitmapLoad): per geometry the groups of FailPos with the
    position class (first / middle / last thread) of their owner for every thread count of THREADS, and the damage kinds."""
    gp = os.path.join(work, "bl_geom.ndjson"); out = os.path.join(work, "bl_catalogue.json")
    with open(gp, "w") as f:
        for g in geoms:
            f.write(json.dumps({"G": g[0], "flex": g[1], "hasflex": g[2]}) + "\n")
    consts = dict(MaxT=16, UseLock="TRUE", DevJoinLastWins="FALSE", Gs="{1}", Ns="{" + THREADS + "}", Flexes="{1}", Kinds="{1}", BadSets="{{}}",
                  FailModes='{"none"}')
    cfg = os.path.join(work, "BL_emit.cfg")
    with open(cfg, "w") as f:
        f.write("INIT EInit\nNEXT ENext\nCONSTANTS\n" + "".join("  %s = %s\n" % kv for kv in consts.items()) + "CHECK_DEADLOCK FALSE\n")
    r = T.tlc(os.path.join(SPEC, "Emit_BitmapLoad.tla"), cfg, workers=1, timeout=300, env={"GEOM": gp, "OUT": out}, xmx="1g")
    if not os.path.exists(out):
        die_broken("TLC could not enumerate the damaged-image catalogue (Emit_BitmapLoad): %s\n%s" % (r.error, r.out[-1500:]))
    return json.load(open(out))


IMG_VARIANTS = [
    ("plain", ["-O", "^has_journal,^resize_inode,^flex_bg,^uninit_bg"], 256),
    ("flex2_uninit", ["-O", "^has_journal,^resize_inode,flex_bg,uninit_bg", "-G", "2"], 256),
    ("flex4_csum", ["-O", "^has_journal,^resize_inode,flex_bg,metadata_csum,extent", "-G", "4"], 256),
    ("bigalloc", ["-O", "^has_journal,^resize_inode,bigalloc,extent,^flex_bg", "-C", "4096"], 1024),
]
THREADS = "2,3,4,7,16"


def thread_overlap(tl):
    """>= 2 threads really overlapping in time: the sequence of Enter events switches between threads more often than
    a one-after-the-other execution would."""
    seq = [json.loads(x)["tid"] for x in tl if x.startswith('{"e":"Enter"')]
    sw = sum(1 for a, b in zip(seq, seq[1:]) if a != b)
    return len(set(seq)) >= 2 and sw >= len(set(seq))


def make_image(b, env, imgdir, vname, opts, bpg, g):
    """mke2fs an image with g groups; returns (path, None) or (None, reason)."""
    img = os.path.join(imgdir, "g%d_%s.img" % (g, vname))
    blocks = bpg * g + 1 if bpg == 256 else bpg * g
    cmd = [os.path.join(b, "misc", "mke2fs"), "-q", "-F", "-o", "Linux", "-b", "1024", "-g", "256", "-N", str(16 * g)] + opts + [img, str(blocks)]
    p = subprocess.run(cmd, env=env, stdout=subprocess.PIPE, stderr=subprocess.PIPE, timeout=120)
    if p.returncode != 0:
        return None, "%s G=%d: mke2fs refused (%s)" % (vname, g, p.stderr.decode().strip().splitlines()[-1][:80] if p.stderr.strip() else p.returncode)
    return img, None


def run_bmload(vd, drv, env, work, img, y, reps, vname, g, bad=None, damage=()):
    """One bmload process on (a scratch copy of) img; returns the list of behaviours (one per load), None after a violation
    that needs no TLC (hang, crash)."""
    tr = os.path.join(work, "bl_trace.ndjson")
    if os.path.exists(tr):
        os.unlink(tr)
    use = img
    if damage:
        use = os.path.join(work, "bl_damaged.img")
        shutil.copyfile(img, use)
    e2 = dict(env); e2["VERIF_TRACE"] = tr; e2["VERIF_YIELD"] = str(y)
    cmd = [drv, use, tr, THREADS, str(reps)] + (["badtail=%d" % bad] if bad is not None else []) + ["damage=%s:%d" % (k, dg) for k, dg in damage]
    what = "%s G=%d yield=%d%s" % (vname, g, y, (" damage=" + ",".join("%s:%d" % d for d in damage)) if damage else "")
    try:
        p = subprocess.run(cmd, env=e2, stdout=subprocess.PIPE, stderr=subprocess.PIPE, timeout=300)
    except subprocess.TimeoutExpired:
        vd.violation("threads:hang", "threaded bitmap load did not finish within 300 s (%s)" % what,
                     {"image": vname, "groups": g, "yield": y, "badtail": bad, "damage": [list(d) for d in damage]})
        return None
    if p.returncode not in (0, 1):
        if p.returncode < 0:
            vd.violation("threads:crash", "bmload killed by signal %d (%s)" % (-p.returncode, what),
                         {"image": vname, "groups": g, "yield": y, "badtail": bad, "damage": [list(d) for d in damage]})
            return None
        die_broken("bmload failed (%s): %s" % (what, p.stderr.decode()[-300:]))
    lines = open(tr).read().splitlines()
    tb = tracecheck.split_behaviours(lines, lambda s: s.startswith('{"e":"Load"'))
    want = 1 + reps * len(THREADS.split(","))
    if len(tb) != want or any(not t[0].startswith('{"e":"Load"') or not t[-1].startswith('{"e":"Done"') for t in tb):
        die_broken("instrumentation incomplete: %d of %d loads logged completely (%s)" % (len(tb), want, what))
    return tb


def fail_cell(t):
    """(position class of the thread that owns the first unloadable bitmap, error class) of a threaded load, None otherwise."""
    ld = json.loads(t[0])
    if not ld["fail"]:
        return None
    starts = sorted((json.loads(x)["first"], json.loads(x)["last"]) for x in t if x.startswith('{"e":"ThStart"'))
    if len(starts) < 2:
        return None
    g, k, code = min(ld["fail"])
    for i, (a, z) in enumerate(starts):
        if a <= g <= z:
            return ("first" if i == 0 else "last" if i == len(starts) - 1 else "middle", code)
    return None


def validate_threads(vd, ev, behaviours, meta, work):
    mod = os.path.join(SPEC, "Trace_BitmapLoad.tla"); cfg = os.path.join(SPEC, "Trace_BitmapLoad.cfg")
    res = validate_capped(behaviours, mod, cfg, work, chunk_lines=4000, jobs=WORKERS, timeout=1200)
    if res["broken"]:
        die_broken("TLC failed on a BitmapLoad trace chunk: %s\n%s" % (res["broken"][0]["error"], res["broken"][0]["out_tail"][-1500:]))
    ev.cov["states"] += res["distinct"]; ev.cov["transitions"] += res["generated"]
    nfail = res["unchecked"]
    for bi in res["failures"]:
        rej, matched, inv, tail, _ = tracecheck.confirm(behaviours[bi], mod, cfg, work)
        if not rej:
            continue
        nfail += 1
        k = matched if matched is not None else 0
        if inv and k > 0:
            k -= 1
        line = behaviours[bi][k] if k < len(behaviours[bi]) else "(end)"
        opname = json.loads(line)["e"] if line != "(end)" else "?"
        whatv = ("invariant %s violated" % inv) if inv else "trace rejected"
        vd.violation("threads:%s@%s" % (whatv, opname), "threaded bitmap load: %s at event %d (%s) -- %s" % (whatv, k, line[:200], json.dumps(meta[bi])[:300]),
                     {"meta": meta[bi], "trace": behaviours[bi], "first_unmatched_line": k, "tlc_tail": tail[-1500:]})
    return nfail


def conformance_threads(ev, vd, tier, work, b, drv):
    rng = random.Random(seed() + 17)
    env = tool_env(b)
    groups = [1, 2, 3, 4, 5, 7, 9, 12, 16, 25, 40] if tier == "quick" else list(range(1, 41))
    yields = [0, 300] if tier == "quick" else [0, 3, 40, 200, 600, 2000]
    reps = 1 if tier == "quick" else 3
    imgdir = os.path.join(work, "img"); os.makedirs(imgdir, exist_ok=True)
    behaviours, meta = [], []
    skipped = []
    images = []                 # (vname, opts, bpg, csum, g, path, geometry)
    # --- undamaged images (and a tail problem in about a third of them)
    for g in groups:
        for vname, opts, bpg in IMG_VARIANTS:
            img, why = make_image(b, env, imgdir, vname, opts, bpg, g)
            if img is None:
                skipped.append(why); continue
            bad = None
            if g >= 2 and rng.random() < 0.3:
                bad = rng.randrange(g)
            geo = None
            for y in yields:
                tb = run_bmload(vd, drv, env, work, img, y, reps, vname, g, bad=bad)
                if tb is None:
                    continue
                ld = json.loads(tb[0][0]); geo = (ld["G"], ld["flex"], ld["hasflex"])
                for t in tb:
                    behaviours.append(t)
                    meta.append({"image": vname, "groups": g, "yield": y, "badtail": bad, "damage": [], "mke2fs_opts": opts, "load": json.loads(t[0])})
            if geo and bad is None:
                images.append((vname, opts, bpg, "metadata_csum" in " ".join(opts), g, img, geo))
            else:
                os.unlink(img)
    if not behaviours:
        die_broken("no image could be built for the threaded bitmap loading part")
    # --- damaged images: the universe is the specification's catalogue (Emit_BitmapLoad): damage kind x group of FailPos, by position class
    cat = damage_catalogue(work, sorted({im[6] for im in images}))
    pos_of = {(e["G"], e["flex"], e["hasflex"]): e["pos"] for e in cat["geo"]}
    kinds_all = sorted(cat["kinds"]); kinds_csum = set(cat["csum_kinds"])
    plan = []                   # (image tuple, damage list, yield)
    rot = rng.randrange(100)
    for im in images:
        cls = {}
        for e in pos_of.get(im[6], []):
            cls.setdefault(e["class"], set()).add(e["g"])
        kinds = [k for k in kinds_all if im[3] or k not in kinds_csum]
        if im[3]:
            kinds = kinds + [k for k in kinds if k in kinds_csum] * 2       # checksum damage needs metadata_csum: use it where it is possible
        if not cls:
            continue
        if tier == "quick":
            want = [c for c in ("first", "middle", "last") if c in cls]
            if im[4] > 16:                      # the big images cost the most trace lines: one position class each (rotating)
                rot += 1
                want = [want[rot % len(want)]]
            for c in want:
                rot += 1
                plan.append((im, [(kinds[rot % len(kinds)], rng.choice(sorted(cls[c])))], yields[rot % len(yields)]))
            if "first" in cls and "last" in cls:
                rot += 1
                plan.append((im, [(kinds[rot % len(kinds)], rng.choice(sorted(cls["last"]))), (kinds[(rot // 2) % len(kinds)], rng.choice(sorted(cls["first"])))],
                             yields[rot % len(yields)]))
        elif im[4] <= 16 or im[4] % 4 == 0:
            for c in sorted(cls):
                for k in sorted(set(kinds)):
                    rot += 1
                    plan.append((im, [(k, sorted(cls[c])[rot % len(cls[c])])], yields[rot % len(yields)]))
            if "first" in cls and "last" in cls:
                for k in sorted(set(kinds)):
                    rot += 1
                    plan.append((im, [(k, max(cls["last"])), (kinds[rot % len(kinds)], min(cls["first"]))], yields[rot % len(yields)]))
    ndam = 0
    for im, damage, y in plan:
        tb = run_bmload(vd, drv, env, work, im[5], y, 1, im[0], im[4], damage=damage)
        if tb is None:
            continue
        ndam += 1
        for t in tb:
            behaviours.append(t)
            meta.append({"image": im[0], "groups": im[4], "yield": y, "badtail": None, "damage": [list(d) for d in damage], "mke2fs_opts": im[1], "load": json.loads(t[0])})
    nfail = validate_threads(vd, ev, behaviours, meta, work)
    ev.cov["traces_validated_against_impl"] += len(behaviours) - nfail
    ev.cov["evaluations"] += len(behaviours)
    ev.cov["threaded_loads"] = sum(1 for m in meta if m["load"]["nreq"] > 1)
    ev.cov["thread_events_validated"] = sum(len(t) for t in behaviours)
    nover = 0
    cells = {}
    for t, m in zip(behaviours, meta):
        fc = fail_cell(t)
        if fc:
            key = "%s thread:error class %d" % fc
            cells[key] = cells.get(key, 0) + 1
        if thread_overlap(t):
            nover += 1
            ev.nontrivial("thr:%s:%d:%d:%d:%s" % (m["image"], m["groups"], m["load"]["nreq"], m["yield"], hashlib.sha1("".join(t).encode()).hexdigest()[:12]))
    ev.cov["threaded_loads_with_overlapping_threads"] = nover
    ev.cov["damaged_image_runs"] = ndam
    ev.cov["loads_of_damaged_images"] = sum(1 for m in meta if m["load"]["fail"])
    ev.cov["threaded_failing_loads_by_owner_position_and_error"] = cells
    ev.cov["damage_catalogue"] = {"kinds": kinds_all, "geometries": len(cat["geo"]), "positions": sum(len(e["pos"]) for e in cat["geo"])}
    ev.cov["images_skipped"] = skipped
    i0 = next((i for i, m in enumerate(meta) if m["load"]["nreq"] == 3 and m["groups"] >= 7), 0)
    ev.sample({"threaded_load": meta[i0], "first_events": [json.loads(x) for x in behaviours[i0][:8]]})
    i1 = next((i for i, m in enumerate(meta) if m["load"]["nreq"] == 3 and m["load"]["fail"] and m["groups"] >= 7), None)
    if i1 is not None:
        ev.sample({"threaded_load_of_a_damaged_image": meta[i1], "last_events": [json.loads(x) for x in behaviours[i1][-6:]]})


def run(tier):
    ev = Evidence(PID, tier, "model_checking")
    vd = Verdict(PID, ev)
    work = fast_tmp()
    try:
        try:
            b = build.build()
            drv = build.driver(b, "iodrv")
        except RuntimeError as e:
            die_broken(str(e))
        if not os.path.exists(IOTRACE):
            die_broken("harness/iotrace.so missing (make -C /verif/harness)")
        try:
            bml = build.driver(b, "bmload")
        except RuntimeError as e:
            die_broken(str(e))
        model_check_cache(ev, vd, tier, work)
        model_check_stacked(ev, vd, tier, work)
        conformance_cache(ev, vd, tier, work, drv)
        model_check_threads(ev, vd, tier, work)
        conformance_threads(ev, vd, tier, work, b, bml)
        ev.cov["rule"] = ("cache: seeded histories of ~%d calls over 10 channel configurations on a 24 KiB backing file (granule 512 B; block sizes 1k/2k/4k; "
                          "counts 1..6 and byte-count form; write_byte, zeroout, discard, readahead, flush, close/reopen, cache off/on around read-only phases), "
                          "about a quarter of them with 1..4 consecutive failing write(2)/pwrite(2) calls; non-trivial = >=1 dirty eviction and >=1 cache-bypassing "
                          "call overlapping a cached block; distinct by operation sequence + fault.  undo_io wrapper: histories of ~%d calls with one fault "
                          "position per cell <<entry point, store hit first>> of StackedIo!FaultCells (Emit_StackedIo), 1-3 consecutive failing write-class calls.  "
                          "threads: images of 1..40 groups x 4 feature variants x thread counts 2,3,4,7,16 under schedule perturbation, plus damaged images from "
                          "BitmapLoad!FailPos x DamageKinds (Emit_BitmapLoad); non-trivial = >= 2 threads really overlapping in time") % (
                          36 if tier == "quick" else 45, 18 if tier == "quick" else 30)
        ev.cov["checker_cmd"] = ("tlc -config MC_*.cfg spec/MC_UnixIoCache.tla; TRACE=<chunk> tlc -workers 1 -config spec/Trace_UnixIoCache.cfg spec/Trace_UnixIoCache.tla "
                                 "(POSTCONDITION TraceAccepted; INVARIANT Coherent DurableAfterFlush ErrorReported Refines NoDupSlots LruWellFormed "
                                 "OuterCoherent OuterDurable OuterLogical OuterErrorReported OuterCloseClean OuterRetAsSpecified; PROPERTY RefinesIo); "
                                 "tlc -config MCS_*.cfg spec/MC_StackedIo.tla; tlc spec/BitmapLoad.tla; TRACE=<chunk> tlc -workers 1 -config spec/Trace_BitmapLoad.cfg spec/Trace_BitmapLoad.tla")
        ev.assumptions = [
            "offsets and sizes are multiples of 512 bytes and stay inside the backing file (short reads at end of file are not part of the universe)",
            "content-changing calls are not issued while the cache is switched off by set_option(cache=off) after it held entries; the only in-tree user (rw_bitmaps.c) "
            "brackets a read-only phase with the toggle (DESIGN section 7 row 3 is treated as outside the property's configurations; TLC shows the incoherence without this precondition)",
            "a failed device write is injected as EIO without partial effect (iotrace.so); after a reported failure the content of the affected granules is unspecified until rewritten",
            "the channel is used by one thread in the cache part; CHANNEL_FLAGS_WRITETHROUGH, the write_error handler and the offset are set once right after open",
            "undo_io wrapper: the content of the undo file is property C12's subject, here a call on the undo file's channel is an event with a return code; "
            "after a set_blksize on the undo channel that returned an error (the wrapper then has a block size the real channel does not have) the caller sets the "
            "block size again before it addresses blocks; a device write attempt that failed and was repeated successfully later in the same call of the wrapper "
            "is not a failed write of that call",
            "threads: a damaged group gets its BLOCK_UNINIT / INODE_UNINIT flags cleared (and its bitmaps written) first so that the loader reads them; an unreadable bitmap "
            "block is produced by a pass-through I/O manager that refuses that block (EIO) or by truncating the image; the tail-problem flags are compared with the "
            "single-threaded load by the driver",
            "regular backing file: zeroout/discard use fallocate (ZERO_RANGE/PUNCH_HOLE), discard zeroes data (CHANNEL_FLAGS_DISCARD_ZEROES); block devices (BLKDISCARD, BLKROGET) are not reachable in the sandbox",
        ]
        return vd.finish()
    finally:
        shutil.rmtree(work, ignore_errors=True)


def replay(path):
    d = json.load(open(path))
    rp = d["replay"]
    work = fast_tmp()
    try:
        b = build.build()
        if "meta" in rp:                     # thread part: rebuild the image, repeat the loads
            m = rp["meta"]; env = tool_env(b)
            v = next((x for x in IMG_VARIANTS if x[0] == m["image"]), None)
            if v is None:
                print("unknown image variant in the replay artefact"); return 1
            imgdir = os.path.join(work, "img"); os.makedirs(imgdir, exist_ok=True)
            img, why = make_image(b, env, imgdir, v[0], v[1], v[2], m["groups"])
            if img is None:
                print("cannot rebuild the image: %s" % why); return 1
            ev = Evidence(PID, "replay", "model_checking"); vd = Verdict(PID, ev)
            tb = run_bmload(vd, build.driver(b, "bmload"), env, work, img, m.get("yield", 0), 1, v[0], m["groups"], bad=m.get("badtail"),
                            damage=[tuple(x) for x in m.get("damage", [])])
            if tb is None:
                print("VIOLATION property=%s replay=%s (hang or crash)" % (PID, path)); return 1
            mod = os.path.join(SPEC, "Trace_BitmapLoad.tla"); cfg = os.path.join(SPEC, "Trace_BitmapLoad.cfg")
            for t in tb:
                rej, matched, inv, tail, _ = tracecheck.confirm(t, mod, cfg, work)
                if rej:
                    print("first unmatched line %s: %s" % (matched, t[matched][:300] if matched is not None and matched < len(t) else "?"))
                    print("VIOLATION property=%s replay=%s" % (PID, path)); return 1
            print("replay accepted"); return 0
        drv = build.driver(b, "iodrv")
        if "ops" not in rp:
            print("replay artefact has no operation history (model-level finding): see tlc_tail"); return 1
        fail = tuple(rp["fail"]) if rp.get("fail") else None
        lines, err = run_driver(drv, [rp["ops"]], work, "replay", fail=fail)
        if err:
            print("VIOLATION property=%s replay=%s (%s)" % (PID, path, err)); return 1
        rej, matched, inv, tail, _ = tracecheck.confirm(lines, os.path.join(SPEC, "Trace_UnixIoCache.tla"), os.path.join(SPEC, "Trace_UnixIoCache.cfg"), work)
        if rej:
            print("first unmatched line %s: %s" % (matched, lines[matched][:600] if matched is not None and matched < len(lines) else "?"))
            print(tail[-1200:])
            print("VIOLATION property=%s replay=%s" % (PID, path)); return 1
        print("replay accepted"); return 0
    finally:
        shutil.rmtree(work, ignore_errors=True)
