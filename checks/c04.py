"""C04 -- journal recovery can be interrupted anywhere and re-run.

(1) TLC model-checks spec/JournalRun.tla exhaustively on small constants: the recovery front-end (e2fsck/journal.c,
    debugfs/journal.c around recovery.c) over unix_io's write-back cache (nondeterministic write-back) and a device with a
    volatile write cache (any subset of the writes issued since the last completed fsync survives a crash), for EVERY replay
    plan of the bound, every crash point, every lost-write subset, with the re-run (RunAgain) modelled as the same front-end
    started on the crash image (and crashing again).  Invariants: Idempotent / IdempotentSubsets (RunAgain(crash image) =
    Final), NeverEmptyBeforeDurable, KeepsRequesting, FlagAfterEmpty(+Crash), ProductFormExact, Done.  Vacuity guard: the three
    wrong orderings (no sync_blockdev in jbd2_journal_recover; journal released before the flush; flush without fsync) must
    each be rejected by TLC.
(2) Conformance, trace direction: journals from C03's generator (gen/jbd2sample.py, encoded by gen/jbd2write.py) and the
    repository's j_* images are recovered by the real front-ends under LD_PRELOAD=harness/iotrace.so; the recorded
    pwrite/fsync stream is classified by location against a shadow image and validated by TLC against Trace_JournalRun
    (every line a device-level step of JournalRun, every invariant after every line = on every crash image of every prefix).
(3) Conformance, fault enumeration on the real code: for crash points n and lost-write subsets of the unflushed suffix the
    image is rebuilt from the recorded payloads (and, for the subset "everything issued so far", cross-checked against a
    real process killed by iotrace's crash-after-n), the same front-end is run again, and a `crash` line carries what it left.
    TLC accepts the line only if the rebuilt image is the crash image the spec derives and the re-run result equals
    RunAgainOf(image) = Final with the journal empty, the flag clear and no other block differing.
(4) TWO DEVICES: the journal location (ExtChoices of the spec: internal journal inode / journal device of its own, mke2fs -O journal_dev,
    attached to the filesystem by UUID as ext2fs_add_journal_device does) is a dimension of the model AND of the conformance universe.
    With an external journal both image files are recorded under iotrace (two targets), every write / fsync line carries its device,
    TLC makes only the fsynced device's pending writes durable, and the crash images are enumerated over the product of what the
    filesystem device and the journal device may each have kept.  e2fsck finds the journal with -j, debugfs jr through libblkid
    (BLKID_FILE cache naming the journal image)."""
import os, sys, json, random, shutil, struct, gzip, hashlib, itertools, time, threading, concurrent.futures as cf
from common import VERIF, fast_tmp, seed, die_broken, NPROC, tool_env
from common import run as sh
import build, tlc as T, tracecheck
from evidence import Evidence, Verdict
import jbd2write as J
import jbd2sample as S
import c03

PID = "C04"
# named deviations of the pinned tree that are ENABLED in the conformance cfg (fixes/C04_known_findings.txt)
CONF_DEVS = dict(DevSbPiecemeal="TRUE", DevErrorLostOnCrash="TRUE")
SPEC = os.path.join(VERIF, "spec")
IOTRACE = os.path.join(VERIF, "harness", "iotrace.so")
FRONTENDS = c03.FRONTENDS
JOBS = 4
MAX_CONFIRM = 8
SB_OFF = 1024
FLAG_OFF = SB_OFF + 96           # s_feature_incompat (le32); INCOMPAT_RECOVER = 0x4 lives in its lowest byte
JNL_UUID = "11111111-2222-3333-4444-555555555555"      # UUID of the journal device images
FS_UUID = "01234567-89ab-cdef-0123-456789abcdef"
# external-journal profiles: (base profile whose mke2fs options are used with ^has_journal, journal device size in blocks)
EXT_PROFILES = {"ext4_1k_xj": ("ext4_1k", 1024), "ext4_4k_csum64_xj": ("ext4_4k_csum64", 1024)}

# ---- fields the property does not cover (block-exact comparison of the re-run result with the uninterrupted result) ----
# Tools run with fixed clocks (E2FSCK_TIME, E2FSPROGS_FAKE_TIME), so the check/mount time stamps and mount counts come out equal and ARE
# compared.  s_wtime is the time of the last superblock WRITE: a re-run that finds nothing left to do does not write the superblock
# at all, so s_wtime keeps the value of whichever run wrote it last (observed on tests/j_corrupt_revoke_rcount).
# primary superblock (offsets inside the 1024-byte superblock): s_kbytes_written accumulates the number of KiB each tool
# invocation wrote -- an interrupted run plus a re-run have written a different amount than one run -- and the superblock
# checksum that covers it.  Everything else in the superblock (feature flags, s_state, times, counts, journal and error
# fields) is compared.
SB_EXCLUDED = [(48, 4, "s_wtime"), (0x274, 1, "s_wtime_hi"), (0x178, 8, "s_kbytes_written"), (0x3FC, 4, "s_checksum")]
# journal superblock: s_sequence (offset 24): a run that finds the journal already empty stores s_sequence + 1 (jbd2_journal_recover
# sets j_transaction_sequence = s_sequence + 1 when s_start == 0), so the value counts the recovery attempts; and the v2/v3
# checksum over the block (offset 0xFC).  s_start, s_errno, features, geometry, uuid are compared.
JSB_EXCLUDED = [(24, 4, "s_sequence"), (0xFC, 4, "s_checksum")]


def masked(block, excl, base=0):
    b = bytearray(block)
    for off, ln, _ in excl:
        b[base + off:base + off + ln] = b"\0" * ln
    return bytes(b)


class Layout:
    """Where the locations of the abstract state live in one image."""
    def __init__(self, bs, jsb_block, log_blocks, tb, vers, nblocks, jd=0):
        self.bs, self.jsb_block, self.log = bs, jsb_block, set(log_blocks)
        self.jd = jd                            # device (index into the list of images) that holds the journal: 0 = the filesystem image
        self.tb = dict(tb)                      # id -> block number
        self.id_of = {v: k for k, v in self.tb.items()}
        self.vers = vers                        # payload bytes -> version (per id, or shared)
        self.nb = len(self.tb)
        self.nblocks = nblocks

    def version(self, bid, content):
        v = self.vers
        if isinstance(v, dict) and bid in v and isinstance(v[bid], dict):
            return v[bid].get(content, -1)
        return v.get(content, -1)

    def abstract(self, imgs):
        """imgs: list of device contents, [filesystem] or [filesystem, journal device]."""
        bs = self.bs
        img, jimg = imgs[0], imgs[self.jd]
        blk = [self.version(i, bytes(img[self.tb[i] * bs:(self.tb[i] + 1) * bs])) for i in range(1, self.nb + 1)]
        jo = self.jsb_block * bs
        magic, = struct.unpack_from(">I", jimg, jo)
        start, = struct.unpack_from(">I", jimg, jo + 28)
        jsb = (0 if start == 0 else 1) if magic == J.MAGIC else -1
        sb = 1 if img[FLAG_OFF] & 0x4 else 0
        return {"blk": blk, "jsb": jsb, "sb": sb}


def classify(trace_path, blob_path, imgs0, lay):
    """-> list of raw device events in order: {"t":"w","d","off","data","ents":[(k,b,v)..],"n"} | {"t":"fsync","d","n"}; d = device
    (iotrace target index: 0 = filesystem image, 1 = journal device image).
    ents = abstract entries of a write (one per location it touches); writes touching no location have ents = []."""
    shadows = [bytearray(x) for x in imgs0]
    blobs = open(blob_path, "rb").read() if os.path.exists(blob_path) else b""
    bs = lay.bs
    raw = []
    for ln in open(trace_path):
        d = json.loads(ln)
        e = d["e"]
        dev = d.get("tgt", 0)
        if dev < 0 or dev >= len(shadows):
            die_broken("iotrace recorded an event on an unknown target %s" % dev)
        shadow = shadows[dev]
        if e in ("pwrite", "write"):
            if d.get("fail"):
                continue
            off = d["off_hi"] * (1 << 31) + d["off_lo"]
            n = d["len"]
            bo = d["blob_hi"] * (1 << 31) + d["blob_lo"] if d["blob_hi"] >= 0 else -1
            if bo < 0 and n > 0:
                die_broken("iotrace recorded a write without payload")
            data = blobs[bo:bo + n]
            if len(data) != n:
                die_broken("iotrace payload file is short")
            if off + n > len(shadow):
                die_broken("recovery wrote past the end of the image (device %d, offset %d)" % (dev, off))
            shadow[off:off + n] = data
            ents = []
            for blk in range(off // bs, (off + n - 1) // bs + 1) if n else []:
                if dev == lay.jd and blk == lay.jsb_block:
                    ents.append(("jsb", 0, lay.abstract(shadows)["jsb"]))
                elif dev == 0 and blk in lay.id_of:
                    i = lay.id_of[blk]
                    ents.append(("blk", i, lay.version(i, bytes(shadow[blk * bs:(blk + 1) * bs]))))
                elif dev == lay.jd and blk in lay.log:
                    ents.append(("log", 0, blk))
            if dev == 0:
                if off <= FLAG_OFF < off + n:
                    ents.append(("sb", 0, 1 if shadow[FLAG_OFF] & 0x4 else 0))
                elif off < SB_OFF + 1024 and off + n > SB_OFF:
                    ents.append(("sbp", 0, 0))          # a piece of the primary superblock that does not hold the flag
            raw.append({"t": "w", "d": dev, "off": off, "data": data, "ents": ents, "n": d["n"]})
        elif e == "fsync":
            raw.append({"t": "fsync", "d": dev, "n": d["n"]})
        elif e in ("ftruncate", "fallocate", "pwritev"):
            die_broken("recovery issued %s on the image: not modelled by the recorder's crash-image reconstruction" % e)
    return raw, [bytes(x) for x in shadows]


def fe_env(b, paths, extra=None):
    """Tool environment of one case.  With an external journal debugfs (and e2fsck's journal-hint check) find the journal
    device by UUID through libblkid: a private cache file names the journal image."""
    e = dict(extra or {})
    if len(paths) > 1:
        e["BLKID_FILE"] = paths[0] + ".blkid"        # written afresh for every run (libblkid rewrites its cache file)
        with open(e["BLKID_FILE"], "w") as f:
            f.write('<device DEVNO="0x0000" TIME="1600000000.0" UUID="%s" TYPE="jbd">%s</device>\n' % (JNL_UUID, os.path.abspath(paths[1])))
    return tool_env(b, e)


def fe_cmd(b, fe, paths):
    cmd = c03.fe_cmd(b, fe, paths[0])
    if len(paths) > 1 and fe.startswith("e2fsck"):
        cmd = cmd[:-1] + ["-j", paths[1], paths[0]]
    return cmd


def read_all(paths):
    out = []
    for p in paths:
        with open(p, "rb") as f:
            out.append(f.read())
    return out


def write_all(paths, imgs):
    for p, x in zip(paths, imgs):
        with open(p, "wb") as f:
            f.write(x)


def traced_run(b, fe, paths, crash_after=0):
    img = paths[0]
    tr, bl = img + ".nd", img + ".blob"
    for f in (tr, bl):
        if os.path.exists(f):
            os.unlink(f)
    extra = dict(LD_PRELOAD=IOTRACE, VERIF_IOTRACE_TARGET=":".join(os.path.basename(p) for p in paths), VERIF_IOTRACE_OUT=tr, VERIF_IOTRACE_BLOBS=bl)
    if crash_after:
        extra["VERIF_CRASH_AFTER"] = str(crash_after)
    rc, out, err = sh(fe_cmd(b, fe, paths), env=fe_env(b, paths, extra), timeout=120)
    return rc, (out + err).decode("utf8", "replace"), tr, bl


def plain_run(b, fe, paths):
    rc, out, err = sh(fe_cmd(b, fe, paths), env=fe_env(b, paths), timeout=120)
    return rc, (out + err).decode("utf8", "replace")


STATE_BITS = [(58, 1, "s_state low byte (VALID_FS, ERROR_FS)")]


def sb_csum_bad(img):
    """Primary superblock carries metadata_csum and its checksum does not match (own crc32c)."""
    sb = img[SB_OFF:SB_OFF + 1024]
    if struct.unpack_from("<H", sb, 56)[0] != 0xEF53:
        return 1
    if not struct.unpack_from("<I", sb, 100)[0] & 0x400:
        return 0
    return 0 if J.crc32c_raw(0xFFFFFFFF, bytes(sb[:1020])) == struct.unpack_from("<I", sb, 1020)[0] else 1


def diff_blocks(A, C, lay, extra_sb=()):
    """Blocks that differ between two final states (lists of device contents) outside the excluded fields; blocks of the journal
    device are reported as -(block + 2)."""
    out = []
    for dev, (a, c) in enumerate(zip(A, C)):
        if len(a) != len(c):
            return [-1]
        if a == c:
            continue
        bs = lay.bs
        sbblk = SB_OFF // bs
        for blk in range(len(a) // bs):
            x, y = a[blk * bs:(blk + 1) * bs], c[blk * bs:(blk + 1) * bs]
            if x == y:
                continue
            if dev == 0 and blk == sbblk:
                x, y = masked(x, SB_EXCLUDED + list(extra_sb), SB_OFF - blk * bs), masked(y, SB_EXCLUDED + list(extra_sb), SB_OFF - blk * bs)
            if dev == lay.jd and blk == lay.jsb_block:
                x, y = masked(x, JSB_EXCLUDED), masked(y, JSB_EXCLUDED)
            if x != y:
                out.append(blk if dev == 0 else -(blk + 2))
    return out


def subset_catalogue(pend):
    """Boundary catalogue of what ONE device may keep of its pending writes: everything, nothing, all but one, exactly one."""
    cand = [tuple(pend), ()] + [tuple(x for x in pend if x != y) for y in pend] + [(y,) for y in pend]
    seen, uniq = set(), []
    for c in cand:
        if c not in seen:
            seen.add(c); uniq.append(c)
    return uniq


def crash_plan(raw, tier, rng, max_points, max_subsets):
    """Crash points (number of raw events completed, 1..len(raw)) and for each the kept-subsets of the pending raw writes.
    A write is pending until a later fsync OF ITS DEVICE has completed; the kept-subsets range over the product of what the
    filesystem device and the journal device may each have kept.
    -> list of (n, pending raw indexes, [kept tuples])."""
    R = len(raw)
    pend_at = []                    # pending raw write indexes after n events
    cur = []
    for r in raw:
        if r["t"] == "fsync":
            cur = [i for i in cur if raw[i]["d"] != r["d"]]
        else:
            cur = cur + [len(pend_at)]
        pend_at.append(list(cur))
    points = list(range(1, R + 1))
    if tier == "quick" and len(points) > max_points:
        # always keep the points where the pending set holds a replayed block or a journal/fs superblock write, or spans both devices
        def weight(n):
            ks = {e[0] for i in pend_at[n - 1] for e in raw[i]["ents"]}
            two = len({raw[i]["d"] for i in pend_at[n - 1] if raw[i]["ents"]}) > 1
            return (2 if ("blk" in ks or ("jsb" in ks and "sb" in ks) or two) else 1 if ks else 0)
        strong = [n for n in points if weight(n) == 2]
        rest = [n for n in points if weight(n) < 2]
        rng.shuffle(strong); rng.shuffle(rest)
        # two points at which located writes of BOTH devices are pending are always among the chosen ones
        both = [n for n in strong if len({raw[i]["d"] for i in pend_at[n - 1] if raw[i]["ents"]}) > 1][:2]
        points = sorted((both + [n for n in strong if n not in both] + rest)[:max_points])
    plan = []
    for n in points:
        pend = pend_at[n - 1]
        k = len(pend)
        subs = []
        if k == 0:
            subs = [()]
        elif k <= 8 and (1 << k) <= max_subsets:
            for m in range(k + 1):
                subs += list(itertools.combinations(pend, m))
        else:
            per = [[i for i in pend if raw[i]["d"] == dv] for dv in (0, 1)]
            if per[0] and per[1]:
                # product of the two devices' catalogues; the four corners (each device keeps all / nothing) come first
                c0, c1 = subset_catalogue(per[0]), subset_catalogue(per[1])
                uniq = [tuple(sorted(x + y)) for x in c0[:2] for y in c1[:2]]
                rest = [tuple(sorted(x + y)) for x in c0 for y in c1 if tuple(sorted(x + y)) not in set(uniq)]
                uniq += list(dict.fromkeys(rest))
                nhead = 4
            else:
                uniq = subset_catalogue(pend)
                nhead = 2
            seen = set(uniq)
            head, tail = uniq[:nhead], uniq[nhead:]
            rng.shuffle(tail)
            extra = []
            for _ in range(40):
                if len(extra) >= 4 or k <= 3:
                    break
                c = tuple(x for x in pend if rng.random() < 0.5)
                if c not in seen:
                    seen.add(c); extra.append(c)
            subs = (head + tail + extra)[:max(max_subsets, nhead)] if tier == "quick" else head + tail + extra
        plan.append((n, pend, subs))
    return plan


def rebuild(imgs0, raw, n, kept):
    """Device contents after a crash following raw event n (1-based count): per device the writes covered by a completed fsync of
    that device + the kept pending ones, program order."""
    imgs = [bytearray(x) for x in imgs0]
    last_sync = [0] * len(imgs)
    for i in range(n):
        if raw[i]["t"] == "fsync":
            last_sync[raw[i]["d"]] = i + 1
    ks = set(kept)
    for i in range(n):
        r = raw[i]
        if r["t"] != "w":
            continue
        if i < last_sync[r["d"]] or i in ks:
            imgs[r["d"]][r["off"]:r["off"] + len(r["data"])] = r["data"]
    return [bytes(x) for x in imgs]


class Case:
    """One (image, front-end): uninterrupted run, trace lines, crash lines."""
    pass


def run_case(b, work, tag, load_line, imgs0, lay, fe, tier, rng, max_points, max_subsets, real_crash_checks):
    """imgs0: [filesystem image] or [filesystem image, journal device image]."""
    c = Case()
    c.tag, c.fe = tag, fe
    nd = len(imgs0)
    paths = [os.path.join(work, "c_%s.%s" % (tag, sfx)) for sfx in ("img", "jnl")[:nd]]
    cpaths = [os.path.join(work, "x_%s.%s" % (tag, sfx)) for sfx in ("img", "jnl")[:nd]]
    write_all(paths, imgs0)
    rc, msg, tr, bl = traced_run(b, fe, paths)
    c.rc, c.msg = rc, msg[-300:]
    if rc < 0 or rc == 124:
        c.abnormal = True
    raw, shadow = classify(tr, bl, imgs0, lay)
    final = read_all(paths)
    if shadow != final:
        die_broken("recorder incomplete: replaying the recorded writes of %s does not reproduce its final image (%s)" % (fe, tag))
    c.nraw = len(raw)
    c.final_abs = lay.abstract(final)
    if nd > 1 and not any(r["d"] == 1 for r in raw):
        # not a verdict about recovery: the journal image was never opened for writing (its unix_open alone would have recorded an fsync)
        die_broken("%s never opened the journal device image (-j / libblkid lookup through BLKID_FILE failed?): %s" % (fe, msg[-300:]))
    # abstract lines + position bookkeeping
    lines = [load_line]
    line_of_raw = []          # index into lines after which a crash following raw event r belongs
    pend_abs = []             # mirrors the spec's pend: raw index of every abstract write not yet covered by an fsync of its device
    pend_hist = []
    for ri, r in enumerate(raw):
        if r["t"] == "fsync":
            if r["d"] == 0 or nd > 1:
                lines.append({"e": "fsync", "d": r["d"]})
            pend_abs = [x for x in pend_abs if raw[x]["d"] != r["d"]]
        else:
            for (k, bb, v) in r["ents"]:
                lines.append({"e": "w", "d": r["d"], "k": k, "b": bb, "v": v}); pend_abs = pend_abs + [ri]
        line_of_raw.append(len(lines))
        pend_hist.append(list(pend_abs))
    c.n_w = sum(1 for x in lines if x["e"] == "w")
    c.n_fsync = sum(1 for x in lines if x["e"] == "fsync")
    c.n_jdev = sum(1 for x in lines if x.get("d") == 1)
    # fault enumeration
    crashes = {}              # line position -> [crash lines]
    c.crash_cases = 0
    c.nontrivial = set()
    c.real_crash = 0
    c.cross_dev = 0
    plan = crash_plan(raw, tier, rng, max_points, max_subsets)
    for (n, pend, subs) in plan:
        for kept in subs:
            image = rebuild(imgs0, raw, n, kept)
            if real_crash_checks and tuple(kept) == tuple(pend) and c.real_crash < real_crash_checks:
                # cross-check of the reconstruction: kill the real process right after its n-th device event
                write_all(cpaths, imgs0)
                rcx, _, trx, blx = traced_run(b, fe, cpaths, crash_after=raw[n - 1]["n"])
                killed = read_all(cpaths)
                for p in (trx, blx):
                    if os.path.exists(p):
                        os.unlink(p)
                if rcx != 97 and n < len(raw):
                    die_broken("crash-after-%d did not stop %s (rc %s)" % (raw[n - 1]["n"], fe, rcx))
                if killed != image:
                    die_broken("crash-image reconstruction differs from the image a really killed %s left (event %d, %s)" % (fe, n, tag))
                c.real_crash += 1
            write_all(cpaths, image)
            rc2, msg2 = plain_run(b, fe, cpaths)
            again = read_all(cpaths)
            ab = lay.abstract(again)
            df = diff_blocks(final, again, lay)
            sdiff = 0
            if df and not diff_blocks(final, again, lay, STATE_BITS):
                df, sdiff = [], 1                  # the only difference is ERROR_FS / VALID_FS in s_state
            torn = sb_csum_bad(image[0])
            ai = lay.abstract(image)
            kept_abs = [pi + 1 for pi, ri in enumerate(pend_hist[n - 1]) if ri in set(kept)]
            ln = {"e": "crash", "kept": kept_abs, "img": ai, "obs": ab["blk"], "jstart": ab["jsb"], "nro": ab["sb"], "diff": len(df), "torn": torn, "sdiff": sdiff,
                  "_n": n, "_kept_raw": list(kept), "_pending_raw": list(pend), "_pending_dev": [raw[i]["d"] for i in pend], "_rc": rc2, "_msg": msg2[-200:],
                  "_diff_blocks": df[:10]}
            crashes.setdefault(line_of_raw[n - 1], []).append(ln)
            c.crash_cases += 1
            if rc2 < 0 or rc2 == 124:
                c.abnormal_rerun = (n, list(kept), rc2)
            # non-trivial crash state: a replayed block and the journal superblock release differently durable / both pending
            kinds_p = {e[0] for i in pend for e in raw[i]["ents"]}
            if ("blk" in kinds_p or "jsb" in kinds_p) and 0 < len(kept) < len(pend) or ("blk" in kinds_p and "jsb" in kinds_p):
                c.nontrivial.add((tag, n, tuple(kept)))
            # cross-device crash state: both devices have pending writes and they fare differently (one keeps, the other loses)
            pd = [[i for i in pend if raw[i]["d"] == dv] for dv in (0, 1)]
            if pd[0] and pd[1]:
                kd = [[i for i in kept if raw[i]["d"] == dv] for dv in (0, 1)]
                if (len(kd[0]) == len(pd[0])) != (len(kd[1]) == len(pd[1])) or (not kd[0]) != (not kd[1]):
                    c.cross_dev += 1
                    c.nontrivial.add((tag, n, tuple(kept)))
    for p in cpaths + paths + [tr, bl, paths[0] + ".blkid", cpaths[0] + ".blkid", paths[0] + ".blkid.old", cpaths[0] + ".blkid.old"]:
        if os.path.exists(p):
            os.unlink(p)
    out = []
    for pos in range(1, len(lines) + 1):
        out.append(lines[pos - 1])
        out += crashes.get(pos, [])
    out.append({"e": "done", "obs": c.final_abs["blk"], "jstart": c.final_abs["jsb"], "nro": c.final_abs["sb"]})
    c.lines = out
    return c


def strip(ln):
    return json.dumps({k: v for k, v in ln.items() if not k.startswith("_")}, separators=(",", ":"))


def trace_cfg(work):
    cfg = os.path.join(work, "Trace_JournalRun.cfg")
    consts = dict(Blocks="{1}", MaxPlan=0, MaxCrash=0, SyncInRecover="TRUE", ReleaseAfterFlush="TRUE", FlushFsyncs="TRUE", OpenFsyncs="TRUE", SyncFsDev="TRUE",
                  ExtChoices="{FALSE}")       # ext is set by every load line
    consts.update(c03.CONF_DEVS)
    consts.update(CONF_DEVS)
    T.write_cfg(cfg, spec="TraceSpec", constants=consts,
                invariants=["Idempotent", "KeepsRequesting", "FlagAfterEmpty", "FlagAfterEmptyCrash", "Done", "SbAtomicOrDev", "ErrorRememberedOrDev"],
                postcondition="TraceAccepted")
    return cfg


def load_known(vd):
    p = os.path.join(VERIF, "fixes", PID + "_known_findings.txt")
    if os.path.exists(p):
        for ln in open(p):
            ln = ln.strip()
            if ln.startswith("{"):
                d = json.loads(ln)
                if d.get("property") == PID:
                    vd.known[d["key"]] = d


def route_devs(vd, cases, bad):
    """Accepted crash lines that took a named deviation -> known-finding routing (exact key = deviation name)."""
    n = {"DevSbPiecemeal": 0, "DevErrorLostOnCrash": 0}
    for ci, c in enumerate(cases):
        if ci in bad:
            continue
        for x in c.lines:
            if x["e"] != "crash":
                continue
            if x["torn"] == 1:
                n["DevSbPiecemeal"] += 1
                if n["DevSbPiecemeal"] == 1:
                    vd.violation("DevSbPiecemeal", "crash image with a torn primary superblock (checksum mismatch): " + describe_line(c, x), {"case": c.replay, "offending": x})
            elif x["sdiff"] == 1:
                n["DevErrorLostOnCrash"] += 1
                if n["DevErrorLostOnCrash"] == 1:
                    vd.violation("DevErrorLostOnCrash", "re-run leaves s_state without the error marking of the uninterrupted (failed) recovery: " + describe_line(c, x), {"case": c.replay, "offending": x})
    return n


# ---------------------------------------------------------------------------------------------- model checking
MC_INV = ["TypeOK", "Idempotent", "IdempotentSubsets", "NeverEmptyBeforeDurable", "CrashImagesAreDeviceProduct", "KeepsRequesting", "FlagAfterEmpty",
          "FlagAfterEmptyCrash", "ProductFormExact", "Done", "CrashedIdempotent", "NoBlockedWrite", "SbAtomic", "SbAtomicOrDev",
          "ErrorRemembered", "ErrorRememberedSubsets"]
PROP_INV = ["Idempotent", "KeepsRequesting", "FlagAfterEmpty", "Done", "CrashedIdempotent"]
# (constant set FALSE, journal locations in which TLC must reject it, what it is)
VARIANTS = [("SyncInRecover", ("{FALSE}", "{TRUE}"), "jbd2_journal_recover without sync_blockdev"),
            ("ReleaseAfterFlush", ("{FALSE}", "{TRUE}"), "journal superblock released (s_start = 0) before the flush"),
            ("FlushFsyncs", ("{FALSE}", "{TRUE}"), "unix_flush without fsync"),
            ("SyncFsDev", ("{TRUE}",), "sync_blockdev(j_fs_dev) flushes the journal device's channel instead of the filesystem's")]


def mc_consts(**kw):
    c = dict(Blocks="{1, 2}", MaxPlan=3, MaxCrash=1, ExtChoices="{FALSE, TRUE}", SyncInRecover="TRUE", ReleaseAfterFlush="TRUE", FlushFsyncs="TRUE", OpenFsyncs="TRUE",
             SyncFsDev="TRUE", DevSbPiecemeal="FALSE", DevErrorLostOnCrash="FALSE")
    c.update(kw)
    return c


def model_check(ev, vd, tier, work):
    mod = os.path.join(SPEC, "JournalRun.tla")
    runs = [("protocol of the pinned tree, internal journal and journal device, 2 blocks, plans <= 3 writes, 1 crash", mc_consts(), MC_INV)]
    if tier == "thorough":
        runs.append(("protocol of the pinned tree, 3 blocks, plans <= 3 writes, 2 crashes", mc_consts(Blocks="{1, 2, 3}", MaxPlan=3, MaxCrash=2), MC_INV))
        runs.append(("protocol of the pinned tree, 2 blocks, plans <= 4 writes, 2 crashes", mc_consts(MaxPlan=4, MaxCrash=2), MC_INV))
        runs.append(("without the fsync in unix_open, internal journal: property-level invariants only, first run", mc_consts(OpenFsyncs="FALSE", MaxCrash=0, ExtChoices="{FALSE}"),
                     ["Idempotent", "KeepsRequesting", "Done"]))
        # with a journal device the journal's channel is closed without fsync, so that the release is durable at the END of the run (Done)
        # does rest on unix_open's fsync of the journal device; the ordering invariants do not
        runs.append(("without the fsync in unix_open, journal device: ordering invariants only, first run", mc_consts(OpenFsyncs="FALSE", MaxCrash=0, ExtChoices="{TRUE}"),
                     ["Idempotent", "KeepsRequesting", "NeverEmptyBeforeDurable"]))
    for n, (label, consts, invs) in enumerate(runs):
        cfg = os.path.join(work, "MC_JournalRun_%d.cfg" % n)
        T.write_cfg(cfg, spec="Spec", constants=consts, invariants=invs)
        r = T.tlc(mod, cfg, workers=4, timeout=2400, xmx="4g", coverage=(n == 0))
        ev.add_tlc(r, "JournalRun %s: %s" % (label, ", ".join(invs)))
        if r.violated:
            vd.violation("model:" + r.violated, "model: invariant %s violated in JournalRun (%s)" % (r.violated, label), {"tlc_tail": r.out[-4000:], "constants": consts})
        elif not r.ok:
            die_broken("TLC failed on JournalRun (%s): %s\n%s" % (label, r.error, r.out[-1500:]))
        if n == 0:
            dead = [a for a, (dist, taken) in r.coverage.items() if taken == 0 and a in
                    ("Open", "JOpen", "JClose", "CheckJsb", "Load", "ReplayWrite", "EndReplay", "SyncFs", "JsbRelease", "CloseFs", "Reopen", "ClearRecover", "ErrFlush", "ErrClear", "FinalFlush", "WriteBack", "Crash", "RunAgain")]
            if dead or not r.coverage:
                die_broken("vacuity: actions never taken in JournalRun: %s" % (dead or "no coverage reported"))
    # vacuity guard: every wrong ordering must be rejected
    rej = {}
    for n, (flag, exts, what) in enumerate(VARIANTS):
        for m, extc in enumerate(exts):
            cfg = os.path.join(work, "MC_JournalRun_bad%d_%d.cfg" % (n, m))
            T.write_cfg(cfg, spec="Spec", constants=mc_consts(**{flag: "FALSE", "ExtChoices": extc}), invariants=PROP_INV + ["NeverEmptyBeforeDurable"])
            r = T.tlc(mod, cfg, workers=2, timeout=600, xmx="2g")
            if not r.violated:
                die_broken("vacuity: the wrong ordering '%s' (%s = FALSE, ext in %s) is not rejected by TLC: %s" % (what, flag, extc, r.error or "no invariant violated"))
            rej["%s/ext=%s" % (flag, extc.strip("{}"))] = {"violated": r.violated, "distinct_until_counterexample": r.distinct}
    # ... and the wrong device choice is harmless exactly when there is one device (so the rejection above is due to the second device)
    cfg = os.path.join(work, "MC_JournalRun_syncdev_int.cfg")
    T.write_cfg(cfg, spec="Spec", constants=mc_consts(SyncFsDev="FALSE", ExtChoices="{FALSE}"), invariants=PROP_INV + ["NeverEmptyBeforeDurable"])
    r = T.tlc(mod, cfg, workers=2, timeout=600, xmx="2g")
    if r.violated or not r.ok:
        die_broken("SyncFsDev = FALSE with an internal journal (one channel) should satisfy the protocol: %s" % (r.violated or r.error))
    ev.cov["wrong_orderings_rejected"] = rej
    # the named deviations: with each of them exactly its own invariant must fail, everything else must still hold
    for dev, inv, others in (("DevSbPiecemeal", "SbAtomic", [x for x in MC_INV if x != "SbAtomic"]),
                             ("DevErrorLostOnCrash", "ErrorRemembered", [x for x in MC_INV if not x.startswith("ErrorRemembered")])):
        cfg = os.path.join(work, "MC_JournalRun_%s.cfg" % dev)
        T.write_cfg(cfg, spec="Spec", constants=mc_consts(**{dev: "TRUE"}), invariants=[inv])
        r = T.tlc(mod, cfg, workers=2, timeout=600, xmx="2g")
        if r.violated != inv:
            die_broken("vacuity: %s = TRUE does not violate %s (%s)" % (dev, inv, r.error or r.violated))
        cfg = os.path.join(work, "MC_JournalRun_%s_rest.cfg" % dev)
        T.write_cfg(cfg, spec="Spec", constants=mc_consts(**{dev: "TRUE"}), invariants=others)
        r = T.tlc(mod, cfg, workers=4, timeout=1200, xmx="4g")
        ev.add_tlc(r, "JournalRun with %s (what the pinned tree does): %s violated as expected, every other invariant holds" % (dev, inv))
        if r.violated:
            vd.violation("model:" + r.violated, "model: invariant %s violated in JournalRun with %s" % (r.violated, dev), {"tlc_tail": r.out[-4000:]})
        elif not r.ok:
            die_broken("TLC failed on JournalRun (%s): %s" % (dev, r.error))


# ---------------------------------------------------------------------------------------------- conformance
def c03_layout(base, j, info):
    vers = {}
    for v, e in S.versions(j):
        vers[J.payload(v, e, base.bs)] = v
    nb = j["cfg"]["nb"]
    return Layout(base.bs, info["jsb_block"], info["jmap"][1:], {i: base.tb[i] for i in range(1, nb + 1)}, vers, base.nblocks, jd=info.get("jd", 0))


class ExtBase:
    """A filesystem image WITHOUT an internal journal plus a journal device image (mke2fs -O journal_dev), attached to each other
    the way ext2fs_add_journal_device does it (s_journal_uuid of the filesystem = UUID of the journal device, has_journal set,
    s_journal_inum = 0; the filesystem's UUID entered into the journal superblock's user list by write_ext_journal).
    mke2fs -J device= itself insists on a block special file, so the attachment is done with debugfs as tests/j_ext_long_trans does."""
    def __init__(self, b, work, profile):
        inner, jblocks = EXT_PROFILES[profile]
        opts = list(c03.PROFILES[inner])
        bsz = opts[opts.index("-b") + 1]
        if "-J" in opts:
            k = opts.index("-J"); del opts[k:k + 2]
        if "-O" in opts:
            k = opts.index("-O"); opts[k + 1] += ",^has_journal"
        else:
            opts += ["-O", "^has_journal"]
        self.profile = profile
        self.path = os.path.join(work, "base_%s.img" % profile)
        self.jpath = os.path.join(work, "base_%s.jnl" % profile)
        env = tool_env(b)
        rc, out, err = sh([b + "/misc/mke2fs", "-q", "-F", "-b", bsz, "-O", "journal_dev", "-U", JNL_UUID, self.jpath, str(jblocks)], env=env, timeout=120)
        if rc != 0:
            raise RuntimeError("mke2fs -O journal_dev failed for profile %s: %s" % (profile, err.decode()[-500:]))
        rc, out, err = sh([b + "/misc/mke2fs", "-q", "-F"] + opts + ["-E", "lazy_itable_init=0,hash_seed=11111111-2222-3333-4444-555555555555",
                           "-U", FS_UUID, self.path, c03.PROFILE_SIZE[inner]], env=env, timeout=120)
        if rc != 0:
            raise RuntimeError("mke2fs failed for profile %s: %s" % (profile, err.decode()[-500:]))
        rc, out, err = sh([b + "/debugfs/debugfs", "-w", "-f", "-", self.path], env=env, timeout=60,
                          input=("feature has_journal\nssv journal_dev 0\nssv journal_uuid %s\n" % JNL_UUID).encode())
        im = J.Image(self.path)
        if rc != 0 or not im.f_compat & 0x4 or im.journal_inum != 0 or im.sb[208:224].hex() != JNL_UUID.replace("-", ""):
            raise RuntimeError("attaching the journal device failed for profile %s: %s" % (profile, (out + err).decode()[-500:]))
        self.bs = im.bs
        jim = J.Image(self.jpath)
        if jim.bs != im.bs or not jim.f_incompat & 0x8 or jim.blocks_count != jblocks:
            raise RuntimeError("journal device image of profile %s is not what was asked for" % profile)
        self.jblocks = jblocks
        self.jsb_block = 2 if im.bs == 1024 else 1          # ext2fs_journal_sb_start(): the block after the ext2 superblock of the device
        jsb = J.read_jsb(self.jpath, self.jsb_block)
        if not jsb["magic_ok"] or jsb["blocksize"] != im.bs or jsb["first"] != self.jsb_block + 1:
            raise RuntimeError("journal superblock of the journal device not found at block %d (%s)" % (self.jsb_block, jsb))
        free = im.free_blocks(0)
        if len(free) < 600:
            raise RuntimeError("too few free blocks in base image")
        self.tb = {1: free[100], 2: free[101], 3: free[333], 4: free[-7]}
        self.nblocks = im.blocks_count


def write_ext_journal(fs_path, jnl_path, base, absj, first=1, uuid_mode="first", junk_mode="zero", needs_recovery=1):
    """Encode absj (gen/jbd2write.py Encoder) into the journal DEVICE image: journal superblock at base.jsb_block, ring position p at
    device block jsb_block + first + p - 1 (an external journal's logical block numbers are device block numbers)."""
    cfg = absj["cfg"]
    bs, jb = base.bs, base.jsb_block
    juuid = bytes.fromhex(JNL_UUID.replace("-", ""))
    enc = J.Encoder(cfg, bs, juuid, base.tb, uuid_mode, junk_mode)
    L = cfg["L"]
    f0 = jb + first
    maxlen = f0 + L
    if maxlen > base.jblocks:
        raise ValueError("ring does not fit the journal device")
    start = absj["jsb"]["start"]
    sb = bytearray(enc.superblock(f0, maxlen, absj["jsb"]["seq"], 0 if start == 0 else f0 + start - 1))
    struct.pack_into(">I", sb, 64, 1)                                      # s_nr_users
    sb[0x100:0x110] = bytes.fromhex(FS_UUID.replace("-", ""))              # s_users[0] = the filesystem that uses the device
    if enc.v23:
        struct.pack_into(">I", sb, 0xFC, 0)
        struct.pack_into(">I", sb, 0xFC, J.crc32c_raw(0xFFFFFFFF, bytes(sb[:1024])))
    with open(jnl_path, "r+b") as f:
        f.seek(jb * bs); f.write(sb)
        for p in range(1, L + 1):
            f.seek((f0 + p - 1) * bs); f.write(enc.block(absj["log"][p - 1], p))
    J.Image(fs_path).set_needs_recovery(needs_recovery)
    return dict(jsb_block=jb, jmap=list(range(jb, maxlen)), bs=bs, first=first, jd=1)


def concretize_ext(j, base, fs_path, jnl_path):
    shutil.copyfile(base.path, fs_path)
    shutil.copyfile(base.jpath, jnl_path)
    with open(fs_path, "r+b") as f:
        for i in range(1, j["cfg"]["nb"] + 1):
            f.seek(base.tb[i] * base.bs)
            f.write(J.payload(j["fs0"][i - 1], j["fs0esc"][i - 1], base.bs))
    c = j["conc"]
    return write_ext_journal(fs_path, jnl_path, base, j, first=c["first"], uuid_mode=c["uuid_mode"], junk_mode=c["junk_mode"], needs_recovery=j["nr"])


def c03_load_line(j, ext=0):
    return {"e": "load", "kind": "c03", "ext": ext, "cfg": {"L": j["cfg"]["L"], "csum": j["cfg"]["csum"], "async": j["cfg"]["async"]},
            "jsb": j["jsb"], "nr": j["nr"], "fs0": j["fs0"], "log": j["log"], "hist": j["hist"]}


def describe(c, li):
    """Human-readable account of the line of case c at which TLC stopped."""
    if li is None or li >= len(c.lines):
        return "trace not matched"
    return describe_line(c, c.lines[li])


def describe_line(c, ln):
    if ln["e"] == "crash":
        return ("crash after device event %d of %s with pending raw writes %s (on devices %s; 0 = filesystem, 1 = journal device) of which %s survive: image %s; re-run (rc %s) left blocks %s, "
                "journal start %s, needs_recovery %s, %d other differing blocks %s, torn superblock %s, s_state-only difference %s" % (
                    ln["_n"], c.fe, ln["_pending_raw"], ln.get("_pending_dev", []), ln["_kept_raw"], ln["img"], ln["_rc"], ln["obs"], ln["jstart"], ln["nro"], ln["diff"], ln["_diff_blocks"],
                    ln["torn"], ln["sdiff"]))
    if ln["e"] == "done":
        return "end of the uninterrupted run of %s: blocks %s journal start %s needs_recovery %s" % (c.fe, ln["obs"], ln["jstart"], ln["nro"])
    return "device event %s of %s" % (strip(ln), c.fe)


def validate_cases(ev, vd, work, cases, label, rerun):
    """cases: list of Case.  rerun(i) -> a fresh Case for confirmation.  Routes rejections into the verdict."""
    if not cases:
        return 0
    cfg = trace_cfg(work)
    mod = os.path.join(SPEC, "Trace_JournalRun.tla")
    tdir = os.path.join(work, "tr_" + label)
    os.makedirs(tdir, exist_ok=True)
    beh = [[strip(x) for x in c.lines] for c in cases]
    res = tracecheck.validate(beh, mod, cfg, tdir, chunk_lines=1500, timeout=1200, jobs=JOBS)
    if res["broken"]:
        die_broken("TLC failed on a trace chunk: %s\n%s" % (res["broken"][0]["error"], res["broken"][0]["out_tail"][-2500:]))
    ev.cov["states"] += res["distinct"]; ev.cov["transitions"] += res["generated"]
    bad = set()
    ev.cov["rejections_first_pass"] = ev.cov.get("rejections_first_pass", 0) + len(res["failures"])
    for f in res["failures"][:MAX_CONFIRM]:   # every reported violation is confirmed by a fresh run; a flood is reported by its first ones
        bi = f["behaviour"]
        c2 = rerun(bi)                       # tools + TLC again before reporting
        rej, matched, inv, tail, _ = tracecheck.confirm([strip(x) for x in c2.lines], mod, cfg, tdir)
        if not rej:
            continue
        bad.add(bi)
        li = matched if inv is None else (matched - 1 if matched else matched)
        # with an invariant violation the offending line is the last matched one; with a rejection it is the first unmatched one
        where = describe(c2, (matched - 1) if (inv and matched) else matched)
        what = ("invariant %s violated at " % inv if inv else "not a behaviour of JournalRun / re-run differs from Final at ") + where
        vd.violation("%s|%s|%s" % ("inv:" + inv if inv else "rejected", c2.fe, c2.key), what,
                     {"case": c2.replay, "frontend": c2.fe, "lines_upto": [strip(x) for x in c2.lines[: (matched or 0) + 1]][-40:],
                      "offending": {k: v for k, v in (c2.lines[min(matched or 0, len(c2.lines) - 1)]).items()}, "tlc_tail": tail[-1500:]})
    unconfirmed = {f["behaviour"] for f in res["failures"][MAX_CONFIRM:]}        # rejected once, not re-run: neither reported nor counted as validated
    if unconfirmed:
        ev.cov["rejections_not_rerun"] = ev.cov.get("rejections_not_rerun", 0) + len(unconfirmed)
    devs = route_devs(vd, cases, bad | unconfirmed)
    dc = ev.cov.setdefault("deviation_crash_images", {})
    for k, v in devs.items():
        dc[k] = dc.get(k, 0) + v
    return len(cases) - len(bad | unconfirmed)


def run(tier):
    ev = Evidence(PID, tier, "model_checking")
    vd = Verdict(PID, ev)
    load_known(vd)
    work = fast_tmp()
    t_start = time.time()
    try:
        try:
            b = build.build()
        except RuntimeError as e:
            die_broken(str(e))
        if not os.path.exists(IOTRACE):
            sh(["make", "-C", os.path.join(VERIF, "harness"), "-s", "all"])
        # the model-checking part runs beside the tool runs (both are mostly child processes); joined before the verdict
        mc_out = []

        def mc_thread():
            try:
                model_check(ev, vd, tier, work)
            except SystemExit as e:          # die_broken already printed CHECK-BROKEN
                mc_out.append(("exit", e.code))
            except BaseException as e:
                mc_out.append(("exc", e))
        th = threading.Thread(target=mc_thread)
        th.start()
        try:
            profs = ["ext4_1k", "ext3_1k", "ext4_4k_csum64"]
            bases = {p: c03.Base(b, work, p) for p in profs}
            for p in EXT_PROFILES:
                bases[p] = ExtBase(b, work, p)
        except (RuntimeError, ValueError) as e:
            die_broken("base image: %s" % e)
        rng = random.Random(seed())
        nj = 42 if tier == "quick" else 224
        max_points, max_subsets, real_checks = (5, 4, 1) if tier == "quick" else (10 ** 6, 16, 2)
        off = (seed() * 7919) % 224
        specs = []
        for n in range(nj):
            j = S.sample(rng, off + n * (5 if tier == "quick" else 1))      # quick: stride over the stratified stream
            prof = profs[0] if n % 4 < 2 else profs[1 + (n % 4) - 2]
            for fi, fe in enumerate(FRONTENDS):
                if tier == "quick" and fi != n % 3 and fi != (n + 1) % 3:
                    continue                                                # quick: two of the three front-ends per journal
                specs.append((n, j, prof, fe, random.Random(seed() * 1000003 + n * 7 + fi)))
            # the journal-location dimension (ExtChoices of the spec): the same journal on a journal device of its own --
            # quick: every third journal, thorough: every fourth (n % 4 == 1, 2, 3, 0 in turn, so every profile); block size as in the journal's internal profile
            if (n % 3 == 0) if tier == "quick" else (n % 4 == (n // 4) % 4):
                xprof = "ext4_4k_csum64_xj" if prof == "ext4_4k_csum64" else "ext4_1k_xj"
                for fi, fe in enumerate(FRONTENDS):
                    if tier == "quick" and fi != (n // 3) % 3 and fi != (n // 3 + 1) % 3:
                        continue
                    specs.append((n, j, xprof, fe, random.Random(seed() * 1000003 + n * 7 + fi + 500009)))

        def one(k, suffix=""):
            n, j, prof, fe, r0 = specs[k]
            base = bases[prof]
            ext = 1 if prof in EXT_PROFILES else 0
            tag = "%d%s_%s%s" % (n, "x" if ext else "", fe, suffix)
            srcs = [os.path.join(work, "s_%s.%s" % (tag, sfx)) for sfx in ("img", "jnl")[:1 + ext]]
            try:
                info = concretize_ext(j, base, srcs[0], srcs[1]) if ext else c03.concretize(j, base, srcs[0])
            except Exception as e:
                return {"error": repr(e)}
            img0 = read_all(srcs)
            for p in srcs:
                os.unlink(p)
            lay = c03_layout(base, j, info)
            c = run_case(b, work, tag, c03_load_line(j, ext), img0, lay, fe, tier, random.Random(r0.random()), max_points, max_subsets, real_checks)
            c.key = "%s@%s" % (j["stratum"]["kind"], prof)
            c.replay = {"journal": j, "profile": prof, "frontend": fe}
            return c
        t0 = time.time()
        with cf.ThreadPoolExecutor(max_workers=JOBS) as ex:
            cases = list(ex.map(one, range(len(specs))))
        errs = [c["error"] for c in cases if isinstance(c, dict)]
        if errs:
            die_broken("harness failed on %d journals, first: %s" % (len(errs), errs[0]))
        ev.cov["wall_tools_s"] = round(time.time() - t0, 1)
        for c in cases:
            if getattr(c, "abnormal", False) or hasattr(c, "abnormal_rerun"):
                vd.violation("abnormal|%s|%s" % (c.fe, c.key), "%s terminated abnormally (%s)" % (c.fe, getattr(c, "abnormal_rerun", c.rc)), {"case": c.replay})
        ok = validate_cases(ev, vd, work, cases, "gen", lambda bi: one(bi, "_c"))
        ev.cov["traces_validated_against_impl"] += ok
        ev.cov["generated_journal_runs"] = len(cases)
        ev.cov["device_events"] = sum(c.nraw for c in cases)
        ev.cov["abstract_write_events"] = sum(c.n_w for c in cases)
        ev.cov["fsync_events"] = sum(c.n_fsync for c in cases)
        ev.cov["crash_images_rerun"] = sum(c.crash_cases for c in cases)
        ev.cov["real_kill_crosschecks"] = sum(c.real_crash for c in cases)
        ev.cov["evaluations"] += sum(c.crash_cases + 1 for c in cases)
        xc = [c for c in cases if c.replay["profile"] in EXT_PROFILES]
        ev.cov["external_journal"] = {"runs": len(xc), "by_frontend": {fe: sum(1 for c in xc if c.fe == fe) for fe in FRONTENDS},
                                      "events_on_journal_device": sum(c.n_jdev for c in xc), "crash_images_rerun": sum(c.crash_cases for c in xc),
                                      "crash_images_devices_fare_differently": sum(c.cross_dev for c in xc)}
        if xc and not ev.cov["external_journal"]["events_on_journal_device"] and not vd.viol:
            die_broken("external-journal runs recorded no event on the journal device: instrumentation incomplete")
        for c in cases:
            for k in c.nontrivial:
                ev.nontrivial(k)
        repo_images(ev, vd, b, work, tier, rng)
        th.join()
        if mc_out:
            if mc_out[0][0] == "exit":
                sys.exit(mc_out[0][1])
            raise mc_out[0][1]
        ev.cov["rule"] = ("crash states (journal of the stratified C03 stream or repository j_* image, front-end, crash point, kept subset); non-trivial = a replayed "
                          "block or the journal-superblock write is pending and only a strict non-empty part of the pending writes survives, or a replayed block "
                          "and the journal superblock are pending together, or (journal device) both devices have pending writes and fare differently (one keeps all / nothing, the other "
                          "does not); distinct by (run, crash point, kept subset)")
        c0 = cases[0]
        ev.sample({"frontend": c0.fe, "journal_kind": c0.key, "lines": [strip(x) for x in c0.lines[1:14]]})
        cl = [x for c in cases for x in c.lines if x["e"] == "crash" and 0 < len(x["_kept_raw"]) < len(x["_pending_raw"])]
        for x in cl[:2]:
            ev.sample({"crash_line": strip(x), "pending_raw": x["_pending_raw"], "kept_raw": x["_kept_raw"]})
        ev.cov["checker_cmd"] = ("TRACE=<chunk> tlc -workers 1 -config Trace_JournalRun.cfg spec/Trace_JournalRun.tla (POSTCONDITION TraceAccepted, INVARIANT Idempotent, "
                                 "KeepsRequesting, FlagAfterEmpty, FlagAfterEmptyCrash, Done; SbAtomicOrDev, ErrorRememberedOrDev with the deviations enabled)")
        ev.cov["excluded_fields"] = {"primary superblock": [x[2] for x in SB_EXCLUDED], "journal superblock": [x[2] for x in JSB_EXCLUDED]}
        ev.assumptions = ASSUMPTIONS
        return vd.finish()
    finally:
        shutil.rmtree(work, ignore_errors=True)


ASSUMPTIONS = [
    "crash model: every pwrite/write issued since the last COMPLETED fsync/fdatasync may be lost independently (any subset survives, applied in program order; "
    "an older write of a location surviving a newer one is one of the subsets); a single pwrite is atomic per location (no torn 1 KiB/4 KiB block); "
    "fsync returns only after everything issued before it is durable",
    "block-exact comparison of the re-run result with the uninterrupted result excludes exactly: primary superblock s_wtime (+ its high byte 0x274: time of the last superblock write), "
    "s_kbytes_written (8 bytes at 0x178: KiB written by the tool invocations so far) and s_checksum (0x3FC); journal superblock s_sequence (offset 24: a run that finds the journal already empty stores s_sequence + 1) and its "
    "checksum (0xFC).  Every other byte of the image is compared: s_start, needs_recovery, s_state, mount/check time stamps and mount counts (clocks are fixed), all data and metadata blocks",
    "the re-run uses the same front-end as the interrupted run; tools run with fixed E2FSCK_TIME / E2FSPROGS_FAKE_TIME",
    "Final of a generated journal is what the transcription of recovery.c in spec/Jbd2.tla computes with C03's registered deviations enabled (what an uninterrupted recovery yields); "
    "whether that equals the committed-transactions ground truth is property C03",
    "journal location: internal journal inode, or a journal device of its own (regular image file made by mke2fs -O journal_dev and attached by UUID with debugfs, because "
    "mke2fs -J device= insists on a block special file); e2fsck is given the journal with -j, debugfs jr finds it through libblkid (BLKID_FILE cache naming the image). "
    "The two devices lose unflushed writes independently; an fsync covers only the device it is issued on",
    "fast-commit replay is not modelled; the unix_io cache is over-approximated by nondeterministic write-back in the model and observed as it is in the traces",
]


# ---------------------------------------------------------------------------------------------- repository images
def repo_case(b, work, d, raw_img, fe, tier, rng, max_points, max_subsets, real_checks, suffix=""):
    """One repository image + front-end -> Case (or None with a note when the image is outside the domain)."""
    src = os.path.join(work, "rt_%s_%s%s.img" % (d, fe, suffix))
    with open(src, "wb") as f:
        f.write(raw_img)
    try:
        im = J.Image(src)
        if not im.needs_recovery() or not im.journal_inum:
            return None, "no pending internal journal"
        jmap = im.journal_map()
    except Exception as e:
        return None, "not parsed by the independent reader (%s)" % e
    bs = im.bs
    lay0 = Layout(bs, jmap[0], jmap[1:], {}, {}, im.blocks_count)
    a0 = lay0.abstract([raw_img])
    if a0["jsb"] != 1:
        return None, "journal superblock empty or without magic"
    # pass 1: which blocks does the replay write (before the journal is released), and which of them are written again later
    rc, msg, tr, bl = traced_run(b, fe, [src])
    raw, shadows = classify(tr, bl, [raw_img], lay0)
    shadow = shadows[0]
    for p in (src, tr, bl):
        if os.path.exists(p):
            os.unlink(p)
    sbblk = SB_OFF // bs
    released = False
    rep, later = [], set()
    contents = {}
    for r in raw:
        if r["t"] != "w":
            continue
        if any(e[0] == "jsb" and e[2] == 0 for e in r["ents"]):
            released = True
        if r["off"] % bs or len(r["data"]) % bs:
            continue
        for k in range(len(r["data"]) // bs):
            blk = r["off"] // bs + k
            if blk in (sbblk, jmap[0]) or blk in lay0.log:
                continue
            if released:
                later.add(blk)
            else:
                if blk not in contents:
                    rep.append(blk); contents[blk] = [raw_img[blk * bs:(blk + 1) * bs]]
                c = r["data"][k * bs:(k + 1) * bs]
                if c not in contents[blk]:
                    contents[blk].append(c)
    R = [x for x in rep if x not in later]
    tb = {i + 1: blk for i, blk in enumerate(R)}
    vers = {i + 1: {c: v for v, c in enumerate(contents[blk])} for i, blk in enumerate(R)}
    lay = Layout(bs, jmap[0], jmap[1:], tb, vers, im.blocks_count)
    final_abs = lay.abstract([shadow])
    st0, st1 = raw_img[SB_OFF + 58], shadow[SB_OFF + 58]
    rfail = 1 if ((st1 & 2) and not (st0 & 2)) or ((st0 & 1) and not (st1 & 1)) else 0      # the run recorded a failed recovery in s_state
    load = {"e": "load", "kind": "obs", "ext": 0, "jsb0": a0["jsb"], "nr": a0["sb"], "rfail": rfail, "init": [0] * len(R), "final": final_abs["blk"],
            "legal": [list(range(1, len(contents[blk]))) for blk in R]}
    c = run_case(b, work, "rt_%s_%s%s" % (d, fe, suffix), load, [raw_img], lay, fe, tier, rng, max_points, max_subsets, real_checks)
    c.key = "tests/%s" % d
    c.replay = {"test": d, "frontend": fe}
    c.nrep, c.nlater = len(R), len([x for x in rep if x in later])
    return c, ""


def repo_images(ev, vd, b, work, tier, rng):
    """The repository's j_* images with a pending internal journal: blocks and versions are named from the recorded run
    (load kind "obs"), Final = what the uninterrupted run left; e2fsck -E journal_only and debugfs jr (e2fsck -fy goes on to
    repair what these deliberately damaged images contain, rewriting replayed blocks: outside this part)."""
    tdir = os.path.join(b, "tests")
    if not os.path.isdir(tdir):
        ev.cov["repo_j_images"] = "tests directory not found in the build"; return
    names = []
    for d in sorted(os.listdir(tdir)):
        p = os.path.join(tdir, d, "image.gz")
        if not d.startswith("j_") or not os.path.exists(p) or "ext_jnl" in d or d.startswith("j_ext") or "fast_commit" in d or "corrupt_sb" in d:
            continue
        names.append(d)
    if tier == "quick":
        rng2 = random.Random(seed() + 17)
        rng2.shuffle(names)
        names = sorted(names[:8])
    max_points, max_subsets, real_checks = (4, 3, 1) if tier == "quick" else (40, 16, 2)
    specs = []
    for k, d in enumerate(names):
        raw_img = gzip.open(os.path.join(tdir, d, "image.gz")).read()
        fes = ["e2fsck_journal_only", "debugfs_jr"]
        if tier == "quick":
            fes = [fes[k % 2]]
        for fe in fes:
            specs.append((d, raw_img, fe))
    notes = {}

    def one(k, suffix=""):
        d, raw_img, fe = specs[k]
        c, note = repo_case(b, work, d, raw_img, fe, tier, random.Random(seed() * 31 + k), max_points, max_subsets, real_checks, suffix)
        if c is None:
            notes[d] = note
        return c
    with cf.ThreadPoolExecutor(max_workers=JOBS) as ex:
        got = list(ex.map(one, range(len(specs))))
    idx = [k for k, c in enumerate(got) if c is not None]
    cases = [got[k] for k in idx]
    for c in cases:
        if getattr(c, "abnormal", False) or hasattr(c, "abnormal_rerun"):
            vd.violation("abnormal|%s|%s" % (c.fe, c.key), "%s terminated abnormally on %s (%s)" % (c.fe, c.key, getattr(c, "abnormal_rerun", c.rc)), {"case": c.replay})
    ok = validate_cases(ev, vd, work, cases, "repo", lambda bi: one(idx[bi], "_c"))
    ev.cov["traces_validated_against_impl"] += ok
    ev.cov["crash_images_rerun"] += sum(c.crash_cases for c in cases)
    ev.cov["real_kill_crosschecks"] += sum(c.real_crash for c in cases)
    ev.cov["evaluations"] += sum(c.crash_cases + 1 for c in cases)
    for c in cases:
        for k in c.nontrivial:
            ev.nontrivial(k)
    ev.cov["repo_j_images"] = ("%d runs on %d repository j_* images with a pending internal journal (e2fsck -E journal_only / debugfs jr), %d accepted; "
                               "%d replayed blocks tracked, %d replayed blocks rewritten after the release left to the block-exact comparison"
                               % (len(cases), len({c.key for c in cases}), ok, sum(c.nrep for c in cases), sum(c.nlater for c in cases)))
    if notes:
        ev.cov["repo_j_images_skipped"] = notes


def replay(path):
    d = json.load(open(path))
    rp = d["replay"]
    if "case" not in rp:
        print("replay artefact carries no case (model-level finding): see its tlc_tail"); return 1
    cs = rp["case"]
    work = fast_tmp()
    try:
        b = build.build()
        ev = Evidence(PID, "quick", "model_checking")
        if "journal" in cs:
            j, prof, fe = cs["journal"], cs["profile"], cs["frontend"]
            ext = 1 if prof in EXT_PROFILES else 0
            base = ExtBase(b, work, prof) if ext else c03.Base(b, work, prof)
            srcs = [os.path.join(work, "rp." + sfx) for sfx in ("img", "jnl")[:1 + ext]]
            info = concretize_ext(j, base, srcs[0], srcs[1]) if ext else c03.concretize(j, base, srcs[0])
            img0 = read_all(srcs)
            lay = c03_layout(base, j, info)
            c = run_case(b, work, "rp", c03_load_line(j, ext), img0, lay, fe, "thorough", random.Random(1), 10 ** 6, 64, 1)
        elif "test" in cs:
            fe = cs["frontend"]
            raw_img = gzip.open(os.path.join(b, "tests", cs["test"], "image.gz")).read()
            c, note = repo_case(b, work, cs["test"], raw_img, fe, "thorough", random.Random(1), 40, 16, 1)
            if c is None:
                print("image outside the domain: " + note); return 2
        else:
            print("unknown replay case"); return 2
        c.replay, c.key = cs, "replay"
        rej, matched, inv, tail, _ = tracecheck.confirm([strip(x) for x in c.lines], os.path.join(SPEC, "Trace_JournalRun.tla"), trace_cfg(work), work)
        print("%s: %d device events, %d crash images re-run" % (fe, c.nraw, c.crash_cases))
        if rej:
            print(("invariant %s violated at " % inv if inv else "rejected at ") + describe(c, (matched - 1) if (inv and matched) else matched))
            print("VIOLATION property=%s replay=%s" % (PID, path)); return 1
        vd = Verdict(PID, ev); load_known(vd)
        devs = route_devs(vd, [c], set())
        print("replay accepted; crash images explained by a named deviation: %s" % devs)
        for k in vd.hit_known:
            print("KNOWN-FINDING: property=%s %s" % (PID, vd.known[k]["what"][:400]))
        if vd.viol:
            print("VIOLATION property=%s replay=%s" % (PID, path)); return 1
        return 0
    finally:
        shutil.rmtree(work, ignore_errors=True)
