"""C05 -- e2fsck never alters healthy files.

(1) Model checking (spec/FsckPreserve.tla): a small implementation-shaped model of what the five repair modes do to the
    representation (directory leaves + hash index with continuation flags: rehash.c; extent list / block map + metadata
    blocks: extents.c; bitmap, counts, flags, checksum fields: pass 5 and the checksum-only repairs), checked by TLC
    against the contract on the abstract state: TreeUnchanged, ExitOK, ConsistentAfter, ModeScope and the step refinement
    ContractRefined, from every consistent start of the small universe, with summary-only corruptions and two consecutive
    runs.  Negative controls: each literal faulty behaviour (Dev* = TRUE) must give a TreeUnchanged counterexample.
(2) Conformance (spec/Trace_FsckPreserve.tla): the universe of real inputs is ENUMERATED BY THE SPEC (Emit_FsckPreserve:
    modes, directory family, mapping shapes, summary corruption kinds).  (a) every base image of gen/mkbase.py and every
    image of the family (gen/c05_family.py) x the five modes; (b) corruptions confined to allocation summaries and
    checksum fields (gen/c05_summary.py, through the reader's location map) x modes.  The real e2fsck of the scratch build
    The family also carries i_size boundaries (spec constant SizeFamily, limits SizeLimits): per mapping format and block size one healthy
    file at every size class pass 1 compares with -- end of the mapping, inside the last block, written blocks past EOF as far as tolerated,
    unwritten blocks past EOF, a hole at the end, the largest size of the format and one byte below it, the last mappable block mapped,
    i_blocks in filesystem-block units -- and symlinks at the fast/slow and one-block boundaries; the tree oracle compares sizes.
    The family also carries (spec constants ExtStateFamily, CfDirFamily): written / unwritten (fallocated) extents -- every pattern
    of up to three neighbouring extents x logically+physically contiguous / hole / physically apart x trees that e2fsck leaves
    alone, collapses (pass 1E) or keeps in a leaf; the reader reads an unwritten block as zeros and every such block sits on
    non-zero stale bytes -- and casefold filesystems (strict and not) with casefolded and plain directories whose names are valid
    multi-byte UTF-8, differ only in case / normalisation, or are not UTF-8 at all.  The real e2fsck of the scratch build
    runs on a copy; the independent reader projects the image before and after; one ndjson line per step carries the
    projection; TLC evaluates Ext4Abs!Consistent on it, builds the observable tree and evaluates the invariants of
    FsckPreserve after every line.  Verdicts are TLC's (BADLINE <invariant>); python only runs tools and moves bytes."""
import os, sys, json, random, shutil, hashlib, re, time, struct, concurrent.futures as cf
from common import VERIF, fast_tmp, seed, die_broken, NPROC, tool_env
from common import run as sh
import build, tlc as T, mkbase, absstate
from evidence import Evidence, Verdict
import ext4read, c05_summary
try:
    import c05_family
except ImportError:          # the family generator is optional during development
    c05_family = None

PID = "C05"
SPEC = os.path.join(VERIF, "spec")
JOBS = max(2, min(6, NPROC // 2))
TLC_JOBS = 4
MODES = {"p": ["-fp"], "y": ["-fy"], "yD": ["-fyD"], "b2e": ["-fy", "-E", "bmap2extent"], "fo": ["-fy", "-E", "fixes_only"]}
MODE_ORDER = ["p", "y", "yD", "b2e", "fo"]
MC_DEVS = (("MC_FsckPreserve_devcoll.cfg", "DevRehashDropsCollision", "TreeUnchanged"), ("MC_FsckPreserve_devbound.cfg", "DevRehashDropsBoundary", "TreeUnchanged"),
           ("MC_FsckPreserve_devrebuild.cfg", "DevRebuildDropsLast", "TreeUnchanged"), ("MC_FsckPreserve_devcsum.cfg", "DevCsumClearsLeaf", "TreeUnchanged"),
           ("MC_FsckPreserve_devsbcsum.cfg", "DevSbCsumRefuses", "ExitOK"), ("MC_FsckPreserve_devuninit.cfg", "DevInodeUninitWipes", "TreeUnchanged"),
           ("MC_FsckPreserve_devmergestate.cfg", "DevRebuildMergesAcrossState", "TreeUnchanged"), ("MC_FsckPreserve_devenc.cfg", "DevEncCheckIgnoresStrict", "TreeUnchanged"),
           ("MC_FsckPreserve_devdupfold.cfg", "DevDupFoldsPlainDir", "TreeUnchanged"), ("MC_FsckPreserve_devcfhash.cfg", "DevCasefoldOpaqueHashFails", "ConsistentAfter"),
           ("MC_FsckPreserve_devsize.cfg", "DevSizeLimitInclusive", "TreeUnchanged"))


# ------------------------------------------------------------------------------------------------------------------
# observation
# ------------------------------------------------------------------------------------------------------------------
def observe(img):
    """reader projection of an image -> (stripped state for TLC, canonical text, representation signature)"""
    P = ext4read.project(img)
    s = absstate.strip(P, keep_tree=True)
    absstate._check_ints(s, "st")
    canon = json.dumps(s, sort_keys=True, separators=(",", ":"))
    dsig = {d["dir"]: (d.get("kind"), d.get("levels"), [e[4] for e in d.get("ents", [])]) for d in P.get("dirs", [])}
    msig = {i["ino"]: (i.get("map"), i.get("runs"), i["own"]["index"], i["own"]["ind"]) for i in P.get("inodes", [])
            if i.get("links", 0) > 0 and i.get("type") != "dir" and not i.get("special")}
    bs = P.get("geo", {}).get("bs", 1024)
    byino = {i["ino"]: i for i in P.get("inodes", [])}
    lin3 = any(d.get("kind") == "linear" and d["dir"] in byino and (byino[d["dir"]]["size"][1] // bs) >= 3 and "dir_index" in P["geo"]["features"]
               for d in P.get("dirs", []))
    # a casefolded, indexed directory that holds a name which is not valid UTF-8 (fact for the named deviation DevCasefoldOpaqueHashFails)
    cfinv = any(d.get("kind") == "htree" and d["dir"] in byino and "CASEFOLD" in byino[d["dir"]].get("flags", []) and
                any(not e[3] and not _is_utf8(e[4]) for e in d.get("ents", [])) for d in P.get("dirs", []))
    return s, canon, (dsig, msig, lin3, cfinv)


def _is_utf8(j):
    """is the name (in the reader's JSON-safe spelling, bytes outside printable ASCII as \\xNN) valid UTF-8"""
    if "\\x" not in j:
        return True
    out, i = bytearray(), 0
    while i < len(j):
        if j[i] == "\\" and j[i + 1:i + 2] == "x":
            out.append(int(j[i + 2:i + 4], 16)); i += 4
        else:
            out.append(ord(j[i])); i += 1
    try:
        out.decode("utf8")
        return True
    except UnicodeDecodeError:
        return False


def outside_sb_differs(a, b):
    """True iff two images differ anywhere but in the primary superblock (bytes 1024..2047)"""
    with open(a, "rb") as fa, open(b, "rb") as fb:
        while True:
            pos = fa.tell()
            x, y = fa.read(1 << 20), fb.read(1 << 20)
            if not x and not y:
                return False
            if x != y:
                if pos == 0 and len(x) == len(y) and x[:1024] == y[:1024] and x[2048:] == y[2048:]:
                    continue
                return True


def reader_crosscheck(b, img, name, work):
    """Sanity check of the observer, not an oracle: names, regular-file bytes and symlink targets that the scratch-built
    `debugfs rdump` extracts are compared with the reader's tree of the same image.  Returns (paths compared, [mismatches])."""
    dest = os.path.join(work, "rd_" + hashlib.sha1(name.encode()).hexdigest()[:8])
    shutil.rmtree(dest, ignore_errors=True)
    os.makedirs(dest)
    rc, out, err = sh([os.path.join(b, "debugfs", "debugfs"), "-R", "rdump / %s" % dest, img], env=tool_env(b), timeout=600)
    if rc != 0:
        shutil.rmtree(dest, ignore_errors=True)
        return 0, ["debugfs rdump exit %d" % rc]
    got = {}
    bdest = os.fsencode(dest)
    for d, ds, fs in os.walk(bdest):                 # names are byte strings (casefold family: not all of them are UTF-8)
        rel = "/" + "/".join(ext4read.jname(c) for c in os.path.relpath(d, bdest).split(b"/")) if d != bdest else "/"
        got[rel] = ("dir",)
        for f in fs + [x for x in ds if os.path.islink(os.path.join(d, x))]:
            pth = os.path.join(d, f)
            r = rel.rstrip("/") + "/" + ext4read.jname(f)
            if os.path.islink(pth):
                got[r] = ("lnk", os.fsdecode(os.readlink(pth)))
            elif os.path.isfile(pth):
                with open(pth, "rb") as fh:
                    got[r] = ("reg", "sha256:" + hashlib.sha256(fh.read()).hexdigest())
        ds[:] = [x for x in ds if not os.path.islink(os.path.join(d, x))]
    shutil.rmtree(dest, ignore_errors=True)
    P = ext4read.project(img)
    want = {}
    for t in P.get("tree", []):
        if t["type"] == "dir":
            want[t["path"]] = ("dir",)
        elif t["type"] == "lnk":
            want[t["path"]] = ("lnk", t.get("target", ""))
        elif t["type"] == "reg":
            want[t["path"]] = ("reg", t.get("digest", ""))
    bad = ["%s: reader %s, rdump %s" % (k[:80], str(want.get(k))[:90], str(got.get(k))[:90]) for k in sorted(set(want) | set(got)) if want.get(k) != got.get(k)]
    return len(want), bad


def run_behaviour(job):
    """One behaviour = one image + a list of scenarios; a scenario is [recipe or None, [modes run one after another]] on a
    fresh copy.  Returns (lines, info): lines are the trace lines (dicts), info[k] describes line k for reports."""
    b, img, name, scenarios, work, idx = job["build"], job["img"], job["name"], job["scenarios"], job["work"], job["idx"]
    env = tool_env(b)
    fsck = os.path.join(b, "e2fsck", "e2fsck")
    w = os.path.join(work, "b%d.img" % idx)
    keep = w + ".pre"
    lines, info = [], []
    try:
        s0, c0, sig0 = observe(img)
        lines.append({"e": "Base", "img": name, "st": s0})
        last_dmg = None
        info.append({"what": "base", "img": name})
        for sc in scenarios:
            recipe, modes = sc
            shutil.copyfile(img, w)
            lines.append({"e": "Restore"})
            info.append({"what": "restore", "img": name})
            cprev, sigprev = c0, sig0
            if recipe is not None:
                c05_summary.apply(w, recipe)
                s1, c1, sig1 = observe(w)
                if last_dmg is not None and last_dmg == c1:
                    lines.append({"e": "Damage", "recipe": recipe["id"]})
                else:
                    lines.append({"e": "Damage", "recipe": recipe["id"], "st": s1})
                last_dmg = c1
                info.append({"what": "damage", "img": name, "recipe": recipe["id"]})
                cprev, sigprev = c1, sig1
            for m in modes:
                shutil.copyfile(w, keep)
                t0 = time.time()
                rc, out, err = sh([fsck] + MODES[m] + [w], env=env, timeout=300)
                ex = rc if 0 <= rc < 124 else 99
                s2, c2, sig2 = observe(w)
                ln = {"e": "Fsck", "mode": m, "exit": ex, "same": 0,
                      "dch": 1 if sig2[0] != sigprev[0] else 0, "mch": 1 if sig2[1] != sigprev[1] else 0, "lin3": 1 if sigprev[2] else 0, "cfinv": 1 if sigprev[3] else 0}
                if c2 == cprev:
                    ln["same"] = 1
                elif c2 == c0:
                    ln["same"] = 2
                else:
                    ln["st"] = s2
                lines.append(ln)
                info.append({"what": "fsck", "img": name, "recipe": recipe["id"] if recipe else "", "mode": m, "exit": ex, "rc": rc,
                             "rewrote": 1 if outside_sb_differs(keep, w) else 0, "dch": ln["dch"], "mch": ln["mch"], "same": ln["same"],
                             "out": (out + err).decode("utf8", "replace")[-1500:], "ms": int((time.time() - t0) * 1000)})
                cprev, sigprev = c2, sig2
    finally:
        for p in (w, keep):
            if os.path.exists(p):
                os.unlink(p)
    return lines, info


# ------------------------------------------------------------------------------------------------------------------
# TLC on the traces
# ------------------------------------------------------------------------------------------------------------------
def _run_trace(args):
    path, n, timeout = args
    r = T.tlc(os.path.join(SPEC, "Trace_FsckPreserve.tla"), os.path.join(SPEC, "Trace_FsckPreserve.cfg"), workers=1, timeout=timeout,
              env={"TRACE": path}, xmx="3g")
    bad = [(int(a), b) for a, b in re.findall(r'<<"BADLINE", (\d+), "(\w+)">>', r.out)]
    div = [int(x) for x in re.findall(r'<<"DIVERGE", (\d+)>>', r.out)]
    dev = [(int(a), b) for a, b in re.findall(r'<<"DEVIATION", (\d+), "(\w+)">>', r.out)]
    failed = {int(a): re.findall(r'"(\w+)"', b) for a, b in re.findall(r'<<"FAILED", (\d+), \{([^}]*)\}>>', r.out)}
    complete = (r.rc == 0 and r.violated is None and r.error is None)
    return dict(bad=bad, div=div, dev=dev, failed=failed, complete=complete, error=r.error or r.violated, tail=r.out[-2500:], distinct=r.distinct,
                generated=r.generated, wall=r.wall)


def validate(behaviours, work, tag="t", max_states=24, timeout=1500):
    """behaviours: list of lists of line dicts.  Chunks hold whole behaviours.  Returns per-behaviour results:
    res[bi] = {"bad": [(line index in behaviour, invariant)], "div": [...], "failed": {line: [conjuncts]}} + totals."""
    chunks, cur, cnt = [], [], 0
    for bi, beh in enumerate(behaviours):
        ns = sum(1 for ln in beh if "st" in ln)
        if cur and cnt + ns > max_states:
            chunks.append(cur); cur = []; cnt = 0
        cur.append(bi); cnt += ns
    if cur:
        chunks.append(cur)
    tasks = []
    for ci, ch in enumerate(chunks):
        p = os.path.join(work, "%s%04d.ndjson" % (tag, ci))
        n = 0
        with open(p, "w") as f:
            for bi in ch:
                for ln in behaviours[bi]:
                    f.write(json.dumps(ln, separators=(",", ":"), sort_keys=True)); f.write("\n"); n += 1
        tasks.append((p, n, timeout))
    with cf.ThreadPoolExecutor(max_workers=TLC_JOBS) as ex:
        outs = list(ex.map(_run_trace, tasks))
    res = {bi: {"bad": [], "div": [], "dev": [], "failed": {}} for bi in range(len(behaviours))}
    tot = dict(distinct=0, generated=0, wall=0.0, broken=[], runs=len(tasks))
    for ch, o, t in zip(chunks, outs, tasks):
        tot["distinct"] += o["distinct"]; tot["generated"] += o["generated"]; tot["wall"] += o["wall"]
        if not o["complete"]:
            tot["broken"].append(o); continue
        starts, pos = [], 1
        for bi in ch:
            starts.append((pos, bi)); pos += len(behaviours[bi])

        def locate(gl):
            for p0, bi in reversed(starts):
                if gl >= p0:
                    return bi, gl - p0
        for gl, inv in o["bad"]:
            bi, k = locate(gl); res[bi]["bad"].append((k, inv))
        for gl in o["div"]:
            bi, k = locate(gl); res[bi]["div"].append(k)
        for gl, name in o["dev"]:
            bi, k = locate(gl); res[bi]["dev"].append((k, name))
        for gl, fl in o["failed"].items():
            bi, k = locate(gl); res[bi]["failed"][k] = fl
        os.unlink(t[0])
    return res, tot


# ------------------------------------------------------------------------------------------------------------------
# model checking
# ------------------------------------------------------------------------------------------------------------------
def model_check(tier, ev, vd):
    mod = os.path.join(SPEC, "FsckPreserve.tla")
    # dir / map: names, collisions, leaf boundaries, block map vs extents, spill into a leaf, summary damage; dircf: casefold flag x strict
    # mode x invalid names x case twins; mapst: written / unwritten extents in trees that e2fsck rebuilds (InitStatePreserved)
    # size: i_size classes of the file (end of the mapping, inside the last block, blocks past EOF, hole at the end, the limit of the
    # mapping format and one byte below it) x block map / extents x written / unwritten (pass1.c check_blocks)
    cfgs = (["MC_FsckPreserve_dir.cfg", "MC_FsckPreserve_map_q.cfg", "MC_FsckPreserve_dircf.cfg", "MC_FsckPreserve_mapst.cfg", "MC_FsckPreserve_size.cfg"] if tier == "quick" else
            ["MC_FsckPreserve_dir_t.cfg", "MC_FsckPreserve_map_t.cfg", "MC_FsckPreserve_dircf_t.cfg", "MC_FsckPreserve_mapst.cfg", "MC_FsckPreserve_size_t.cfg"])
    for c in cfgs:
        r = T.tlc(mod, os.path.join(SPEC, c), workers=4, timeout=2400, xmx="4g")
        ev.add_tlc(r, "%s: every consistent start, <= MaxDamage summary corruptions, <= 2 runs in any mode; TreeUnchanged, ExitOK, ConsistentAfter, ModeScope, ContractRefined%s"
                   % (c, ", InitStatePreserved" if ("map" in c or "size" in c) else ""))
        if r.violated:
            vd.violation("model:%s:%s" % (c, r.violated), "FsckPreserve (%s): %s violated by the repaired design" % (c, r.violated), {"tlc": r.out[-4000:]})
        elif not r.ok:
            die_broken("TLC failed on %s: %s\n%s" % (c, r.error, r.out[-1500:]))
    ces = []
    for c, dev, inv in MC_DEVS:
        r = T.tlc(mod, os.path.join(SPEC, c), workers=2, timeout=600, xmx="2g")
        if r.violated != inv:
            die_broken("%s (%s = TRUE) did not produce the %s counterexample: the invariant does not bind (%s %s)" % (c, dev, inv, r.violated, r.error))
        ces.append(dev)
    ev.cov["literal_model_counterexamples"] = ces


def load_universe(work):
    out = os.path.join(work, "universe.json")
    r = T.tlc(os.path.join(SPEC, "Emit_FsckPreserve.tla"), os.path.join(SPEC, "Emit_FsckPreserve.cfg"), workers=1, timeout=300, env={"OUT": out}, xmx="1g")
    if not r.ok or not os.path.exists(out):
        die_broken("TLC could not enumerate the universe (Emit_FsckPreserve): %s\n%s" % (r.error, r.out[-1500:]))
    u = json.load(open(out))
    if sorted(u["modes"]) != sorted(MODES):
        die_broken("mode set of the specification %s differs from the harness %s" % (u["modes"], sorted(MODES)))
    return u


# ------------------------------------------------------------------------------------------------------------------
# the check
# ------------------------------------------------------------------------------------------------------------------
def recipes_for(img, kinds, per_kind):
    r, P = c05_summary.load(img)
    if "fatal" in P or "reader_err" in P:
        return []
    return c05_summary.recipes(r, P, [tuple(k) for k in kinds], per_kind=per_kind)


def plan(tier, b, basedir, profiles, fam, univ, rng):
    """-> list of (image path, image name, scenarios).  One entry becomes one behaviour."""
    beh = []
    images = [(os.path.join(basedir, p + ".img"), "base:" + p) for p in profiles] + [(f["img"], "family:" + f["name"]) for f in fam]
    # (a): every image x every mode, each on a fresh copy; thorough adds every ordered pair of modes run back to back
    for path, name in images:
        sc = [[None, [m]] for m in MODE_ORDER]
        small = name.split(":")[1].split("_")[0] in ("st", "cf", "cfs", "sz")    # the small carriers of the extent-state / casefold / i_size families
        if small and tier == "quick":
            pass                                                                  # five modes on fresh copies; sequences in the thorough tier
        elif tier == "thorough":
            sc += [[None, [m1, m2]] for m1 in ("yD", "b2e") for m2 in MODE_ORDER]
        else:
            sc += [[None, ["yD", "b2e"]]]
        if name.startswith("family:"):          # big images: two behaviours, so that the tool runs spread over the workers
            beh.append((path, name, sc[:3])); beh.append((path, name, sc[3:]))
        else:
            beh.append((path, name, sc))
    # (b): summary-only corruptions
    per_kind = 1                    # targets per kind and image (c05_summary spreads them over groups / roles)
    allrec = []
    fam_b = ("family:e4_linear", "family:e4_rehashed_then_grown", "family:up_linear")      # thorough: big images, one target per kind
    for path, name in images:
        if name.startswith("family:") and (tier == "quick" or name not in fam_b):
            continue
        for rc in recipes_for(path, univ["summarykinds"], 1 if name.startswith("family:") else per_kind):
            allrec.append((path, name, rc))
    nrec_total = len(allrec)
    # the mode a recipe runs in is a function of its position in the (deterministic) enumeration, the same in both tiers, so that
    # the quick tier only ever runs (recipe, mode) pairs the thorough tier runs too
    mode_of = {id(x): MODE_ORDER[i % 5] for i, x in enumerate(allrec)}
    if tier == "quick":
        # stratified seeded sample: every (kind, value class, checksum variant) at least once -- preferably in a mode that answers
        # yes (preen may legitimately refuse) -- then fill up
        order = list(allrec)
        rng.shuffle(order)
        chosen, seen = [], set()
        for want_yes in (True, False):
            for x in order:
                k = (x[2]["kind"], x[2]["val"], x[2]["csum"])
                if k not in seen and (mode_of[id(x)] != "p" or not want_yes):
                    seen.add(k); chosen.append(x)
        ids = {id(x) for x in chosen}
        rest = [x for x in order if id(x) not in ids]
        chosen += rest[:max(0, 110 - len(chosen))]
        sel = [(x, [mode_of[id(x)]]) for x in chosen]
    else:
        sel = []
        for i, x in enumerate(allrec):
            if x[1].startswith("family:"):
                ms = [["y", "yD", "b2e", "fo", "p"][i % 5]]
            else:
                ms = [MODE_ORDER[i % 5]] + (["y"] if i % 4 == 0 else [])      # every recipe in one mode (cycling), every 4th also in -fy
            sel.append((x, list(dict.fromkeys(ms))))
    by_img = {}
    for (path, name, rc), ms in sel:
        by_img.setdefault((path, name), []).extend([[rc, [m]] for m in ms])
    for (path, name), sc in by_img.items():
        for i in range(0, len(sc), 10):
            beh.append((path, name, sc[i:i + 10]))
    return beh, nrec_total


def why(info, inv, failed):
    s = "%s on %s%s: %s violated (exit %s%s)" % (" ".join(["e2fsck"] + MODES.get(info.get("mode"), ["?"])), info["img"],
                                                 (" after " + info["recipe"]) if info.get("recipe") else "", inv, info.get("exit"),
                                                 (", failing conjuncts %s" % failed) if failed else "")
    return s


def run(tier):
    ev = Evidence(PID, tier, "model_checking")
    vd = Verdict(PID, ev)
    kf = os.path.join(VERIF, "fixes", "C05_known_findings.txt")
    if os.path.exists(kf):
        for ln in open(kf):
            ln = ln.strip()
            if ln.startswith("{"):
                d = json.loads(ln)
                if d.get("property") == PID:
                    for k in [d["key"]] + list(d.get("keys", [])):
                        vd.known[k] = d
    work = fast_tmp()
    try:
        try:
            b = build.build()
        except RuntimeError as e:
            die_broken(str(e))
        basedir, meta = mkbase.base_images(b)
        profiles = sorted(p for p, i in meta.items() if i.get("ok"))
        unusable = sorted(p for p, i in meta.items() if not i.get("ok"))
        univ = load_universe(work)
        rng = random.Random(seed())
        fam, fam_note = [], "family generator not available"
        if c05_family is not None:
            try:
                fam, fam_note = c05_family.family_images(b, univ, tier)
            except RuntimeError as e:
                die_broken("family generator failed: %s" % e)
        # gen/mkbase.py finishes every base image with `e2fsck -fyD` of the tree under test and keeps only those that pass -fn; the
        # family's `linear` images are made by mke2fs -d alone.  The check goes on with whatever starts consistent (each Base line is
        # re-validated by TLC) and only gives up when nothing does.
        if not profiles and not fam:
            die_broken("no usable image: base profiles %s unusable, family %s" % (unusable, str(fam_note)[:300]))
        ev.cov["unusable_base_profiles"] = unusable
        with cf.ThreadPoolExecutor(max_workers=1) as bg:
            mc = bg.submit(model_check, tier, ev, vd)
            plans, nrec_total = plan(tier, b, basedir, profiles, fam, univ, rng)
            jobs = [dict(build=b, img=p, name=n, scenarios=sc, work=work, idx=i) for i, (p, n, sc) in enumerate(plans)]
            t0 = time.time()
            with cf.ProcessPoolExecutor(max_workers=JOBS) as ex:
                outs = list(ex.map(run_behaviour, jobs))
            t_tools = time.time() - t0
            behaviours = [o[0] for o in outs]
            infos = [o[1] for o in outs]
            res, tot = validate(behaviours, work)
            mc.result()
        # ---- reader sanity: the scratch-built debugfs reads the same names, bytes and symlink targets
        xc_imgs = [(os.path.join(basedir, p + ".img"), "base:" + p) for p in (rng.sample(profiles, min(3, len(profiles))) if tier == "quick" else profiles)]
        # unwritten extents (read as zeros by both readers) and names that are not UTF-8
        xc_imgs += [(f["img"], "family:" + f["name"]) for f in fam
                    if f["carrier"] in ("st", "cf", "cfs") and (tier != "quick" or f["name"] in ("st_shaped", "cf_linear"))]
        xc = {"images": 0, "paths_compared": 0, "mismatches": []}
        for pth, nm in xc_imgs:
            n, bad = reader_crosscheck(b, pth, nm, work)
            xc["images"] += 1; xc["paths_compared"] += n
            xc["mismatches"] += ["%s %s" % (nm, x) for x in bad[:5]]
        ev.cov["reader_crosscheck_debugfs_rdump"] = xc
        if tot["broken"]:
            die_broken("TLC failed on a trace chunk: %s\n%s" % (tot["broken"][0]["error"], tot["broken"][0]["tail"][-1500:]))
        ev.cov["states"] += tot["distinct"]; ev.cov["transitions"] += tot["generated"]
        ev.cov["trace_tlc_runs"] = tot["runs"]; ev.cov["trace_tlc_wall_s"] = round(tot["wall"], 1); ev.cov["tool_wall_s"] = round(t_tools, 1)
        # ---- triage of the failing lines
        excluded, cand = [], []
        for bi, r in res.items():
            skip_from = None
            for k, inv in sorted(r["bad"]):
                what = infos[bi][k]["what"]
                if inv in ("BaseConsistent",) or what == "base":
                    excluded.append({"img": infos[bi][k]["img"], "why": "base image not Consistent: %s" % r["failed"].get(k)}); skip_from = -1
                elif what == "damage":
                    # damage that is not confined to the summaries (files changed or a non-summary conjunct broke): outside the universe
                    excluded.append({"img": infos[bi][k]["img"], "recipe": infos[bi][k]["recipe"], "why": "%s %s" % (inv, r["failed"].get(k))})
                elif what == "fsck":
                    cand.append((bi, k, inv))
            r["excluded_base"] = skip_from == -1
        excl_dmg = {(e["img"], e.get("recipe")) for e in excluded if e.get("recipe")}
        excl_base = {e["img"] for e in excluded if not e.get("recipe")}
        cand = [(bi, k, inv) for bi, k, inv in cand if infos[bi][k]["img"] not in excl_base and (infos[bi][k]["img"], infos[bi][k]["recipe"]) not in excl_dmg]
        # ---- confirmation: re-run the behaviours that hold a rejected line, validate again
        confirmed = []
        if cand:
            bis = sorted({bi for bi, k, inv in cand})
            jobs2 = [dict(jobs[bi], idx=900000 + bi) for bi in bis]
            with cf.ProcessPoolExecutor(max_workers=JOBS) as ex:
                outs2 = list(ex.map(run_behaviour, jobs2))
            res2, tot2 = validate([o[0] for o in outs2], work, tag="conf")
            if tot2["broken"]:
                die_broken("TLC failed while confirming: %s" % tot2["broken"][0]["error"])
            for bi, k, inv in cand:
                j = bis.index(bi)
                if (k, inv) not in res2[j]["bad"]:
                    die_broken("rejected line did not reproduce on the re-run (non-deterministic observation): %s" % why(infos[bi][k], inv, None))
                confirmed.append((bi, k, inv, res2[j]["failed"].get(k)))
        seen_keys = set()
        for bi, k, inv, failed in confirmed:
            inf = infos[bi][k]
            # the scenario this line belongs to
            key = "%s|%s|%s|%s" % (inf["img"], inf["recipe"] or "-", inf["mode"], inv)
            sc = scenario_of(plans[bi][2], behaviours[bi], k)
            if key in seen_keys:
                continue
            seen_keys.add(key)
            vd.violation(key, why(inf, inv, failed), {"img": inf["img"], "scenario": sc, "invariant": inv, "exit": inf["exit"], "failed": failed,
                                                        "e2fsck_out": inf["out"]})
        # ---- lines that the conformance spec accepts only through a named deviation: known findings, keyed by the deviation
        devhits = {}
        for bi, r in res.items():
            for k, name in r["dev"]:
                inf = infos[bi][k]
                devhits.setdefault(name, []).append("%s|%s|%s" % (inf["img"], inf["recipe"] or "-", inf["mode"]))
                vd.violation(name, "%s taken: %s" % (name, why(inf, name, r["failed"].get(k))),
                             {"img": inf["img"], "scenario": scenario_of(plans[bi][2], behaviours[bi], k), "deviation": name, "exit": inf["exit"],
                              "failed": r["failed"].get(k), "e2fsck_out": inf["out"]})
        ev.cov["deviation_lines"] = {k: {"count": len(v), "first": sorted(set(v))[:12]} for k, v in devhits.items()}
        # ---- evidence
        fs_lines = [(bi, k) for bi in range(len(infos)) for k, i in enumerate(infos[bi]) if i["what"] == "fsck"]
        bad_b = {bi for bi, k, inv, f in confirmed}
        ev.cov["evaluations"] = len(fs_lines)
        ev.cov["traces_validated_against_impl"] = len(behaviours) - len(bad_b)
        ev.cov["states_projected_and_evaluated_by_tlc"] = sum(1 for beh in behaviours for ln in beh if "st" in ln)
        ev.cov["fsck_lines_identical_projection"] = sum(1 for bi, k in fs_lines if infos[bi][k]["same"])
        ev.cov["universe_a_runs"] = sum(1 for bi, k in fs_lines if not infos[bi][k]["recipe"])
        ev.cov["universe_b_runs"] = sum(1 for bi, k in fs_lines if infos[bi][k]["recipe"])
        ev.cov["universe_b_recipes_enumerated"] = nrec_total
        ev.cov["images"] = {"base": len(profiles), "family": len(fam)}
        ev.cov["family_note"] = fam_note
        ev.cov["excluded_inputs"] = excluded[:60]
        ev.cov["excluded_count"] = len(excluded)
        ev.cov["mode_scope_divergences"] = [(infos[bi][k]["img"], infos[bi][k]["recipe"], infos[bi][k]["mode"]) for bi, r in res.items() for k in r["div"]][:40]
        exits = {}
        for bi, k in fs_lines:
            i = infos[bi][k]
            exits["%s:%d" % (i["mode"], i["exit"])] = exits.get("%s:%d" % (i["mode"], i["exit"]), 0) + 1
            if not i["recipe"]:
                if i["rewrote"]:
                    ev.nontrivial(("a", i["img"], i["mode"], bi, k))
            elif i["exit"] & 1:
                ev.nontrivial(("b", i["img"], i["recipe"], i["mode"]))
        ev.cov["exit_histogram"] = exits
        ev.cov["runs_with_dir_rewritten"] = sum(1 for bi, k in fs_lines if infos[bi][k]["dch"])
        ev.cov["runs_with_mapping_rewritten"] = sum(1 for bi, k in fs_lines if infos[bi][k]["mch"])
        ev.cov["rule"] = ("universe = (a) %d base images + %d family images x modes %s on fresh copies plus back-to-back mode sequences; (b) summary-only recipes "
                          "(FsckPreserve!SummaryKinds x targets x checksum variant; %d enumerated, quick = seeded stratified sample with every kind once) x modes; "
                          "non-trivial = (a) run after which the image differs outside the primary superblock, (b) run whose exit status has the "
                          "'errors corrected' bit; distinct by (image, recipe, mode, position)" % (len(profiles), len(fam), MODE_ORDER, nrec_total))
        for bi, k in [x for x in fs_lines if infos[x[0]][x[1]]["rewrote"]][:4]:
            i = infos[bi][k]
            ev.sample({"img": i["img"], "recipe": i["recipe"], "mode": i["mode"], "exit": i["exit"], "dir_rewritten": i["dch"], "mapping_rewritten": i["mch"]})
        ev.assumptions = [
            "e2fsck runs on an unmounted image file with the fixed fake clock (E2FSCK_TIME, E2FSPROGS_FAKE_TIME), E2FSCK_CONFIG=/dev/null",
            "tree = reader/ext4read.py namespace projection restricted to the fields the property names (path, type, size, mode, uid, gid, nlink, "
            "content digest, symlink target, xattr name -> value digest); directory sizes, times, inode numbers, flags and device numbers are not compared",
            "Consistent = spec/Ext4Abs.tla evaluated by TLC inside Trace_FsckPreserve on the reader's projection of the image after the run",
            "a base image that the oracle does not find Consistent and a recipe after which TLC finds a file changed or a non-summary conjunct broken "
            "are outside the universe (listed under excluded_inputs), never a violation",
            "-fp on a damaged image may refuse (exit bit 4) instead of repairing, as preen mode is documented to; the files must be unchanged either way",
            "an after-image whose projection is byte-identical (canonical JSON) to the projection before the run, or to the base image's, is not "
            "evaluated again: TLC's verdict on the identical state is reused (fsck_lines_identical_projection)",
            "ext4_1k/quota/ea_inode base images are finished with e2fsck by gen/mkbase.py (see there)",
            "unwritten extents: a read returns zeros for an unwritten block exactly as for a hole (the reader honours the uninit bit; cross-checked "
            "against debugfs rdump on the extent-state carrier); every unwritten block of the family lies on non-zero bytes (measured by the generator), "
            "so a change of the initialised state of a block changes the content digest",
            "casefold universe (FsckPreserve!DirOK): a casefolded directory holds no two names with the same folded form, and on a strict-mode filesystem "
            "no name that is not valid UTF-8 (the kernel refuses to create either); everything else -- invalid UTF-8 in casefolded directories of a "
            "non-strict filesystem and in plain directories of any filesystem, names differing only in case in plain directories -- is a healthy start. "
            "The hash of a name that cannot be folded is the hash of its bytes (kernel ext4fs_dirhash), which is how the indexed casefolded directories "
            "with such names are built (indexed without the flag, then flagged)",
            "family images are no longer dropped when `e2fsck -fn` of the tree under test complains: whether a start is consistent is TLC's verdict on "
            "the reader's projection (BaseConsistent)",
            "i_size universe (FsckPreserve!SizeFamily): the size of a regular file is healthy iff the last WRITTEN block starts at or below it and it "
            "does not exceed what the mapping format expresses (block map: (12 + n + n^2 + n^3) * blocksize inclusive; extents: 2^32 * blocksize - 1); "
            "the size carriers have huge_file, so that the 2^32-sector cap of i_blocks-in-sectors filesystems is not the binding limit; an element whose "
            "sparse host file the host cannot hold is not built (family_note.images.<carrier>.not_built_on_this_host)",
            "not covered: encrypted directories, large_dir (3-level htree), extents longer than 32767/32768 blocks (the length split of the rebuild), "
            "unwritten extents on bigalloc / 4 KiB-block filesystems, casefold + summary-only corruption (universe b) in the quick tier",
        ]
        return vd.finish()
    finally:
        shutil.rmtree(work, ignore_errors=True)


def scenario_of(scenarios, beh, k):
    """the scenario (recipe, modes) that produced line k of a behaviour"""
    n = -1
    for j, ln in enumerate(beh):
        if ln["e"] == "Restore":
            n += 1
        if j == k:
            break
    rc, modes = scenarios[n]
    return {"recipe": rc, "modes": modes}


def replay(path):
    d = json.load(open(path))
    rp = d.get("replay", d)
    work = fast_tmp()
    try:
        b = build.build()
        basedir, meta = mkbase.base_images(b)
        name = rp["img"]
        if name.startswith("base:"):
            img = os.path.join(basedir, name[5:] + ".img")
        else:
            univ = load_universe(work)
            fam, _ = c05_family.family_images(b, univ, "thorough")
            img = [f["img"] for f in fam if "family:" + f["name"] == name][0]
        sc = rp["scenario"]
        lines, info = run_behaviour(dict(build=b, img=img, name=name, scenarios=[[sc["recipe"], sc["modes"]]], work=work, idx=0))
        res, tot = validate([lines], work)
        if tot["broken"]:
            die_broken("TLC failed: %s" % tot["broken"][0]["error"])
        for k, i in enumerate(info):
            if i["what"] == "fsck":
                print("%s %s %s: exit %d  dir_rewritten=%d mapping_rewritten=%d  failed=%s" % (i["img"], i["recipe"] or "-", " ".join(MODES[i["mode"]]), i["exit"],
                      i["dch"], i["mch"], res[0]["failed"].get(k)))
                print("    " + i["out"].replace("\n", "\n    ")[-700:])
        print("by hand: cp %s x.img; %s%s; then compare `debugfs -R 'ls -l /' x.img` / rdump with the original" % (
            img, ("patch bytes %s; " % sc["recipe"]["patches"]) if sc["recipe"] else "", "; ".join("e2fsck %s x.img" % " ".join(MODES[m]) for m in sc["modes"])))
        for k, name in res[0]["dev"]:
            print("KNOWN-FINDING: property=%s deviation %s taken on this input" % (PID, name))
        bad = [(k, inv) for k, inv in res[0]["bad"] if info[k]["what"] == "fsck"]
        if bad:
            print("VIOLATION property=%s replay=%s  (%s)" % (PID, path, why(info[bad[0][0]], bad[0][1], res[0]["failed"].get(bad[0][0]))))
            return 1
        print("replay accepted by Trace_FsckPreserve")
        return 0
    finally:
        shutil.rmtree(work, ignore_errors=True)
