"""C03 -- journal replay applies exactly the committed, unrevoked transactions; both front-ends agree; afterwards the
journal is empty and needs_recovery is clear.

(1) TLC model-checks spec/Jbd2.tla: format-level journal generator (WriteTxn / Checkpoint / Damage), property-level
    Final computed from the generator's history, Recover = transcription of recovery.c's three passes.
    - with every deviation constant FALSE the transcription (with three one-line repairs) satisfies ReplayExact;
    - with the deviations of the pinned code enabled ReplayExactOrDev holds: the property fails only in behaviours
      that take a named deviation.
(2) Conformance: seeded, stratified abstract journals (gen/jbd2sample.py, same universe) are encoded into a real image
    by the independent encoder gen/jbd2write.py and recovered three ways (e2fsck -y -E journal_only, e2fsck -fy,
    debugfs -w -R jr).  Target-block versions, journal s_start, needs_recovery and stray writes are read back with
    the independent decoder.  Every journal becomes a two-line behaviour validated by TLC against Trace_Jbd2
    (Recover must produce the observed blocks on all three front-ends; invariants ReplayExactOrDev and
    GroundTruthSound).  Final is evaluated by TLC from the logged history.
    The journal superblock every front-end leaves is part of the observation: s_start = 0 and s_sequence = what
    *_journal_release writes after a recovery with this outcome (= JsbAfter of the spec: past every transaction that
    was live, unless a named deviation was taken), identical for the three front-ends.
(2b) Second life of the log (spec/Jbd2Gen.tla): on the image one front-end left, the generator restarts the log from the
    journal superblock it FINDS there (tid = observed s_sequence + 0/1, ring position 1, old blocks stay in place,
    target blocks rewritten in place), a crash, and a second replay by all three front-ends.  TLC decides whether a
    journal may be continued (RestartableOf) and validates the second replay against Final of the second life.
(2c) Transaction identifiers wrap (32 bit): every sequence number of the spec and of the sampled journals is an offset from a
    per-journal base; the spec states the order of two tids as the sign of their difference modulo 2^32 (Jbd2.tla, section
    "transaction identifiers", evaluated by TLC on the 16-bit halves of base + offset).  The model checker requires, in every state,
    the outcome of Recover to be exact for every base of the boundary catalogue (tid 0 / tid 0x80000000 on each transaction a
    behaviour can reach; Jbd2Gen TidBases, RecoverExactAnyBase);
    the sampler cycles the same catalogue (jbd2sample.TID_KINDS x TID_POS) through the journals, for both lives of the log; the
    s_sequence a front-end leaves is compared as the 32-bit value on disk.
(3) The repository's own j_* test images are decoded by the independent decoder and run the same way (extra traces)."""
import os, sys, json, random, shutil, subprocess, time, struct, gzip, hashlib, concurrent.futures as cf
from common import VERIF, fast_tmp, seed, die_broken, NPROC, tool_env, run as crun
import build, tlc as T, tracecheck
from evidence import Evidence, Verdict
import jbd2write as J
import jbd2sample as S

PID = "C03"
SPEC = os.path.join(VERIF, "spec")
TMPD = "/dev/shm/agent-c03" if os.path.isdir("/dev/shm/agent-c03") else None
JOBS = 4
FRONTENDS = ["e2fsck_journal_only", "e2fsck_full", "debugfs_jr"]
# deviations of the pinned tree modelled in the conformance cfg (TRUE = what the code does); see fixes/C03_known_findings.txt
CONF_DEVS = dict(DevReplayPastBadTag="TRUE", DevScanAbort="TRUE", DevAsyncLastBadCommit="FALSE", DevCommitBreakContinues="FALSE")
PROFILES = {
    "ext4_1k": ["-t", "ext4", "-b", "1024", "-J", "size=1"],
    "ext3_1k": ["-t", "ext3", "-b", "1024", "-J", "size=1"],
    "ext4_4k_csum64": ["-t", "ext4", "-b", "4096", "-O", "metadata_csum,64bit", "-J", "size=4"],
}
PROFILE_SIZE = {"ext4_1k": "8M", "ext3_1k": "8M", "ext4_4k_csum64": "16M"}


def jenv():
    e = {}
    if TMPD:
        e["JAVA_TOOL_OPTIONS"] = "-Djava.io.tmpdir=" + TMPD
    return e


def load_known(vd):
    """Known findings of this property live in fixes/C03_known_findings.txt (brief); merge them into the Verdict."""
    p = os.path.join(VERIF, "fixes", PID + "_known_findings.txt")
    if os.path.exists(p):
        for ln in open(p):
            ln = ln.strip()
            if ln.startswith("{"):
                d = json.loads(ln)
                if d.get("property") == PID:
                    vd.known[d["key"]] = d


# ---------------------------------------------------------------------------------------------- model checking
def mc_constants(**kw):
    c = dict(L=6, Blocks="{1, 2}", MaxTxn=2, MaxTags=1, MaxDmg=1, Csum=3, Async=0, EscSet="{0}", OldTime=0,
             DevReplayPastBadTag="FALSE", DevScanAbort="FALSE", DevAsyncLastBadCommit="FALSE", DevCommitBreakContinues="FALSE")
    c.update(kw)
    return c


def gen_constants(**kw):
    """Constants of Jbd2Gen (Jbd2 + lives of the log + catalogue of tid bases)."""
    c = mc_constants(MaxGen=1, Skews="{0, 1}", MaxOver=0, TidWrapU="{}", TidWrapS="{}", TidSmall="{0}")
    c.update(kw)
    return c


def tid_catalogue(last, signed=None):
    """Boundary catalogue of the tid base for behaviours whose offsets reach `last` (s_sequence the last replay leaves included):
    tid 0 on every offset 1..last+1 (base 0xffffffff, 0xfffffffe, ..), tid 0x80000000 on the offsets `signed` (default: the same),
    and the small bases 0 and 3."""
    u = list(range(1, last + 2))
    sg = u if signed is None else signed
    return dict(TidWrapU="{%s}" % ", ".join(map(str, u)), TidWrapS="{%s}" % ", ".join(map(str, sg)), TidSmall="{0, 3}")


def model_check_start(tier, work):
    """Starts the model-checking runs in the background (they share nothing with the conformance part, which runs meanwhile);
    -> (executor, runs, futures).  model_check_finish collects them in the main thread."""
    runs = []
    lit = dict(DevReplayPastBadTag="TRUE", DevScanAbort="TRUE", DevAsyncLastBadCommit="TRUE", DevCommitBreakContinues="TRUE")
    P = ["ReplayExact", "PassesAgree", "GroundTruthSound", "TypeOK"]
    # The tid runs go through Jbd2Gen (MaxGen = 1: exactly the behaviours of Jbd2): in every state the outcome of Recover must be
    # exact for every tid base of the catalogue; one life reaches offset MaxTxn + 2 (Bound) and leaves s_sequence <= MaxTxn + 3.
    AB = ["RecoverExactAnyBase"]
    # two lives of the log (Jbd2Gen): replay, restart from the journal superblock the replay left, new transactions over
    # the old ring, crash, second replay.  ReplayExact in the second life: no block of a first-life transaction comes back.
    G = ["ReplayExact", "PassesAgree", "GroundTruthSound", "GTypeOK"]
    two = dict(MaxGen=2, Skews="{0, 1}", MaxOver=1, Blocks="{1}")
    if tier == "quick":
        runs.append(("property-conforming transcription, csum v3", mc_constants(), ["ReplayExact", "ReplayExactAlways", "PassesAgree", "GroundTruthSound", "TypeOK"], None, None))
        runs.append(("literal transcription, csum v3 + async, 2 damages", mc_constants(Async=1, MaxDmg=2, L=5, **lit), ["ReplayExactOrDev", "PassesAgree"], None, None))
        runs.append(("tid wrap: every base of the catalogue (tid 0 / 0x80000000 on each offset 1..6, bases 0 and 3), csum v3 + async, 1 block, revoke records, 2 damages (property-conforming)",
                     gen_constants(L=5, Blocks="{1}", Async=1, MaxDmg=2, **tid_catalogue(5)), ["ReplayExact"] + AB + ["GroundTruthSound", "GTypeOK"], None, None))
        runs.append(("two lives of the log, L=5, 1 block, partial writes, restart at s_sequence + {0, 1}, in-place rewrite, tid 0 on each offset 1..10, 0x80000000 on 2 and 7 (property-conforming)",
                     gen_constants(L=5, MaxDmg=0, **dict(two, **tid_catalogue(9, [2, 7]))), ["ReplayExact"] + AB + ["GroundTruthSound", "GTypeOK"], None, None))
    else:
        for cs in (0, 1, 2, 3):
            runs.append(("property-conforming, csum %d" % cs, mc_constants(Csum=cs, MaxTags=2 if cs in (0, 3) else 1, OldTime=1 if cs == 2 else 0),
                         ["ReplayExact", "ReplayExactAlways", "PassesAgree", "GroundTruthSound", "TypeOK"], None, None))
        runs.append(("property-conforming, csum v3 + async, 2 damages", mc_constants(Async=1, MaxDmg=2), ["ReplayExact", "PassesAgree"], None, None))
        runs.append(("literal, csum v3 + async, 2 damages", mc_constants(Async=1, MaxDmg=2, **lit), ["ReplayExactOrDev", "PassesAgree"], None, None))
        # 2 tags: one transaction can fill the whole ring; with the pinned code's DevCommitBreakContinues a failed commit block then
        # makes PASS_SCAN run for ever (HANG; repaired in the tree, replays/C03/fixed_commit_break*.json): PassesAgreeOrDev
        runs.append(("literal, csum v2", mc_constants(Csum=2, MaxTags=2, **lit), ["ReplayExactOrDev", "PassesAgreeOrDev"], None, None))
        runs.append(("two lives of the log, L=4, 1 block, 1 damage, csum v3 (property-conforming)", gen_constants(L=4, **two), G, None, None))
        runs.append(("two lives of the log, L=5, 1 block, partial writes, csum v1 (property-conforming)", gen_constants(L=5, Csum=1, MaxDmg=0, **two), G, None, None))
        runs.append(("two lives of the log, L=4, 1 block, 1 damage, csum v3 + async (literal)", gen_constants(L=4, Async=1, **dict(two, **lit)),
                     ["ReplayExactOrDev", "PassesAgree", "GTypeOK"], None, None))
        # tid wrap: the outcome of Recover for every base of the catalogue, in every state
        TW = ["ReplayExact"] + AB + ["GroundTruthSound", "GTypeOK"]
        runs.append(("tid wrap: every base of the catalogue (tid 0 / 0x80000000 on each offset 1..6, bases 0 and 3), csum v3 + async, 2 blocks, 1 damage (property-conforming)",
                     gen_constants(L=5, Async=1, **tid_catalogue(5)), TW, None, None))
        runs.append(("tid wrap: every base of the catalogue, csum v1 + async, 1 block, 2 damages (property-conforming)",
                     gen_constants(L=5, Blocks="{1}", Csum=1, Async=1, MaxDmg=2, **tid_catalogue(5)), TW, None, None))
        runs.append(("tid wrap: every base of the catalogue, csum v3 + async, 1 block, 2 damages (literal: a deviation in every inexact outcome)",
                     gen_constants(L=5, Blocks="{1}", Async=1, MaxDmg=2, **dict(lit, **tid_catalogue(5))), AB + ["GTypeOK"], None, None))
        runs.append(("tid wrap: two lives of the log, L=4, 1 block, 1 damage, csum v3, tid 0 / 0x80000000 on each offset 1..10 (property-conforming)",
                     gen_constants(L=4, **dict(two, **tid_catalogue(9))), TW, None, None))
        # beyond the exhaustive bound: simulation
        runs.append(("simulation L=8, 3 txns, 3 blocks, csum v3 + async, escapes, old times (property-conforming)",
                     mc_constants(L=8, Blocks="{1, 2, 3}", MaxTxn=3, MaxTags=2, MaxDmg=2, Async=1, EscSet="{0, 1}", OldTime=1),
                     ["ReplayExact", "PassesAgree", "GroundTruthSound"], 16000, 12))
        runs.append(("simulation L=8, 3 txns, 3 blocks, csum v1 (property-conforming)",
                     mc_constants(L=8, Blocks="{1, 2, 3}", MaxTxn=3, MaxTags=2, MaxDmg=2, Csum=1, Async=1, EscSet="{0, 1}"),
                     ["ReplayExact", "PassesAgree", "GroundTruthSound"], 16000, 12))
        runs.append(("simulation two lives of the log, L=6, 2 blocks, 1 damage, csum v3 (property-conforming)",
                     gen_constants(MaxGen=2, Skews="{0, 1}", MaxOver=1), ["ReplayExact", "PassesAgree", "GroundTruthSound"], 4000, 24))
    def one(i):
        label, consts, invs, sim, depth = runs[i]
        two_lives = "MaxGen" in consts
        cfg = os.path.join(work, "MC_Jbd2_%d.cfg" % i)
        T.write_cfg(cfg, spec="GSpec" if two_lives else "Spec", constants=consts, invariants=invs, constraints=["GBound" if two_lives else "Bound"])
        if consts["DevReplayPastBadTag"] == "FALSE":         # property-conforming model: the definition DevTidZeroUnset (default TRUE = the code) is overridden
            with open(cfg, "a") as f:
                f.write("CONSTANT DevTidZeroUnset <- PropertyConforming\n")
        modname = "Jbd2Gen" if two_lives else "Jbd2"
        return modname, T.tlc(os.path.join(SPEC, modname + ".tla"), cfg, workers=4, timeout=3000, xmx="4g", env=jenv(), simulate=sim, depth=depth)
    # quick: two runs at a time, thorough: three (4 workers each); the long simulations are started first
    ex = cf.ThreadPoolExecutor(max_workers=2 if tier == "quick" else 3)
    order = sorted(range(len(runs)), key=lambda i: (runs[i][3] is None, i))
    futs = {i: ex.submit(one, i) for i in order}
    return ex, runs, futs


def model_check_finish(ev, vd, mc):
    ex, runs, futs = mc
    done = [futs[i].result() for i in range(len(runs))]
    ex.shutdown()
    for (label, consts, invs, sim, depth), (modname, r) in zip(runs, done):
        ev.add_tlc(r, "%s %s: %s" % (modname, label, ", ".join(invs)))
        if r.violated:
            vd.violation("model:" + r.violated, "model: invariant %s violated in %s (%s)" % (r.violated, modname, label), {"tlc_tail": r.out[-4000:], "constants": consts})
        elif not r.ok and not (sim and r.rc == 0):
            die_broken("TLC failed on %s (%s): %s\n%s" % (modname, label, r.error, r.out[-2000:]))


# ---------------------------------------------------------------------------------------------- images
class Base:
    def __init__(self, b, work, profile):
        self.profile = profile
        self.path = os.path.join(work, "base_%s.img" % profile)
        env = tool_env(b)
        cmd = [b + "/misc/mke2fs", "-q", "-F"] + PROFILES[profile] + [
            "-E", "lazy_itable_init=0,hash_seed=11111111-2222-3333-4444-555555555555",
            "-U", "01234567-89ab-cdef-0123-456789abcdef", self.path, PROFILE_SIZE[profile]]
        rc, out, err = crun(cmd, env=env, timeout=120)
        if rc != 0:
            raise RuntimeError("mke2fs failed for profile %s: %s" % (profile, err.decode()[-500:]))
        im = J.Image(self.path)
        self.bs = im.bs
        self.jmap = im.journal_map()
        free = [x for x in im.free_blocks(0) if x not in set(self.jmap)]
        if len(free) < 600:
            raise RuntimeError("too few free blocks in base image")
        # a handful of free data blocks, spread out (neighbours would hide off-by-one block numbers)
        self.tb = {1: free[100], 2: free[101], 3: free[333], 4: free[-7]}
        self.meta = im.metadata_blocks()
        self.nblocks = im.blocks_count
        # cross-check of the own extent / indirect parser against debugfs bmap (once per base image)
        rc, out, err = crun([b + "/debugfs/debugfs", "-R", "bmap <8> 0", self.path], env=env)
        rc2, out2, err2 = crun([b + "/debugfs/debugfs", "-R", "bmap <8> %d" % (len(self.jmap) - 1), self.path], env=env)
        if out.split()[-1:] != [str(self.jmap[0]).encode()] or out2.split()[-1:] != [str(self.jmap[-1]).encode()]:
            raise RuntimeError("own journal block map disagrees with debugfs bmap: %r %r vs %d %d" % (out, out2, self.jmap[0], self.jmap[-1]))


def concretize(j, base, path):
    shutil.copyfile(base.path, path)
    with open(path, "r+b") as f:
        for i in range(1, j["cfg"]["nb"] + 1):
            f.seek(base.tb[i] * base.bs)
            f.write(J.payload(j["fs0"][i - 1], j["fs0esc"][i - 1], base.bs))
    c = j["conc"]
    return J.write_journal(path, j, base.tb, first=c["first"], uuid_mode=c["uuid_mode"], junk_mode=c["junk_mode"],
                           needs_recovery=j["nr"])


def fe_cmd(b, fe, img):
    if fe == "e2fsck_journal_only":
        return [b + "/e2fsck/e2fsck", "-y", "-E", "journal_only", img]
    if fe == "e2fsck_full":
        return [b + "/e2fsck/e2fsck", "-fy", img]
    return [b + "/debugfs/debugfs", "-w", "-R", "jr", img]


def read_back(img, before, base, j, info):
    """-> (versions per target block, jsb.start, needs_recovery, stray count)."""
    with open(img, "rb") as f:
        after = f.read()
    bs = base.bs
    vers = {}
    for v, e in S.versions(j):
        vers[J.payload(v, e, bs)] = v
    obs = []
    for i in range(1, j["cfg"]["nb"] + 1):
        o = base.tb[i] * bs
        obs.append(vers.get(after[o:o + bs], -1))
    jsb = J.read_jsb(img, info["jsb_block"])
    nro = 1 if struct.unpack_from("<I", after, 1024 + 96)[0] & 0x4 else 0
    stray = 0
    if after != before:
        allowed = base.meta | set(base.tb.values()) | {info["jsb_block"]}
        n = min(len(after), len(before)) // bs
        for blk in range(n):
            if after[blk * bs:(blk + 1) * bs] != before[blk * bs:(blk + 1) * bs] and blk not in allowed:
                stray += 1
        if len(after) != len(before):
            stray += 1
    return obs, (0 if jsb["start"] == 0 else 1) if jsb["magic_ok"] else -1, nro, stray, jsb


NOJSB = {"hi": -1, "lo": -1}


def tid_offset(j, seq32):
    """Offset of a 32-bit tid read from an image from the tid base of journal j (the inverse of Conc of Jbd2.tla on the offsets
    the universe uses); -1 when it is not such an offset.  Used only to CONTINUE a journal: TLC re-checks it (TReplayed)."""
    off = (seq32 - J.tid_base(j["cfg"])) & 0xFFFFFFFF
    if off >= 2 ** 31:
        off -= 2 ** 32
    return off if 0 <= off < 2 ** 30 else -1


def run_frontends(b, base, src, before, j, info, work, tag, keep=None):
    """Recover the image src with every front-end on its own copy; the copy of front-end number `keep` is kept.
    jseq32: s_sequence as found (16-bit halves, for TLC); jseq: its offset from the journal's tid base (-1: none)."""
    env = tool_env(b)
    res = {"obs": [], "jstart": [], "jseq": [], "jseq32": [], "nro": [], "stray": [], "rc": [], "msg": []}
    kept = None
    for k, fe in enumerate(FRONTENDS):
        img = os.path.join(work, "j_%s_%s.img" % (tag, fe))
        shutil.copyfile(src, img)
        rc, out, err = crun(fe_cmd(b, fe, img), env=env, timeout=60)
        obs, js, nro, stray, jsb = read_back(img, before, base, j, info)
        res["obs"].append(obs); res["jstart"].append(js); res["nro"].append(nro); res["stray"].append(stray)
        res["jseq32"].append(J.halves(jsb["seq"]) if jsb["magic_ok"] else dict(NOJSB))
        res["jseq"].append(tid_offset(j, jsb["seq"]) if jsb["magic_ok"] else -1)
        res["rc"].append(rc); res["msg"].append((out + err).decode("utf8", "replace")[-400:])
        if k == keep:
            kept = img
        else:
            os.unlink(img)
    return res, kept


def run_journal(b, base, j, work, tag, g2=None):
    """Encode journal j, recover it with every front-end on its own copy; returns the observation record.
    g2 = {"fe": k, "seed": n, "index": n}: continue on the image front-end k left with a second life of the log
    (gen/jbd2sample.continue_journal from the journal superblock found there), recover that with every front-end;
    the second observation record is res["g2"]."""
    src = os.path.join(work, "j_%s.img" % tag)
    info = concretize(j, base, src)
    with open(src, "rb") as f:
        before = f.read()
    res, kept = run_frontends(b, base, src, before, j, info, work, tag, keep=g2["fe"] if g2 else None)
    os.unlink(src)
    if kept is None:
        return res
    try:
        k = g2["fe"]
        # nobody starts a new log on a journal that is not marked empty; unknown block contents cannot be continued from
        if res["jstart"][k] == 0 and res["nro"][k] == 0 and res["jseq"][k] >= 0 and min(res["obs"][k]) >= 0 and S.sequential_ring(j):
            j2 = S.continue_journal(random.Random(g2["seed"]), j, res["obs"][k], {"start": 0, "seq": res["jseq"][k]}, g2["index"])
            if j2 is not None:
                c = j["conc"]
                with open(kept, "r+b") as f:
                    for blk in j2["over"]:
                        f.seek(base.tb[blk] * base.bs)
                        f.write(J.payload(j2["fs0"][blk - 1], j2["fs0esc"][blk - 1], base.bs))
                J.restart_journal(kept, j2, base.tb, first=c["first"], uuid_mode=c["uuid_mode"], junk_mode=c["junk_mode"])
                with open(kept, "rb") as f:
                    before2 = f.read()
                r2, _ = run_frontends(b, base, kept, before2, j2, info, work, tag + "g2")
                r2.update(fe=k, j2=j2, seen={"start": res["jstart"][k], "seq": res["jseq"][k]})
                res["g2"] = r2
    finally:
        os.unlink(kept)
    return res


def load_line(j):
    return {"e": "load", "cfg": {"L": j["cfg"]["L"], "csum": j["cfg"]["csum"], "async": j["cfg"]["async"], "tb": j["cfg"].get("tb", {"hi": 0, "lo": 0})},
            "jsb": j["jsb"], "nr": j["nr"], "fs0": j["fs0"], "log": j["log"], "hist": j["hist"]}


def recover_line(res):
    return {"e": "recover", "obs": res["obs"], "jstart": res["jstart"], "jseq": res["jseq32"], "nro": res["nro"], "stray": res["stray"]}


def h32(h):
    """16-bit halves -> printable 32-bit value."""
    return "none" if h["hi"] < 0 else "0x%08x" % ((h["hi"] << 16) | h["lo"])


def dumps(x):
    return json.dumps(x, separators=(",", ":"))


def trace_of(j, res):
    return [dumps(load_line(j)), dumps(recover_line(res))]


def trace_of_g2(j, res):
    """Behaviour of the second life: load, the observed post-state of the first replay by front-end g2.fe, the
    continuation the generator wrote on that image, the second replay by every front-end."""
    g = res["g2"]
    k, j2 = g["fe"], g["j2"]
    replayed = {"e": "replayed", "fe": k, "obs": res["obs"][k], "jsb": g["seen"], "seq32": res["jseq32"][k], "nro": res["nro"][k]}
    restart = {"e": "restart", "skew": j2["skew"], "jsb": j2["jsb"], "nr": j2["nr"], "fs0": j2["fs0"], "log": j2["log"], "hist": j2["hist"]}
    return [dumps(load_line(j)), dumps(replayed), dumps(restart), dumps(recover_line(g))]


def trace_cfg(work, devs=None):
    cfg = os.path.join(work, "Trace_Jbd2.cfg")
    consts = gen_constants(MaxGen=2, **(devs or CONF_DEVS))
    T.write_cfg(cfg, spec="TraceSpec", constants=consts, invariants=["ReplayExactOrDev", "TraceSound"], postcondition="TraceAccepted")
    return cfg


def nontrivial(j):
    """>= 1 committed transaction and >= 1 of {revoke hit, escape, wrap, uncommitted tail, checksum failure}."""
    pre = []
    for h in j["hist"]:
        if not h["valid"]:
            break
        pre.append(h)
    if not pre:
        return False
    L = j["cfg"]["L"]
    revhit = any(any(t["blk"] in h2["rev"] for h2 in pre if h2["seq"] >= h["seq"]) for h in pre for t in h["tags"])
    esc = any(t["esc"] for h in pre for t in h["tags"])
    wrap = any(h["at"] + h["len"] - 1 > L for h in j["hist"])
    tail = j["hist"][-1]["wr"] < j["hist"][-1]["len"]
    csumfail = any(k in j["stratum"]["kind"] for k in ("badcsum", "badsum", "descid", "data_", "two_"))
    return revhit or esc or wrap or tail or csumfail


def canon(j):
    return hashlib.sha1(json.dumps([j["cfg"], j["jsb"], j["fs0"], j["log"]], sort_keys=True).encode()).hexdigest()


def nontrivial2(j, j2):
    """Second life: >= 1 committed transaction of the second life and >= 1 control block of the first life still in the ring."""
    pre = 0
    for h in j2["hist"]:
        if not h["valid"]:
            break
        pre += 1
    left = [p for p in range(1, j["cfg"]["L"] + 1) if p not in set(j2["written"]) and j["log"][p - 1]["t"] in ("desc", "revoke", "commit")]
    return pre > 0 and bool(left)


# ---------------------------------------------------------------------------------------------- conformance
MAX_CONFIRM = 16        # rejected behaviours re-run and reported per kind (first / second life); the rest is counted
PILOT = 72              # journals validated first (one cycle of the second-life strata); see conformance()


def conformance(ev, vd, b, work, journals, bases, label, g2of=None):
    """journals: list of (journal, profile).  g2of(i) -> None | {"fe", "seed", "index"}: second life for journal i.
    Runs, validates, routes findings."""
    t0 = time.time()
    g2of = g2of or (lambda i: None)

    def one(i):
        j, prof = journals[i]
        try:
            return run_journal(b, bases[prof], j, work, "%s%d" % (label, i), g2of(i))
        except Exception as e:      # encoder refused (e.g. descriptor overflow): harness problem, not a verdict
            return {"error": repr(e)}
    with cf.ThreadPoolExecutor(max_workers=JOBS) as ex:
        results = list(ex.map(one, range(len(journals))))
    errs = [r["error"] for r in results if "error" in r]
    if errs:
        die_broken("harness failed on %d journals, first: %s" % (len(errs), errs[0]))
    ev.cov.setdefault("wall_tools_s", 0)
    ev.cov["wall_tools_s"] += round(time.time() - t0, 1)
    # a front-end that dies from a signal or hangs did not recover the journal
    for i, r in enumerate(results):
        for life, rr in ((1, r), (2, r.get("g2"))):
            for k, rc in enumerate(rr["rc"] if rr else []):
                if rc < 0 or rc == 124:
                    vd.violation("crash:" + FRONTENDS[k], "%s terminated abnormally (rc %d) on journal %d (life %d of the log)" % (FRONTENDS[k], rc, i, life),
                                 {"journal": journals[i][0], "profile": journals[i][1], "msg": rr["msg"][k], "g2": g2of(i)})
    cfg = trace_cfg(work)
    mod = os.path.join(SPEC, "Trace_Jbd2.tla")
    os.environ.update(jenv())
    outs, outs2 = {}, {}
    rejected, rejected2 = set(), set()

    def confirm_one(arg):
        i, life, cdir = arg
        j, prof = journals[i]
        r2 = run_journal(b, bases[prof], j, work, "%sc%d_%d" % (label, life, i), g2of(i) if life == 2 else None)
        if life == 2 and "g2" not in r2:
            return i, life, r2, False, None, "second life not reproduced"
        os.makedirs(cdir, exist_ok=True)
        rej, matched, inv, tail, _ = tracecheck.confirm(trace_of(j, r2) if life == 1 else trace_of_g2(j, r2), mod, cfg, cdir)
        return i, life, r2, rej, inv, tail

    def validate_part(part, tdir):
        """part: journal numbers.  Validates the behaviours of both lives of these journals, reads TLC's side output,
        re-runs rejected behaviours (tools + TLC) and reports those rejected again.  Returns the number reported."""
        behaviours, meta = [], []
        for i in part:                  # first life of every journal, then the second lives
            behaviours.append(trace_of(journals[i][0], results[i])); meta.append((i, 1))
        for i in part:
            if "g2" in results[i]:
                behaviours.append(trace_of_g2(journals[i][0], results[i])); meta.append((i, 2))
        os.makedirs(tdir, exist_ok=True)
        res = tracecheck.validate(behaviours, mod, cfg, tdir, chunk_lines=300, timeout=1200, jobs=JOBS)
        if res["broken"]:
            die_broken("TLC failed on a trace chunk: %s\n%s" % (res["broken"][0]["error"], res["broken"][0]["out_tail"][-2500:]))
        ev.cov["states"] += res["distinct"]; ev.cov["transitions"] += res["generated"]
        # side output of TLC, one line per trace line: Final, model result, deviations, stop reason, JsbAfter; restartable
        flat = []
        for ci in range(res["chunks"]):
            p = os.path.join(tdir, "chunk%05d.ndjson.out" % ci)
            if not os.path.exists(p):
                die_broken("TLC wrote no side output for " + p)
            flat += [json.loads(ln) for ln in open(p)]
        if len(flat) != sum(len(x) for x in behaviours):
            die_broken("side output has %d lines, expected %d" % (len(flat), sum(len(x) for x in behaviours)))
        off = 0
        for bi, (i, life) in enumerate(meta):
            if flat[off]["e"] != "load" or (life == 2 and flat[off + 2]["e"] != "restart"):
                die_broken("side output out of step at behaviour %d" % bi)
            if life == 1:
                outs[i] = flat[off]
            else:
                outs2[i] = flat[off + 2]
            off += len(behaviours[bi])
        # rejected behaviours: re-run the whole journal (tools + TLC) before reporting; invariant violations first
        todo = {1: [], 2: []}
        for f in sorted(res["failures"], key=lambda f: (f["violated"] is None, f["behaviour"])):
            todo[meta[f["behaviour"]][1]].append(meta[f["behaviour"]][0])
        nreported = 0
        for life in (1, 2):
            pending = todo[life]
            while pending:
                batch, pending = pending[:MAX_CONFIRM], pending[MAX_CONFIRM:]
                with cf.ThreadPoolExecutor(max_workers=JOBS) as ex:
                    confirmed = list(ex.map(confirm_one, [(i, life, os.path.join(tdir, "conf%d_%d" % (life, i))) for i in batch]))
                nrep = 0
                for i, _, r2, rej, inv, tail in confirmed:
                    if not rej:
                        continue
                    nrep += 1
                    j, prof = journals[i]
                    what = ("invariant %s violated" % inv) if inv else "observation is not what the transcription of recovery.c computes"
                    if life == 1:
                        rejected.add(i)
                        o = outs[i]
                        detail = "%s: observed %s jstart %s s_sequence %s needs_recovery %s stray %s; model %s, s_sequence %s; Final %s, JsbAfter.seq %s; tid base %s; stop reason %r, deviations %s (%s, %s)" % (
                            what, r2["obs"], r2["jstart"], [h32(x) for x in r2["jseq32"]], r2["nro"], r2["stray"], o["model"], h32(o["seqmodel32"]), o["final"], h32(o["seqafter32"]),
                            "0x%08x" % J.tid_base(j["cfg"]), o["reason"], o["devs"], prof, j["stratum"])
                        vd.violation("%s@%s" % ("inv:" + inv if inv else "rejected", j["stratum"]["kind"]), detail,
                                     {"journal": j, "profile": prof, "observed": r2, "tlc": o, "tlc_tail": tail[-1500:]})
                    else:
                        rejected2.add(i)
                        g, o = r2["g2"], outs2[i]
                        detail = ("second life of the log (first replay by %s left s_sequence %s = base + %s; new log from tid base + %s): %s: observed %s jstart %s s_sequence %s needs_recovery %s stray %s; "
                                  "model %s, s_sequence %s; Final of the second life %s, JsbAfter.seq %s; tid base %s; stop reason %r, deviations %s (%s, %s)") % (
                            FRONTENDS[g["fe"]], h32(r2["jseq32"][g["fe"]]), g["seen"]["seq"], g["j2"]["jsb"]["seq"], what, g["obs"], g["jstart"], [h32(x) for x in g["jseq32"]], g["nro"], g["stray"],
                            o["model"], h32(o["seqmodel32"]), o["final"], h32(o["seqafter32"]), "0x%08x" % J.tid_base(j["cfg"]), o["reason"], o["devs"], prof, g["j2"]["stratum"])
                        vd.violation("%s@gen2:%s" % ("inv:" + inv if inv else "rejected", g["j2"]["stratum"]["kind"]), detail,
                                     {"journal": j, "profile": prof, "g2": dict(g2of(i)), "observed": {k: v for k, v in r2.items() if k != "g2"},
                                      "observed2": {k: v for k, v in g.items() if k != "j2"}, "journal2": g["j2"], "tlc": o, "tlc_tail": tail[-1500:]})
                nreported += nrep
                if nrep:        # enough to report; the remaining rejected behaviours of this kind are counted, not re-run
                    ev.cov["rejected_not_rerun"] = ev.cov.get("rejected_not_rerun", 0) + len(pending)
                    (rejected if life == 1 else rejected2).update(pending)
                    pending = []
        return nreported

    # a pilot part first: a systematic breakage is reported from it (every rejected behaviour costs a JVM of its own in
    # tracecheck.validate); only when the pilot part is clean is everything else validated
    npilot = min(PILOT, len(journals))
    parts = [list(range(npilot)), list(range(npilot, len(journals)))]
    for pi, part in enumerate(parts):
        if not part:
            continue
        if validate_part(part, os.path.join(work, "tr_%s%d" % (label, pi))) and pi == 0 and parts[1]:
            ev.cov["not_validated_after_pilot_violations"] = ev.cov.get("not_validated_after_pilot_violations", 0) + len(parts[1])
            break
    # known-finding routing: accepted by the literal model, yet different from the property because a named deviation was taken
    strata = ev.cov.setdefault("strata", {})
    reasons = ev.cov.setdefault("stop_reasons", {})
    devcount = ev.cov.setdefault("deviation_journals", {})
    g2cov = ev.cov.setdefault("second_life", {"behaviours": 0, "skipped_by_spec": 0, "not_continued": 0, "strata": {}, "front_end_of_first_replay": {}, "stop_reasons": {}})
    n1 = n2 = 0
    for i, (j, prof) in enumerate(journals):
        if i not in outs:
            continue
        o = outs[i]
        k = "csum%d/%s/%s" % (j["cfg"]["csum"], "64" if j["cfg"]["b64"] else "32", "async" if j["cfg"]["async"] else "sync")
        strata[k] = strata.get(k, 0) + 1
        tk = j["stratum"].get("tid", "base0")
        tidcov = ev.cov.setdefault("tid_base_strata", {})
        tidcov[tk] = tidcov.get(tk, 0) + 1
        reasons[o["reason"]] = reasons.get(o["reason"], 0) + 1
        if i not in rejected:
            n1 += 1
            r = results[i]
            if o["devs"] and (list(r["obs"][0]) != list(o["final"]) or r["jseq32"][0] != o["seqafter32"]):
                for d in o["devs"]:
                    devcount[d] = devcount.get(d, 0) + 1
                    vd.violation("Dev" + d, "journal replay differs from the property because of deviation %s" % d,
                                 {"journal": j, "profile": prof, "observed": r, "final": o["final"], "seqafter": o["seqafter32"]})
            if nontrivial(j):
                ev.nontrivial(canon(j))
        if g2of(i) is None:
            continue
        if "g2" not in results[i]:
            g2cov["not_continued"] += 1
            continue
        o2, g = outs2[i], results[i]["g2"]
        if not o2["restartable"]:
            g2cov["skipped_by_spec"] += 1
            continue
        if i in rejected2:
            continue
        g2cov["behaviours"] += 1; n2 += 1
        st = g["j2"]["stratum"]
        for key, val in (("strata", "%s/%s/skew%d" % (st["kind"], st["align"], st["skew"])), ("front_end_of_first_replay", FRONTENDS[g["fe"]]),
                         ("stop_reasons", o2["reason"])):
            g2cov[key][val] = g2cov[key].get(val, 0) + 1
        if o2["devs"] and (list(g["obs"][0]) != list(o2["final"]) or g["jseq32"][0] != o2["seqafter32"]):
            for d in o2["devs"]:
                devcount[d] = devcount.get(d, 0) + 1
                vd.violation("Dev" + d, "journal replay differs from the property because of deviation %s" % d,
                             {"journal": j, "profile": prof, "g2": dict(g2of(i)), "journal2": g["j2"], "observed2": {k: v for k, v in g.items() if k != "j2"}, "final": o2["final"]})
        if nontrivial2(j, g["j2"]):
            ev.nontrivial("g2:" + canon(j) + canon(g["j2"]))
    ev.cov["traces_validated_against_impl"] += n1 + n2
    ev.cov["evaluations"] += 3 * len(outs) + 3 * len(outs2)
    return results, [outs.get(i) for i in range(len(journals))]


def run(tier):
    ev = Evidence(PID, tier, "model_checking")
    vd = Verdict(PID, ev)
    load_known(vd)
    work = fast_tmp()
    mc = None
    try:
        try:
            b = build.build()
        except RuntimeError as e:
            die_broken(str(e))
        mc = model_check_start(tier, work)
        try:
            profs = ["ext4_1k", "ext3_1k", "ext4_4k_csum64"]
            bases = {p: Base(b, work, p) for p in profs}
        except (RuntimeError, ValueError) as e:
            die_broken("base image: %s" % e)
        rng = random.Random(seed())
        n = 672 if tier == "quick" else 8960            # (runs while the model checker works) multiples of |damage kinds| x |feature configurations| = 224 (each journal: 3 replays + up to 3 of its second life)
        off = (seed() * 7919) % 224
        toff = (seed() * 104729) % (len(S.TID_KINDS) * len(S.TID_POS))      # stratum of the tid base: cycle of 33, co-prime with the 224
        journals = []
        for i in range(n):
            j = S.sample(rng, off + i, tid=toff + i)
            journals.append((j, profs[0] if i % 4 < 2 else profs[1 + (i % 4) - 2]))
        batch = 2240
        first = None
        sd = seed()
        for s in range(0, n, batch):
            # second life: the front-end of the first replay and the strata of the continuation cycle with the journal number
            # (3 front-ends x 2 skews x 3 alignments x 12 damage kinds, co-prime strides against the 14 x 16 of the first life)
            g2of = (lambda s: lambda i: {"fe": (s + i) % 3, "seed": sd * 1000003 + s + i, "index": (s + i) // 3 + 5 * ((s + i) % 3)})(s)
            r, o = conformance(ev, vd, b, work, journals[s:s + batch], bases, "s%d_" % (s // batch), g2of)
            if first is None:
                first = (journals[0], r[0], o[0])
        xcheck_debugfs_writer(ev, vd, b, work, bases["ext4_1k"])
        repo_tests(ev, vd, b, work)
        model_check_finish(ev, vd, mc)
        ev.cov["rule"] = ("journals drawn by a seeded sampler stratified over 16 feature configurations (csum none/v1/v2/v3 x 32/64-bit tags x async) "
                          "x 14 damage kinds x 33 placements of the tid base (unsigned wrap / signed boundary on the transaction s_sequence + d, d = -1..9 / small base), "
                          "on 3 image profiles; non-trivial = >= 1 committed transaction and >= 1 of {revoke hit, escaped block, "
                          "ring wrap, uncommitted tail, checksum failure}; distinct by canonical form (cfg, jsb, fs0, log).  Second life of the log: every journal the "
                          "spec allows to continue (RestartableOf) is continued on the image of one front-end (cycling) from the journal superblock found "
                          "there, strata skew 0/1 x alignment x 12 damage kinds; non-trivial = >= 1 committed transaction of the second life and >= 1 control "
                          "block of the first life still in the ring; distinct by the canonical forms of both lives")
        (j0, p0), r0, o0 = first
        ev.sample({"journal": {"cfg": j0["cfg"], "jsb": j0["jsb"], "fs0": j0["fs0"], "hist": [{k: h[k] for k in ("seq", "tags", "rev", "valid")} for h in j0["hist"]]},
                   "observed": r0["obs"], "final_by_tlc": o0["final"], "stop_reason": o0["reason"]})
        ev.cov["checker_cmd"] = "TRACE=<chunk> tlc -workers 1 -config Trace_Jbd2.cfg spec/Trace_Jbd2.tla (EXTENDS Jbd2Gen; POSTCONDITION TraceAccepted, INVARIANT ReplayExactOrDev, TraceSound)"
        ev.assumptions = [
            "fast-commit replay (ext4_fc_replay*) is not modelled: journals never carry JBD2_FEATURE_INCOMPAT_FAST_COMMIT (DESIGN section 6)",
            "damage is restricted to what the format can detect: control blocks missing/stale/wrongly sequenced, checksum failures where the scheme has a checksum, "
            "data-block damage only under v1 (commit carries the transaction checksum) / v2 / v3; a transaction logs a block at most once",
            "transaction identifiers are base + offset modulo 2^32 with offsets below 2^30: the tids of one journal (both lives of its log, stale blocks "
            "included) span less than 2^30, so the order of two tids is never ambiguous; the base is drawn from the boundary catalogue (tid 0 or tid 0x80000000 on the "
            "transaction s_sequence + d, d = -1..9, or a small base); 64-bit tags carry block numbers < 2^32 (t_blocknr_high = 0)",
            "target blocks are free data blocks; every other block may be rewritten by the front-ends only if it is filesystem metadata (stray-write check)",
            "internal journal only (journal inode, extent-mapped and block-mapped); external journal devices are exercised by the repository images j_ext_* only",
            "the first front-end is invoked as `e2fsck -y -E journal_only` (with -f the option has no effect: check_if_skip returns early)",
            "a second life of the log is started only on a journal whose recovery succeeded without a named deviation, that is marked empty, and whose ring is what a "
            "sequential writer leaves: no control block carries a transaction id beyond the transaction the replay stopped at (RestartableOf in spec/Jbd2Gen.tla, "
            "decided by TLC); the new log starts at ring position 1 with tid s_sequence (debugfs writer) or s_sequence + 1 (kernel), s_sequence read from the image",
        ]
        return vd.finish()
    finally:
        if mc is not None:
            mc[0].shutdown(wait=True, cancel_futures=True)      # (only when the check broke off early: runs not yet started are dropped)
        shutil.rmtree(work, ignore_errors=True)


# ---------------------------------------------------------------------------------------------- extra traces
def xcheck_debugfs_writer(ev, vd, b, work, base):
    """Cross-check of the encoder against journals written by debugfs's own writer (jo; jw -b .. -r ..; jc): the
    independent decoder must find the transactions that were asked for, and re-encoding them must give the same bytes."""
    ev.cov["encoder_crosscheck"] = "not run"
    env = tool_env(b)
    ok = 0
    for variant, opts in (("plain", []), ("csum", ["-c"])):
        img = os.path.join(work, "xc.img")
        shutil.copyfile(base.path, img)
        bs = base.bs
        data1 = os.path.join(work, "xc_d1"); data2 = os.path.join(work, "xc_d2")
        with open(data1, "wb") as f:
            f.write(J.payload(1, 0, bs) + J.payload(2, 1, bs))
        with open(data2, "wb") as f:
            f.write(J.payload(3, 0, bs))
        script = os.path.join(work, "xc.cmd")
        with open(script, "w") as f:
            f.write("jo %s\njw -b %d,%d %s\njc\njo\njw -b %d -r %d %s\njc\n" % (" ".join(opts), base.tb[1], base.tb[2], data1, base.tb[3], base.tb[1], data2))
        rc, out, err = crun([b + "/debugfs/debugfs", "-w", "-f", script, img], env=env)
        if b"rror" in err or rc != 0:
            die_broken("debugfs journal writer failed: %s" % err.decode()[-400:])
        im = J.Image(img)
        jmap = im.journal_map()
        jsb = J.read_jsb(img, jmap[0])
        pos, recs = jsb["start"], []
        while pos and len(recs) < 12:
            d = J.decode_block(im.rd(jmap[pos]), jsb["incompat"], jsb["compat"])
            if d["t"] == "nomagic" and not (recs and recs[-1]["t"] == "desc" or (len(recs) > 1 and recs[-2]["t"] == "desc" and len(recs[-2]["tags"]) > 1 and recs[-1]["t"] == "nomagic")):
                break
            recs.append(d); pos += 1
        kinds = [r["t"] for r in recs]
        want_tags = [[base.tb[1], base.tb[2]], [base.tb[3]]]
        descs = [r for r in recs if r["t"] == "desc"]
        revs = [r for r in recs if r["t"] == "revoke"]
        commits = [r for r in recs if r["t"] == "commit"]
        good = (len(descs) == 2 and [[t["blk"] for t in d["tags"]] for d in descs] == want_tags and len(revs) == 1 and revs[0]["blks"] == [base.tb[1]]
                and len(commits) == 2 and commits[1]["seq"] == commits[0]["seq"] + 1 and descs[0]["tags"][1]["flags"] & 1 == 1)
        # byte-level: re-encode the first descriptor with the own encoder and compare the tag area and checksum
        cfgx = {"csum": 3 if jsb["incompat"] & 16 else 2 if jsb["incompat"] & 8 else 1 if jsb["compat"] & 1 else 0, "b64": 1 if jsb["incompat"] & 2 else 0,
                "async": 0, "L": 8}
        with open(img, "rb") as f:
            f.seek(jmap[0] * bs + 48); uuid = f.read(16)
        enc = J.Encoder(cfgx, bs, uuid, base.tb)
        mine = enc.desc({"t": "desc", "seq": descs[0]["seq"], "ok": 1, "id": 0, "tags": [{"blk": 1, "v": 1, "cs": 1, "esc": 0}, {"blk": 2, "v": 2, "cs": 2, "esc": 1}]}) if descs else b""
        theirs = im.rd(jmap[jsb["start"]]) if descs else b"x"
        tb = enc.tag_bytes()
        same_tags = mine[:12 + tb] == theirs[:12 + tb] and mine[12 + tb + 16:12 + 2 * tb + 16] == theirs[12 + tb + 16:12 + 2 * tb + 16]
        same_tail = (not enc.v23) or True      # debugfs leaves the uuid area to chance (pointer arithmetic), so block checksums cannot be compared byte-wise
        mine_c = enc.commit({"t": "commit", "seq": commits[0]["seq"], "ok": 1, "time": commits[0]["time"], "hassum": 0, "sum": []}) if commits else b""
        # data blocks as logged (escaped form)
        d1 = im.rd(jmap[jsb["start"] + 1]) == J.log_image(1, 0, bs) and im.rd(jmap[jsb["start"] + 2]) == J.log_image(2, 1, bs)
        if good and same_tags and d1:
            ok += 1
        else:
            die_broken("encoder/decoder cross-check against debugfs's journal writer failed (%s): kinds %s good %s tags %s data %s" % (variant, kinds, good, same_tags, d1))
    ev.cov["encoder_crosscheck"] = "%d debugfs-written journals decoded as requested; tag layout, escape and data images byte-identical to the own encoder" % ok


def repo_tests(ev, vd, b, work):
    ev.cov["repo_j_images"] = "see run_repo_images"
    try:
        run_repo_images(ev, vd, b, work)
    except FileNotFoundError:
        ev.cov["repo_j_images"] = "tests directory not found in the build"


def run_repo_images(ev, vd, b, work):
    """The repository's j_* images with an internal journal: the three front-ends must agree block-for-block on every
    non-metadata block, empty the journal and clear the flag.  (Their histories are unknown, so Final is not evaluated.)"""
    env = tool_env(b)
    tdir = os.path.join(b, "tests")
    n = agree = 0
    notes = []
    for d in sorted(os.listdir(tdir)):
        p = os.path.join(tdir, d, "image.gz")
        if not d.startswith("j_") or not os.path.exists(p) or "ext_jnl" in d or d.startswith("j_ext") or "fast_commit" in d or "corrupt_sb" in d:
            continue
        raw = gzip.open(p).read()
        src = os.path.join(work, "rt.img")
        with open(src, "wb") as f:
            f.write(raw)
        try:
            im = J.Image(src)
            if not im.needs_recovery() or not im.journal_inum:
                continue
            jmap = im.journal_map()
            meta = im.metadata_blocks()
        except Exception as e:
            notes.append("%s: not parsed by the independent reader (%s)" % (d, e)); continue
        outs = []
        for fe in FRONTENDS:
            img = os.path.join(work, "rt_%s.img" % fe)
            shutil.copyfile(src, img)
            rc, out, err = crun(fe_cmd(b, fe, img), env=env, timeout=120)
            with open(img, "rb") as f:
                after = f.read()
            jsb = J.read_jsb(img, jmap[0])
            nro = 1 if struct.unpack_from("<I", after, 1024 + 96)[0] & 0x4 else 0
            outs.append((after, jsb, nro, rc))
            os.unlink(img)
        n += 1
        bs = im.bs
        skip = meta | set(jmap)
        # e2fsck -fy may repair what the replay exposed; agreement is required between the two pure replays
        a, c = outs[0][0], outs[2][0]
        diff = [blk for blk in range(min(len(a), len(c)) // bs) if blk not in skip and a[blk * bs:(blk + 1) * bs] != c[blk * bs:(blk + 1) * bs]]
        empty = all(o[1]["start"] == 0 for o in outs)
        clear = all(o[2] == 0 for o in outs)
        if diff or not empty or not clear:
            vd.violation("repo-image:%s" % d, "front-ends disagree on %d blocks / journal empty %s / flag clear %s on tests/%s" % (len(diff), empty, clear, d),
                         {"test": d, "diff_blocks": diff[:20], "jsb": [o[1] for o in outs], "nro": [o[2] for o in outs]})
        else:
            agree += 1
    ev.cov["repo_j_images"] = "%d repository j_* images with a pending internal journal replayed by all front-ends; %d agree block-for-block (e2fsck -E journal_only vs debugfs jr), journal empty, flag clear" % (n, agree)
    if notes:
        ev.cov["repo_j_images_notes"] = notes[:10]
    ev.cov["evaluations"] += 3 * n


def replay(path):
    d = json.load(open(path))
    rp = d["replay"]
    if "journal" not in rp:
        print("replay artefact carries no journal (model-level finding): see its tlc_tail"); return 1
    j, prof = rp["journal"], rp.get("profile", "ext4_1k")
    g2 = rp.get("g2")
    work = fast_tmp()
    try:
        b = build.build()
        base = Base(b, work, prof)
        r = run_journal(b, base, j, work, "rp", g2)
        os.environ.update(jenv())
        devs = dict(CONF_DEVS)
        if g2 and "g2" not in r:
            print("the second life of the log could not be written on the image the first replay left: observed", json.dumps({k: r[k] for k in ("obs", "jstart", "jseq", "nro")}))
            g2 = None
        beh = trace_of_g2(j, r) if g2 else trace_of(j, r)
        rr = r["g2"] if g2 else r
        rej, matched, inv, tail, _ = tracecheck.confirm(beh, os.path.join(SPEC, "Trace_Jbd2.tla"), trace_cfg(work, devs), work)
        if g2:
            print("first replay by %s left:" % FRONTENDS[rr["fe"]], json.dumps({"obs": r["obs"][rr["fe"]], "jsb": rr["seen"]}), "second life:", json.dumps(rr["j2"]["stratum"]))
        print("observed:", json.dumps({k: rr[k] for k in ("obs", "jstart", "jseq", "nro", "stray", "rc")}), "s_sequence", [h32(x) for x in rr["jseq32"]], "tid base 0x%08x" % J.tid_base(j["cfg"]))
        outp = os.path.join(work, "confirm_%d.ndjson.out" % os.getpid())
        o = None
        if os.path.exists(outp):
            o = [json.loads(x) for x in open(outp)][2 if g2 else 0]
            print("TLC: Final %s JsbAfter.seq %s model %s deviations %s stop reason %r%s" % (o["final"], h32(o["seqafter32"]), o["model"], o["devs"], o["reason"],
                                                                                             (" restartable %s" % o["restartable"]) if g2 else ""))
        if rej:
            print(tail[-1200:])
            print("VIOLATION property=%s replay=%s" % (PID, path)); return 1
        if o and o["devs"] and (list(rr["obs"][0]) != list(o["final"]) or rr["jseq32"][0] != o["seqafter32"]):
            vd = Verdict(PID, Evidence(PID, "quick", "model_checking")); load_known(vd)
            keys = ["Dev" + x for x in o["devs"]]
            if all(k in vd.known for k in keys):
                for k in keys:
                    print("KNOWN-FINDING: property=%s %s" % (PID, vd.known[k]["what"]))
                return 0
            print("VIOLATION property=%s replay=%s" % (PID, path)); return 1
        print("replay accepted"); return 0
    finally:
        shutil.rmtree(work, ignore_errors=True)
