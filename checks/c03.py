"""C03 -- journal replay applies exactly the committed, unrevoked transactions; both front-ends agree; afterwards the
journal is empty and needs_recovery is clear.

(1) TLC model-checks spec/Jbd2.tla: format-level journal generator (WriteTxn / Checkpoint / Damage), property-level
    Final computed from the generator's history, Recover = transcription of recovery.c's three passes.
    - with every deviation constant FALSE the transcription (with three one-line repairs) satisfies ReplayExact;
    - with the deviations of the pinned code enabled ReplayExactOrDev holds: the property fails only in behaviours
      that take a named deviation.
(2) Conformance: seeded, stratified abstract journals (gen/jbd2sample.py, same universe) are encoded into a real image
    by the independent encoder gen/jbd2write.py and recovered three ways (e2fsck -y -E journal_only, e2fsck -fy,
    debugfs -w -R jr).  Target-block versions, journal s_start, needs_recovery and stray writes are read back with
    the independent decoder.  Every journal becomes a two-line behaviour validated by TLC against Trace_Jbd2
    (Recover must produce the observed blocks on all three front-ends; invariants ReplayExactOrDev and
    GroundTruthSound).  Final is evaluated by TLC from the logged history.
(3) The repository's own j_* test images are decoded by the independent decoder and run the same way (extra traces)."""
import os, sys, json, random, shutil, subprocess, time, struct, gzip, hashlib, concurrent.futures as cf
from common import VERIF, fast_tmp, seed, die_broken, NPROC, tool_env, run as crun
import build, tlc as T, tracecheck
from evidence import Evidence, Verdict
import jbd2write as J
import jbd2sample as S

PID = "C03"
SPEC = os.path.join(VERIF, "spec")
TMPD = "/dev/shm/agent-c03" if os.path.isdir("/dev/shm/agent-c03") else None
JOBS = 4
FRONTENDS = ["e2fsck_journal_only", "e2fsck_full", "debugfs_jr"]
# deviations of the pinned tree modelled in the conformance cfg (TRUE = what the code does); see fixes/C03_known_findings.txt
CONF_DEVS = dict(DevReplayPastBadTag="TRUE", DevScanAbort="TRUE", DevAsyncLastBadCommit="FALSE", DevCommitBreakContinues="FALSE")
PROFILES = {
    "ext4_1k": ["-t", "ext4", "-b", "1024", "-J", "size=1"],
    "ext3_1k": ["-t", "ext3", "-b", "1024", "-J", "size=1"],
    "ext4_4k_csum64": ["-t", "ext4", "-b", "4096", "-O", "metadata_csum,64bit", "-J", "size=4"],
}
PROFILE_SIZE = {"ext4_1k": "8M", "ext3_1k": "8M", "ext4_4k_csum64": "16M"}


def jenv():
    e = {}
    if TMPD:
        e["JAVA_TOOL_OPTIONS"] = "-Djava.io.tmpdir=" + TMPD
    return e


def load_known(vd):
    """Known findings of this property live in fixes/C03_known_findings.txt (brief); merge them into the Verdict."""
    p = os.path.join(VERIF, "fixes", PID + "_known_findings.txt")
    if os.path.exists(p):
        for ln in open(p):
            ln = ln.strip()
            if ln.startswith("{"):
                d = json.loads(ln)
                if d.get("property") == PID:
                    vd.known[d["key"]] = d


# ---------------------------------------------------------------------------------------------- model checking
def mc_constants(**kw):
    c = dict(L=6, Blocks="{1, 2}", MaxTxn=2, MaxTags=1, MaxDmg=1, Csum=3, Async=0, EscSet="{0}", OldTime=0,
             DevReplayPastBadTag="FALSE", DevScanAbort="FALSE", DevAsyncLastBadCommit="FALSE", DevCommitBreakContinues="FALSE")
    c.update(kw)
    return c


def model_check(ev, vd, tier, work):
    runs = []
    lit = dict(DevReplayPastBadTag="TRUE", DevScanAbort="TRUE", DevAsyncLastBadCommit="TRUE", DevCommitBreakContinues="TRUE")
    if tier == "quick":
        runs.append(("property-conforming transcription, csum v3", mc_constants(), ["ReplayExact", "PassesAgree", "GroundTruthSound", "TypeOK"], None, None))
        runs.append(("literal transcription, csum v3 + async, 2 damages", mc_constants(Async=1, MaxDmg=2, L=5, **lit), ["ReplayExactOrDev", "PassesAgree"], None, None))
    else:
        for cs in (0, 1, 2, 3):
            runs.append(("property-conforming, csum %d" % cs, mc_constants(Csum=cs, MaxTags=2 if cs in (0, 3) else 1, OldTime=1 if cs == 2 else 0),
                         ["ReplayExact", "PassesAgree", "GroundTruthSound", "TypeOK"], None, None))
        runs.append(("property-conforming, csum v3 + async, 2 damages", mc_constants(Async=1, MaxDmg=2), ["ReplayExact", "PassesAgree"], None, None))
        runs.append(("literal, csum v3 + async, 2 damages", mc_constants(Async=1, MaxDmg=2, **lit), ["ReplayExactOrDev", "PassesAgree"], None, None))
        runs.append(("literal, csum v2", mc_constants(Csum=2, MaxTags=2, **lit), ["ReplayExactOrDev", "PassesAgree"], None, None))
        # beyond the exhaustive bound: simulation
        runs.append(("simulation L=8, 3 txns, 3 blocks, csum v3 + async, escapes, old times (property-conforming)",
                     mc_constants(L=8, Blocks="{1, 2, 3}", MaxTxn=3, MaxTags=2, MaxDmg=2, Async=1, EscSet="{0, 1}", OldTime=1),
                     ["ReplayExact", "PassesAgree", "GroundTruthSound"], 40000, 12))
        runs.append(("simulation L=8, 3 txns, 3 blocks, csum v1 (property-conforming)",
                     mc_constants(L=8, Blocks="{1, 2, 3}", MaxTxn=3, MaxTags=2, MaxDmg=2, Csum=1, Async=1, EscSet="{0, 1}"),
                     ["ReplayExact", "PassesAgree", "GroundTruthSound"], 40000, 12))
    for i, (label, consts, invs, sim, depth) in enumerate(runs):
        cfg = os.path.join(work, "MC_Jbd2_%d.cfg" % i)
        T.write_cfg(cfg, spec="Spec", constants=consts, invariants=invs, constraints=["Bound"])
        r = T.tlc(os.path.join(SPEC, "Jbd2.tla"), cfg, workers=4, timeout=3000, xmx="4g", env=jenv(), simulate=sim, depth=depth)
        ev.add_tlc(r, "Jbd2 %s: %s" % (label, ", ".join(invs)))
        if r.violated:
            vd.violation("model:" + r.violated, "model: invariant %s violated in Jbd2 (%s)" % (r.violated, label), {"tlc_tail": r.out[-4000:], "constants": consts})
        elif not r.ok and not (sim and r.rc == 0):
            die_broken("TLC failed on Jbd2 (%s): %s\n%s" % (label, r.error, r.out[-2000:]))


# ---------------------------------------------------------------------------------------------- images
class Base:
    def __init__(self, b, work, profile):
        self.profile = profile
        self.path = os.path.join(work, "base_%s.img" % profile)
        env = tool_env(b)
        cmd = [b + "/misc/mke2fs", "-q", "-F"] + PROFILES[profile] + [
            "-E", "lazy_itable_init=0,hash_seed=11111111-2222-3333-4444-555555555555",
            "-U", "01234567-89ab-cdef-0123-456789abcdef", self.path, PROFILE_SIZE[profile]]
        rc, out, err = crun(cmd, env=env, timeout=120)
        if rc != 0:
            raise RuntimeError("mke2fs failed for profile %s: %s" % (profile, err.decode()[-500:]))
        im = J.Image(self.path)
        self.bs = im.bs
        self.jmap = im.journal_map()
        free = [x for x in im.free_blocks(0) if x not in set(self.jmap)]
        if len(free) < 600:
            raise RuntimeError("too few free blocks in base image")
        # a handful of free data blocks, spread out (neighbours would hide off-by-one block numbers)
        self.tb = {1: free[100], 2: free[101], 3: free[333], 4: free[-7]}
        self.meta = im.metadata_blocks()
        self.nblocks = im.blocks_count
        # cross-check of the own extent / indirect parser against debugfs bmap (once per base image)
        rc, out, err = crun([b + "/debugfs/debugfs", "-R", "bmap <8> 0", self.path], env=env)
        rc2, out2, err2 = crun([b + "/debugfs/debugfs", "-R", "bmap <8> %d" % (len(self.jmap) - 1), self.path], env=env)
        if out.split()[-1:] != [str(self.jmap[0]).encode()] or out2.split()[-1:] != [str(self.jmap[-1]).encode()]:
            raise RuntimeError("own journal block map disagrees with debugfs bmap: %r %r vs %d %d" % (out, out2, self.jmap[0], self.jmap[-1]))


def concretize(j, base, path):
    shutil.copyfile(base.path, path)
    with open(path, "r+b") as f:
        for i in range(1, j["cfg"]["nb"] + 1):
            f.seek(base.tb[i] * base.bs)
            f.write(J.payload(j["fs0"][i - 1], j["fs0esc"][i - 1], base.bs))
    c = j["conc"]
    return J.write_journal(path, j, base.tb, first=c["first"], uuid_mode=c["uuid_mode"], junk_mode=c["junk_mode"],
                           needs_recovery=j["nr"])


def fe_cmd(b, fe, img):
    if fe == "e2fsck_journal_only":
        return [b + "/e2fsck/e2fsck", "-y", "-E", "journal_only", img]
    if fe == "e2fsck_full":
        return [b + "/e2fsck/e2fsck", "-fy", img]
    return [b + "/debugfs/debugfs", "-w", "-R", "jr", img]


def read_back(img, before, base, j, info):
    """-> (versions per target block, jsb.start, needs_recovery, stray count)."""
    with open(img, "rb") as f:
        after = f.read()
    bs = base.bs
    vers = {}
    for v, e in S.versions(j):
        vers[J.payload(v, e, bs)] = v
    obs = []
    for i in range(1, j["cfg"]["nb"] + 1):
        o = base.tb[i] * bs
        obs.append(vers.get(after[o:o + bs], -1))
    jsb = J.read_jsb(img, info["jsb_block"])
    nro = 1 if struct.unpack_from("<I", after, 1024 + 96)[0] & 0x4 else 0
    stray = 0
    if after != before:
        allowed = base.meta | set(base.tb.values()) | {info["jsb_block"]}
        n = min(len(after), len(before)) // bs
        for blk in range(n):
            if after[blk * bs:(blk + 1) * bs] != before[blk * bs:(blk + 1) * bs] and blk not in allowed:
                stray += 1
        if len(after) != len(before):
            stray += 1
    return obs, (0 if jsb["start"] == 0 else 1) if jsb["magic_ok"] else -1, nro, stray, jsb


def run_journal(b, base, j, work, tag):
    """Encode journal j, recover it with every front-end on its own copy; returns the observation record."""
    env = tool_env(b)
    src = os.path.join(work, "j_%s.img" % tag)
    info = concretize(j, base, src)
    with open(src, "rb") as f:
        before = f.read()
    res = {"obs": [], "jstart": [], "nro": [], "stray": [], "rc": [], "msg": []}
    for fe in FRONTENDS:
        img = os.path.join(work, "j_%s_%s.img" % (tag, fe))
        shutil.copyfile(src, img)
        rc, out, err = crun(fe_cmd(b, fe, img), env=env, timeout=60)
        obs, js, nro, stray, jsb = read_back(img, before, base, j, info)
        res["obs"].append(obs); res["jstart"].append(js); res["nro"].append(nro); res["stray"].append(stray)
        res["rc"].append(rc); res["msg"].append((out + err).decode("utf8", "replace")[-400:])
        os.unlink(img)
    os.unlink(src)
    return res


def trace_of(j, res):
    load = {"e": "load", "cfg": {"L": j["cfg"]["L"], "csum": j["cfg"]["csum"], "async": j["cfg"]["async"]},
            "jsb": j["jsb"], "nr": j["nr"], "fs0": j["fs0"], "log": j["log"], "hist": j["hist"]}
    rec = {"e": "recover", "obs": res["obs"], "jstart": res["jstart"], "nro": res["nro"], "stray": res["stray"]}
    return [json.dumps(load, separators=(",", ":")), json.dumps(rec, separators=(",", ":"))]


def trace_cfg(work, devs=None):
    cfg = os.path.join(work, "Trace_Jbd2.cfg")
    consts = mc_constants(**(devs or CONF_DEVS))
    T.write_cfg(cfg, spec="TraceSpec", constants=consts, invariants=["ReplayExactOrDev", "TraceSound"], postcondition="TraceAccepted")
    return cfg


def nontrivial(j):
    """>= 1 committed transaction and >= 1 of {revoke hit, escape, wrap, uncommitted tail, checksum failure}."""
    pre = []
    for h in j["hist"]:
        if not h["valid"]:
            break
        pre.append(h)
    if not pre:
        return False
    L = j["cfg"]["L"]
    revhit = any(any(t["blk"] in h2["rev"] for h2 in pre if h2["seq"] >= h["seq"]) for h in pre for t in h["tags"])
    esc = any(t["esc"] for h in pre for t in h["tags"])
    wrap = any(h["at"] + h["len"] - 1 > L for h in j["hist"])
    tail = j["hist"][-1]["wr"] < j["hist"][-1]["len"]
    csumfail = any(k in j["stratum"]["kind"] for k in ("badcsum", "badsum", "descid", "data_", "two_"))
    return revhit or esc or wrap or tail or csumfail


def canon(j):
    return hashlib.sha1(json.dumps([j["cfg"], j["jsb"], j["fs0"], j["log"]], sort_keys=True).encode()).hexdigest()


# ---------------------------------------------------------------------------------------------- conformance
def conformance(ev, vd, b, work, journals, bases, label):
    """journals: list of (journal, profile).  Runs, validates, routes findings.  Returns number accepted."""
    t0 = time.time()

    def one(i):
        j, prof = journals[i]
        try:
            return run_journal(b, bases[prof], j, work, "%s%d" % (label, i))
        except Exception as e:      # encoder refused (e.g. descriptor overflow): harness problem, not a verdict
            return {"error": repr(e)}
    with cf.ThreadPoolExecutor(max_workers=JOBS) as ex:
        results = list(ex.map(one, range(len(journals))))
    errs = [r["error"] for r in results if "error" in r]
    if errs:
        die_broken("harness failed on %d journals, first: %s" % (len(errs), errs[0]))
    ev.cov.setdefault("wall_tools_s", 0)
    ev.cov["wall_tools_s"] += round(time.time() - t0, 1)
    # a front-end that dies from a signal or hangs did not recover the journal
    for i, r in enumerate(results):
        for k, rc in enumerate(r["rc"]):
            if rc < 0 or rc == 124:
                vd.violation("crash:" + FRONTENDS[k], "%s terminated abnormally (rc %d) on journal %d" % (FRONTENDS[k], rc, i),
                             {"journal": journals[i][0], "profile": journals[i][1], "msg": r["msg"][k]})
    behaviours = [trace_of(journals[i][0], results[i]) for i in range(len(journals))]
    cfg = trace_cfg(work)
    mod = os.path.join(SPEC, "Trace_Jbd2.tla")
    tdir = os.path.join(work, "tr_" + label)
    os.makedirs(tdir, exist_ok=True)
    os.environ.update(jenv())
    res = tracecheck.validate(behaviours, mod, cfg, tdir, chunk_lines=300, timeout=1200, jobs=JOBS)
    if res["broken"]:
        die_broken("TLC failed on a trace chunk: %s\n%s" % (res["broken"][0]["error"], res["broken"][0]["out_tail"][-2500:]))
    ev.cov["states"] += res["distinct"]; ev.cov["transitions"] += res["generated"]
    # side output of TLC: Final, model result, deviations, stop reason per journal
    outs = []
    for ci in range(res["chunks"]):
        p = os.path.join(tdir, "chunk%05d.ndjson.out" % ci)
        if not os.path.exists(p):
            die_broken("TLC wrote no side output for " + p)
        for ln in open(p):
            d = json.loads(ln)
            if d.get("e") == "load":
                outs.append(d)
    if len(outs) != len(journals):
        die_broken("side output has %d journals, expected %d" % (len(outs), len(journals)))
    rejected = set()
    for f in res["failures"]:
        bi = f["behaviour"]
        j, prof = journals[bi]
        # re-run the whole journal (tools + TLC) before reporting
        r2 = run_journal(b, bases[prof], j, work, "%sc%d" % (label, bi))
        rej, matched, inv, tail, _ = tracecheck.confirm(trace_of(j, r2), mod, cfg, tdir)
        if not rej:
            continue
        rejected.add(bi)
        o = outs[bi]
        what = ("invariant %s violated" % inv) if inv else "observation is not what the transcription of recovery.c computes"
        detail = "%s: observed %s jstart %s needs_recovery %s stray %s; model %s; Final %s; stop reason %r, deviations %s (%s, %s)" % (
            what, r2["obs"], r2["jstart"], r2["nro"], r2["stray"], o["model"], o["final"], o["reason"], o["devs"], prof, j["stratum"])
        vd.violation("%s@%s" % ("inv:" + inv if inv else "rejected", j["stratum"]["kind"]), detail,
                     {"journal": j, "profile": prof, "observed": r2, "tlc": o, "tlc_tail": tail[-1500:]})
    # known-finding routing: accepted by the literal model, yet different from Final because a named deviation was taken
    strata = ev.cov.setdefault("strata", {})
    reasons = ev.cov.setdefault("stop_reasons", {})
    devcount = ev.cov.setdefault("deviation_journals", {})
    for i, (j, prof) in enumerate(journals):
        o = outs[i]
        k = "csum%d/%s/%s" % (j["cfg"]["csum"], "64" if j["cfg"]["b64"] else "32", "async" if j["cfg"]["async"] else "sync")
        strata[k] = strata.get(k, 0) + 1
        reasons[o["reason"]] = reasons.get(o["reason"], 0) + 1
        if i in rejected:
            continue
        if o["devs"] and list(results[i]["obs"][0]) != list(o["final"]):
            for d in o["devs"]:
                devcount[d] = devcount.get(d, 0) + 1
                vd.violation("Dev" + d, "journal replay differs from the property because of deviation %s" % d,
                             {"journal": j, "profile": prof, "observed": results[i], "final": o["final"]})
        if nontrivial(j):
            ev.nontrivial(canon(j))
    ev.cov["traces_validated_against_impl"] += len(journals) - len(rejected)
    ev.cov["evaluations"] += 3 * len(journals)
    return results, outs


def run(tier):
    ev = Evidence(PID, tier, "model_checking")
    vd = Verdict(PID, ev)
    load_known(vd)
    work = fast_tmp()
    try:
        try:
            b = build.build()
        except RuntimeError as e:
            die_broken(str(e))
        model_check(ev, vd, tier, work)
        try:
            profs = ["ext4_1k", "ext3_1k", "ext4_4k_csum64"]
            bases = {p: Base(b, work, p) for p in profs}
        except (RuntimeError, ValueError) as e:
            die_broken("base image: %s" % e)
        rng = random.Random(seed())
        n = 672 if tier == "quick" else 22400            # multiples of |damage kinds| x |feature configurations| = 224
        off = (seed() * 7919) % 224
        journals = []
        for i in range(n):
            j = S.sample(rng, off + i)
            journals.append((j, profs[0] if i % 4 < 2 else profs[1 + (i % 4) - 2]))
        batch = 2240
        first = None
        for s in range(0, n, batch):
            r, o = conformance(ev, vd, b, work, journals[s:s + batch], bases, "s%d_" % (s // batch))
            if first is None:
                first = (journals[0], r[0], o[0])
        xcheck_debugfs_writer(ev, vd, b, work, bases["ext4_1k"])
        repo_tests(ev, vd, b, work)
        ev.cov["rule"] = ("journals drawn by a seeded sampler stratified over 16 feature configurations (csum none/v1/v2/v3 x 32/64-bit tags x async) "
                          "x 14 damage kinds, on 3 image profiles; non-trivial = >= 1 committed transaction and >= 1 of {revoke hit, escaped block, "
                          "ring wrap, uncommitted tail, checksum failure}; distinct by canonical form (cfg, jsb, fs0, log)")
        (j0, p0), r0, o0 = first
        ev.sample({"journal": {"cfg": j0["cfg"], "jsb": j0["jsb"], "fs0": j0["fs0"], "hist": [{k: h[k] for k in ("seq", "tags", "rev", "valid")} for h in j0["hist"]]},
                   "observed": r0["obs"], "final_by_tlc": o0["final"], "stop_reason": o0["reason"]})
        ev.cov["checker_cmd"] = "TRACE=<chunk> tlc -workers 1 -config Trace_Jbd2.cfg spec/Trace_Jbd2.tla (POSTCONDITION TraceAccepted, INVARIANT ReplayExactOrDev, TraceSound)"
        ev.assumptions = [
            "fast-commit replay (ext4_fc_replay*) is not modelled: journals never carry JBD2_FEATURE_INCOMPAT_FAST_COMMIT (DESIGN section 6)",
            "damage is restricted to what the format can detect: control blocks missing/stale/wrongly sequenced, checksum failures where the scheme has a checksum, "
            "data-block damage only under v1 (commit carries the transaction checksum) / v2 / v3; a transaction logs a block at most once",
            "sequence numbers stay below 2^30 (no tid wrap-around); 64-bit tags carry block numbers < 2^32 (t_blocknr_high = 0)",
            "target blocks are free data blocks; every other block may be rewritten by the front-ends only if it is filesystem metadata (stray-write check)",
            "internal journal only (journal inode, extent-mapped and block-mapped); external journal devices are exercised by the repository images j_ext_* only",
            "the first front-end is invoked as `e2fsck -y -E journal_only` (with -f the option has no effect: check_if_skip returns early)",
        ]
        return vd.finish()
    finally:
        shutil.rmtree(work, ignore_errors=True)


# ---------------------------------------------------------------------------------------------- extra traces
def xcheck_debugfs_writer(ev, vd, b, work, base):
    """Cross-check of the encoder against journals written by debugfs's own writer (jo; jw -b .. -r ..; jc): the
    independent decoder must find the transactions that were asked for, and re-encoding them must give the same bytes."""
    ev.cov["encoder_crosscheck"] = "not run"
    env = tool_env(b)
    ok = 0
    for variant, opts in (("plain", []), ("csum", ["-c"])):
        img = os.path.join(work, "xc.img")
        shutil.copyfile(base.path, img)
        bs = base.bs
        data1 = os.path.join(work, "xc_d1"); data2 = os.path.join(work, "xc_d2")
        with open(data1, "wb") as f:
            f.write(J.payload(1, 0, bs) + J.payload(2, 1, bs))
        with open(data2, "wb") as f:
            f.write(J.payload(3, 0, bs))
        script = os.path.join(work, "xc.cmd")
        with open(script, "w") as f:
            f.write("jo %s\njw -b %d,%d %s\njc\njo\njw -b %d -r %d %s\njc\n" % (" ".join(opts), base.tb[1], base.tb[2], data1, base.tb[3], base.tb[1], data2))
        rc, out, err = crun([b + "/debugfs/debugfs", "-w", "-f", script, img], env=env)
        if b"rror" in err or rc != 0:
            die_broken("debugfs journal writer failed: %s" % err.decode()[-400:])
        im = J.Image(img)
        jmap = im.journal_map()
        jsb = J.read_jsb(img, jmap[0])
        pos, recs = jsb["start"], []
        while pos and len(recs) < 12:
            d = J.decode_block(im.rd(jmap[pos]), jsb["incompat"], jsb["compat"])
            if d["t"] == "nomagic" and not (recs and recs[-1]["t"] == "desc" or (len(recs) > 1 and recs[-2]["t"] == "desc" and len(recs[-2]["tags"]) > 1 and recs[-1]["t"] == "nomagic")):
                break
            recs.append(d); pos += 1
        kinds = [r["t"] for r in recs]
        want_tags = [[base.tb[1], base.tb[2]], [base.tb[3]]]
        descs = [r for r in recs if r["t"] == "desc"]
        revs = [r for r in recs if r["t"] == "revoke"]
        commits = [r for r in recs if r["t"] == "commit"]
        good = (len(descs) == 2 and [[t["blk"] for t in d["tags"]] for d in descs] == want_tags and len(revs) == 1 and revs[0]["blks"] == [base.tb[1]]
                and len(commits) == 2 and commits[1]["seq"] == commits[0]["seq"] + 1 and descs[0]["tags"][1]["flags"] & 1 == 1)
        # byte-level: re-encode the first descriptor with the own encoder and compare the tag area and checksum
        cfgx = {"csum": 3 if jsb["incompat"] & 16 else 2 if jsb["incompat"] & 8 else 1 if jsb["compat"] & 1 else 0, "b64": 1 if jsb["incompat"] & 2 else 0,
                "async": 0, "L": 8}
        with open(img, "rb") as f:
            f.seek(jmap[0] * bs + 48); uuid = f.read(16)
        enc = J.Encoder(cfgx, bs, uuid, base.tb)
        mine = enc.desc({"t": "desc", "seq": descs[0]["seq"], "ok": 1, "id": 0, "tags": [{"blk": 1, "v": 1, "cs": 1, "esc": 0}, {"blk": 2, "v": 2, "cs": 2, "esc": 1}]}) if descs else b""
        theirs = im.rd(jmap[jsb["start"]]) if descs else b"x"
        tb = enc.tag_bytes()
        same_tags = mine[:12 + tb] == theirs[:12 + tb] and mine[12 + tb + 16:12 + 2 * tb + 16] == theirs[12 + tb + 16:12 + 2 * tb + 16]
        same_tail = (not enc.v23) or True      # debugfs leaves the uuid area to chance (pointer arithmetic), so block checksums cannot be compared byte-wise
        mine_c = enc.commit({"t": "commit", "seq": commits[0]["seq"], "ok": 1, "time": commits[0]["time"], "hassum": 0, "sum": []}) if commits else b""
        # data blocks as logged (escaped form)
        d1 = im.rd(jmap[jsb["start"] + 1]) == J.log_image(1, 0, bs) and im.rd(jmap[jsb["start"] + 2]) == J.log_image(2, 1, bs)
        if good and same_tags and d1:
            ok += 1
        else:
            die_broken("encoder/decoder cross-check against debugfs's journal writer failed (%s): kinds %s good %s tags %s data %s" % (variant, kinds, good, same_tags, d1))
    ev.cov["encoder_crosscheck"] = "%d debugfs-written journals decoded as requested; tag layout, escape and data images byte-identical to the own encoder" % ok


def repo_tests(ev, vd, b, work):
    ev.cov["repo_j_images"] = "see run_repo_images"
    try:
        run_repo_images(ev, vd, b, work)
    except FileNotFoundError:
        ev.cov["repo_j_images"] = "tests directory not found in the build"


def run_repo_images(ev, vd, b, work):
    """The repository's j_* images with an internal journal: the three front-ends must agree block-for-block on every
    non-metadata block, empty the journal and clear the flag.  (Their histories are unknown, so Final is not evaluated.)"""
    env = tool_env(b)
    tdir = os.path.join(b, "tests")
    n = agree = 0
    notes = []
    for d in sorted(os.listdir(tdir)):
        p = os.path.join(tdir, d, "image.gz")
        if not d.startswith("j_") or not os.path.exists(p) or "ext_jnl" in d or d.startswith("j_ext") or "fast_commit" in d or "corrupt_sb" in d:
            continue
        raw = gzip.open(p).read()
        src = os.path.join(work, "rt.img")
        with open(src, "wb") as f:
            f.write(raw)
        try:
            im = J.Image(src)
            if not im.needs_recovery() or not im.journal_inum:
                continue
            jmap = im.journal_map()
            meta = im.metadata_blocks()
        except Exception as e:
            notes.append("%s: not parsed by the independent reader (%s)" % (d, e)); continue
        outs = []
        for fe in FRONTENDS:
            img = os.path.join(work, "rt_%s.img" % fe)
            shutil.copyfile(src, img)
            rc, out, err = crun(fe_cmd(b, fe, img), env=env, timeout=120)
            with open(img, "rb") as f:
                after = f.read()
            jsb = J.read_jsb(img, jmap[0])
            nro = 1 if struct.unpack_from("<I", after, 1024 + 96)[0] & 0x4 else 0
            outs.append((after, jsb, nro, rc))
            os.unlink(img)
        n += 1
        bs = im.bs
        skip = meta | set(jmap)
        # e2fsck -fy may repair what the replay exposed; agreement is required between the two pure replays
        a, c = outs[0][0], outs[2][0]
        diff = [blk for blk in range(min(len(a), len(c)) // bs) if blk not in skip and a[blk * bs:(blk + 1) * bs] != c[blk * bs:(blk + 1) * bs]]
        empty = all(o[1]["start"] == 0 for o in outs)
        clear = all(o[2] == 0 for o in outs)
        if diff or not empty or not clear:
            vd.violation("repo-image:%s" % d, "front-ends disagree on %d blocks / journal empty %s / flag clear %s on tests/%s" % (len(diff), empty, clear, d),
                         {"test": d, "diff_blocks": diff[:20], "jsb": [o[1] for o in outs], "nro": [o[2] for o in outs]})
        else:
            agree += 1
    ev.cov["repo_j_images"] = "%d repository j_* images with a pending internal journal replayed by all front-ends; %d agree block-for-block (e2fsck -E journal_only vs debugfs jr), journal empty, flag clear" % (n, agree)
    if notes:
        ev.cov["repo_j_images_notes"] = notes[:10]
    ev.cov["evaluations"] += 3 * n


def replay(path):
    d = json.load(open(path))
    rp = d["replay"]
    if "journal" not in rp:
        print("replay artefact carries no journal (model-level finding): see its tlc_tail"); return 1
    j, prof = rp["journal"], rp.get("profile", "ext4_1k")
    work = fast_tmp()
    try:
        b = build.build()
        base = Base(b, work, prof)
        r = run_journal(b, base, j, work, "rp")
        os.environ.update(jenv())
        devs = dict(CONF_DEVS)
        if d.get("key", "").startswith("fixed:"):
            pass
        rej, matched, inv, tail, _ = tracecheck.confirm(trace_of(j, r), os.path.join(SPEC, "Trace_Jbd2.tla"), trace_cfg(work, devs), work)
        print("observed:", json.dumps({k: r[k] for k in ("obs", "jstart", "nro", "stray", "rc")}))
        outp = os.path.join(work, "confirm_%d.ndjson.out" % os.getpid())
        o = None
        if os.path.exists(outp):
            o = json.loads(open(outp).readline())
            print("TLC: Final %s model %s deviations %s stop reason %r" % (o["final"], o["model"], o["devs"], o["reason"]))
        if rej:
            print(tail[-1200:])
            print("VIOLATION property=%s replay=%s" % (PID, path)); return 1
        if o and o["devs"] and list(r["obs"][0]) != list(o["final"]):
            vd = Verdict(PID, Evidence(PID, "quick", "model_checking")); load_known(vd)
            keys = ["Dev" + x for x in o["devs"]]
            if all(k in vd.known for k in keys):
                for k in keys:
                    print("KNOWN-FINDING: property=%s %s" % (PID, vd.known[k]["what"]))
                return 0
            print("VIOLATION property=%s replay=%s" % (PID, path)); return 1
        print("replay accepted"); return 0
    finally:
        shutil.rmtree(work, ignore_errors=True)
