"""C08 -- resize2fs preserves every file and leaves a consistent filesystem; error flag on disk during the run.

Crash clause (no projection needed): every resize2fs run is recorded by harness/iotrace.so; the device writes are
classified against a shadow copy of the image ("out": changes bytes outside the primary superblock; "on"/"off": rewrites
s_state with ERROR_FS set/clear) and TLC validates the event stream against spec/ResizeCrash.tla, evaluating
CrashInvariant on every crash image of every prefix (Trace_ResizeCrash).  The thorough tier additionally rebuilds
sampled crash images from the recorded payloads and confirms on the real e2fsck that they are not treated as clean.

Main clause: one trace line per run {request, exit, reported size, facts} validated by Trace_Resize: e2fsck -fn, Ext4Abs!Consistent on the
independent reader's projection of the result, Ext4Abs!TreeEq(before, after) (lib/absstate.py: both decided by TLC), size = reported;
refused => unchanged or error flag.

Model and universe: spec/Resize.tla states per object what a run must do (blocks_to_move, inode_scan_and_fix, move_itables,
fix_resize_inode and the device program of the run) on an abstract filesystem, model-checked over every small shape x target, with
the literal faulty variants (Dev*) as negative controls.  ResizeOps!Marks names the branch boundaries of these algorithms; the
catalogue (every mark of the model universe, one lightest witness each, written by Emit_Resize) is REALISED here: gen/c08_shapes.py
builds an image per witness with mke2fs + debugfs of the tree under test, the facts of the image are read through the independent
reader and TLC decides (guard line, before resize2fs runs) that the image exercises the boundary it was built for; at the end TLC
decides that every catalogue element was realised by a successful, fully evaluated run (CHECK-BROKEN otherwise)."""
import os, sys, json, random, shutil, hashlib, re, struct, concurrent.futures as cf
from common import VERIF, fast_tmp, seed, die_broken, NPROC, tool_env
from common import run as sh
import build, tlc as T, tracecheck, sbparse, mkbase, absstate
import ext4read, c08_shapes
from evidence import Evidence, Verdict

PID = "C08"
SPEC = os.path.join(VERIF, "spec")
IOTRACE = os.path.join(VERIF, "harness", "iotrace.so")
SB_LO, SB_HI = 1024, 2048
STATE_OFF = 1024 + 58          # s_state (u16), ERROR_FS = 0x2


def targets(sb, minblocks, rng, tier):
    n, bpg, first = sb["blocks"], sb["bpg"], sb["first"]
    t = set()
    for k in range(1, 12):
        base = first + k * bpg
        for d in (-1, 0, 1, 57):
            t.add(base + d)
    t |= {n - 1, n + 1, n + bpg, 2 * n, int(3.5 * n), n + 7, max(minblocks, 64), minblocks + 1, minblocks + bpg // 2}
    t = sorted(x for x in t if x >= minblocks and x != n and x * sb["bs"] <= 96 * 1024 * 1024)
    rng.shuffle(t)
    shr = [first + k * bpg for k in range(1, sb["gdc"]) if first + k * bpg >= minblocks]       # drop whole groups
    out = [("size", x) for x in shr[:2]] + [("size", x) for x in t[: (4 if tier == "quick" else 40)]]
    out.append(("-M", 0))
    # requests resize2fs must refuse: below the minimum, with and without the (legal) -S option; and a no-op
    if minblocks > 80:
        out.append(("refuse", max(64, minblocks - 1)))
        out.append(("refuseS", max(64, minblocks // 2)))
    out.append(("same", n))
    return out


def classify(trace_path, blob_path, img0, img_path, old_fs_bytes):
    """Returns the event list for TLC + bookkeeping for crash-image reconstruction."""
    shadow = bytearray(img0)
    orig = bytes(img0)
    ev = []
    writes = []     # (off, payload) in order, with index of the event
    blobs = open(blob_path, "rb").read() if os.path.exists(blob_path) else b""
    last_flag = 1 if (struct.unpack_from("<H", shadow, STATE_OFF)[0] & 2) else 0
    pend_flag = None
    fs_end = old_fs_bytes
    for ln in open(trace_path):
        d = json.loads(ln)
        e = d["e"]
        if e in ("pwrite", "write"):
            off = d["off_hi"] * (1 << 31) + d["off_lo"]
            ln_ = d["len"]
            bo = d["blob_hi"] * (1 << 31) + d["blob_lo"] if d["blob_hi"] >= 0 else -1
            if d.get("fail") or bo < 0:
                continue
            data = blobs[bo:bo + ln_]
            if len(shadow) < off + ln_:
                shadow.extend(b"\0" * (off + ln_ - len(shadow)))
            before = bytes(shadow[off:off + ln_])
            shadow[off:off + ln_] = data
            writes.append((off, data))
            # bytes outside the primary superblock that differ from what was there
            out_changed = False
            a, b = off, off + ln_
            # bytes past the end of the filesystem the on-disk superblock describes are not part of it (main.c extends the
            # backing file by writing one byte at the new end; new groups are initialised there before the size changes).
            # Once a superblock write that announces a larger size has been issued (move_itables flushes new_fs in the middle of a
            # run) the filesystem may extend to that size on the medium: the end follows the largest size issued so far
            b = min(b, fs_end)
            for (x, y) in ((a, min(b, SB_LO)), (max(a, SB_HI), b)):      # b already clipped to the old filesystem end
                if x < y and before[x - off:y - off] != data[x - off:y - off]:
                    out_changed = True
            if out_changed:
                ev.append({"e": "w", "k": "out", "flag": 0, "err0": 0, "wi": len(writes) - 1})
            if off < SB_HI and off + ln_ > SB_LO:
                sbn = sbparse.parse_sb(bytes(shadow[SB_LO:SB_HI]))
                if sbn and sbn.get("magic_ok", True) and 0 < sbn["blocks"] * sbn["bs"] <= (1 << 40):
                    fs_end = max(fs_end, sbn["blocks"] * sbn["bs"])
            if off <= STATE_OFF and off + ln_ >= STATE_OFF + 2:
                st = struct.unpack_from("<H", data, STATE_OFF - off)[0]
                k = "on" if st & 2 else "off"
                pend_flag = 1 if st & 2 else 0
                ev.append({"e": "w", "k": k, "flag": 0, "err0": 0, "wi": len(writes) - 1})
        elif e in ("ftruncate", "fallocate"):
            continue          # size changes of the backing FILE are not modifications of the filesystem
        elif e == "fsync":
            if pend_flag is not None:
                last_flag = pend_flag
                pend_flag = None
            ev.append({"e": "fsync", "k": "", "flag": last_flag, "err0": 0, "wi": len(writes)})
    return ev, writes, shadow


def one(args):
    b, prof, imgsrc, kind, val, work, idx, want_crash, cat = args
    env = tool_env(b)
    img = os.path.join(work, "r%d.img" % idx)
    shutil.copyfile(imgsrc, img)
    img0 = open(img, "rb").read()
    sb0 = sbparse.parse_sb(img0[1024:2048])
    rz = os.path.join(b, "resize", "resize2fs")
    tr, bl = img + ".nd", img + ".blob"
    e2 = dict(env, LD_PRELOAD=IOTRACE, VERIF_IOTRACE_TARGET=os.path.basename(img), VERIF_IOTRACE_OUT=tr, VERIF_IOTRACE_BLOBS=bl)
    if kind == "-M":
        cmd = [rz, "-M", img]
    elif kind in ("conv64", "conv32"):
        cmd = [rz, "-b" if kind == "conv64" else "-s", img]
    elif kind == "refuseS":
        cmd = [rz, "-S", "8", img, str(val)]
    else:
        cmd = [rz, img, str(val)]
    rc, out, err = sh(cmd, env=e2, timeout=300)
    txt = (out + err).decode("utf8", "replace")
    res = {"profile": prof, "kind": kind, "request": "-M" if kind == "-M" else ("-b" if kind == "conv64" else "-s" if kind == "conv32" else "-S 8 %d" % val if kind == "refuseS" else str(val)), "rc": rc, "msg": txt[-300:], "img": img, "img0_sha": hashlib.sha256(img0).hexdigest(),
           "old_blocks": sb0["blocks"], "source": prof, "val": val, "cat": cat}
    m = re.search(r"is now (\d+) \(\d+k\) blocks long", txt)
    res["reported"] = int(m.group(1)) if m else -1
    res["nothing"] = 1 if "Nothing to do" in txt or "already" in txt else 0
    if os.path.exists(tr):
        evs, writes, shadow = classify(tr, bl, img0, img, sb0["blocks"] * sb0["bs"])
        final = open(img, "rb").read()
        res["shadow_matches"] = (bytes(shadow[:len(final)]) == final[:len(shadow)])
        err0 = 1 if sb0["state"] & 2 else 0
        res["events"] = [{"e": "reset", "k": "", "flag": 0, "err0": err0, "wi": 0}] + evs + ([{"e": "done", "k": "", "flag": 0, "err0": 0, "wi": 0}] if rc == 0 else [])
        res["n_out"] = sum(1 for x in evs if x["k"] == "out")
        res["n_fsync"] = sum(1 for x in evs if x["e"] == "fsync")
        if want_crash:
            res["_writes"] = writes
            res["_img0"] = img0
            res["fs_end"] = sb0["blocks"] * sb0["bs"]
    else:
        res["events"] = []
        res["n_out"] = 0; res["n_fsync"] = 0
    for f in (tr, bl):
        if os.path.exists(f):
            os.unlink(f)
    # main clause facts
    img1 = open(img, "rb").read()
    sb1 = sbparse.parse_sb(img1[1024:2048])
    res["new_blocks"] = sb1["blocks"] if sb1 else -1
    res["errflag"] = 1 if (sb1 and sb1["state"] & 2) else 0
    n0 = len(img0)
    same_out = img1[:1024] == img0[:1024] and img1[2048:n0] == img0[2048:n0]
    IGN = ("wtime", "kbytes_written")
    same_sb = sb1 is not None and all(sb0[k] == sb1[k] for k in sb0 if k not in IGN) and \
        img1[1024:1024 + 48] == img0[1024:1024 + 48] and img1[1024 + 52:1024 + 0x178] == img0[1024 + 52:1024 + 0x178] and \
        img1[1024 + 0x180:1024 + 0x3FC] == img0[1024 + 0x180:1024 + 0x3FC]
    res["unchanged"] = 1 if (same_out and same_sb) else 0
    r2, o2, e2_ = sh([os.path.join(b, "e2fsck", "e2fsck"), "-fn", img], env=env, timeout=300)
    res["fsck"] = r2
    res["fsck_out"] = o2.decode("utf8", "replace")[-300:] if r2 else ""
    res["consistent"] = -1
    res["tree_equal"] = -1
    # projection of the result by the independent reader (successful runs only; evaluated by TLC in main_clause)
    if rc == 0 and res["reported"] > 0:
        try:
            res["_P1"] = ext4read.project(img)
        except Exception as e:            # a reader crash is a limitation of the observer, never a verdict
            res["_P1"] = {"fatal": "reader exception: %r" % (e,)}
    return res


def crash_images(b, r, work, rng, maxn=6):
    """Fault enumeration on the real code: rebuild crash images (prefix of events + subset of pending writes) in which a
    modification outside the superblock is visible, and check that e2fsck -p does not treat the filesystem as clean."""
    env = tool_env(b)
    fsck = os.path.join(b, "e2fsck", "e2fsck")
    writes, img0 = r["_writes"], r["_img0"]
    evs = r["events"]
    # positions of fsyncs in write-index space
    sync_at = [e["wi"] for e in evs if e["e"] == "fsync"]
    nw = len(writes)
    if nw == 0:
        return []
    picks = sorted(set([rng.randrange(1, nw + 1) for _ in range(maxn)]))
    bad = []
    for cut in picks:
        durable_upto = max([s for s in sync_at if s <= cut] + [0])
        pending = list(range(durable_upto, cut))
        variants = [set(pending), set()] + ([set([rng.choice(pending)])] if pending else []) + ([set(pending) - {rng.choice(pending)}] if pending else [])
        for keep in variants:
            img = bytearray(img0)
            for i in range(cut):
                if i < durable_upto or i in keep:
                    off, data = writes[i]
                    if len(img) < off + len(data):
                        img.extend(b"\0" * (off + len(data) - len(img)))
                    img[off:off + len(data)] = data
            # same classification rule as the trace events: bytes beyond the end of the filesystem the on-disk superblock
            # describes are not part of it (resize2fs main.c writes one byte "0" at the new end to extend an image file
            # before anything else; the superblock still says the old size, so that byte is invisible to every reader)
            fs_end = min(len(img0), r.get("fs_end", len(img0)))
            modified = bytes(img[:SB_LO]) != img0[:SB_LO] or bytes(img[SB_HI:fs_end]) != img0[SB_HI:fs_end]
            flag = struct.unpack_from("<H", img, STATE_OFF)[0] & 2
            # the run is complete, as far as anything outside the superblock goes, once every write classified "out" has been
            # applied: what may still be missing then are superblock-internal words (the library writes the superblock word by
            # word), and the flag is legitimately off again
            out_idx = [e["wi"] for e in evs if e["e"] == "w" and e["k"] == "out"]
            complete = (cut == nw) or all(i < durable_upto or i in keep for i in out_idx)
            if modified and not flag and not complete:
                # candidate violation at byte level; confirm that the real e2fsck -p would skip the check
                p = os.path.join(work, "crash_%d.img" % os.getpid())
                open(p, "wb").write(img)
                rc, out, err = sh([fsck, "-p", p], env=env, timeout=120)
                os.unlink(p)
                bad.append({"cut": cut, "kept": sorted(keep), "fsck_p_rc": rc, "fsck_p_out": out.decode("utf8", "replace")[-200:]})
    return bad


def reader_unknown(P):
    """the reader could not produce a state Ext4Abs can judge: unknown, never a verdict"""
    if "fatal" in P or "reader_err" in P:
        return str(P.get("fatal") or P.get("reader_err"))[:200]
    if P.get("unsupported"):
        return "unsupported: %s" % (P["unsupported"],)
    if P.get("short_reads"):
        return "short reads: %s" % (P["short_reads"],)
    return None


def main_clause(sources, results, ev):
    """Independent oracle of the main clause: Ext4Abs!Consistent on the projection of every successful result and
    Ext4Abs!TreeEq(before, after), evaluated by TLC (lib/absstate.py), one TLC process per source image.
    Sets r["consistent"], r["tree_equal"] (1 / 0 / -1 unknown) and r["failed"]."""
    groups = {}
    for i, r in enumerate(results):
        if "_P1" in r:
            groups.setdefault(r["source"], []).append(i)
    unknown = []

    def batch(item):
        srcname, idxs = item
        P0 = sources[srcname]["P0"]
        u0 = reader_unknown(P0)
        states, owners = [P0], []
        for i in idxs:
            u1 = reader_unknown(results[i]["_P1"])
            if u0 or u1:
                unknown.append({"source": srcname, "request": results[i]["request"], "why": u0 or u1})
                continue
            states.append(results[i]["_P1"]); owners.append(i)
        if not owners:
            return 0.0
        st = {}
        try:
            verd, eq = absstate.evaluate(states, pairs=[(0, k + 1) for k in range(len(owners))], stats=st)
        except (absstate.AbsStateError, ValueError) as e:
            die_broken("TLC could not evaluate the projections of %s: %s" % (srcname, str(e)[-1200:]))
        if not verd[0]["consistent"]:
            # the image before the run is not consistent in the reader's eyes although e2fsck -fn accepted it: the reader
            # (or Ext4Abs) does not cover this image; its results are unknown rather than verdicts
            for i in owners:
                unknown.append({"source": srcname, "request": results[i]["request"], "why": "source image: " + ",".join(verd[0]["failed"])})
            return st.get("tlc_wall", 0.0)
        for k, i in enumerate(owners):
            results[i]["consistent"] = 1 if verd[k + 1]["consistent"] else 0
            results[i]["failed"] = verd[k + 1]["failed"]
            results[i]["tree_equal"] = 1 if eq[k] else 0
        return st.get("tlc_wall", 0.0)
    with cf.ThreadPoolExecutor(max_workers=max(2, min(8, NPROC // 2))) as ex:
        walls = list(ex.map(batch, sorted(groups.items())))
    ev.cov["main_clause_tlc_runs"] = len(walls)
    ev.cov["main_clause_tlc_wall_s"] = round(sum(walls), 1)
    ev.cov["main_clause_unknown"] = unknown[:40]
    return sum(1 for r in results if r["consistent"] != -1)


MC_DEVS = (("MC_Resize_DevUninitSkipOffByOne.cfg", "NoBlockLost"), ("MC_Resize_DevBoundaryInodeMoved.cfg", "InodesBijective"),
           ("MC_Resize_DevFlagClearedEarly.cfg", "CrashInvariant"))


def model_part(ev, vd, work):
    """Model checking of ResizeCrash and Resize (with the negative controls) and the boundary catalogue.  Returns the catalogue."""
    catp = os.path.join(work, "resize_catalogue.json")
    jobs = [("crash", os.path.join(SPEC, "ResizeCrash.tla"), "MC_ResizeCrash.cfg", {}), ("crash_bad", os.path.join(SPEC, "ResizeCrash.tla"), "MC_ResizeCrash_bad.cfg", {}),
            ("resize", os.path.join(SPEC, "Resize.tla"), "MC_Resize.cfg", {}), ("emit", os.path.join(SPEC, "Emit_Resize.tla"), "Emit_Resize.cfg", {"OUT": catp})]
    jobs += [("dev:" + inv, os.path.join(SPEC, "Resize.tla"), cfg, {}) for cfg, inv in MC_DEVS]
    with cf.ThreadPoolExecutor(max_workers=4) as ex:
        rs = list(ex.map(lambda j: T.tlc(j[1], os.path.join(SPEC, j[2]), workers=2, timeout=600, env=j[3], xmx="3g"), jobs))
    for (name, mod, cfg, _), r in zip(jobs, rs):
        if name in ("crash", "resize"):
            ev.add_tlc(r, {"crash": "ResizeCrash protocol: CrashInvariant", "resize": "Resize: NoBlockLost, InodesBijective, CrashInvariant, EndsClean over every small shape x target"}[name])
            if r.violated:
                vd.violation("model", "%s: %s violated" % (cfg, r.violated), {"tlc": r.out[-2000:]})
            elif not r.ok:
                die_broken("TLC failed on %s: %s\n%s" % (cfg, r.error, r.out[-1200:]))
        elif name == "crash_bad":
            if not r.violated:
                die_broken("vacuity: the protocol mutant (work before the flag is flushed) does not violate CrashInvariant")
        elif name == "emit":
            if not r.ok or not os.path.exists(catp):
                die_broken("TLC could not enumerate the boundary catalogue (Emit_Resize): %s\n%s" % (r.error, r.out[-1500:]))
        else:
            want = name.split(":", 1)[1]
            if r.violated != want:
                die_broken("vacuity: the literal faulty variant of %s does not violate %s (TLC: %s %s)" % (cfg, want, r.violated, r.error))
            ev.cov.setdefault("negative_controls", []).append({"cfg": cfg, "violates": want})
    return json.load(open(catp))["catalogue"]


def run_lines(lines, work, name):
    """Trace_Resize on all lines in ONE TLC process (the coverage set `seen` is a variable of the trace specification)."""
    p = os.path.join(work, name)
    with open(p, "w") as f:
        for ln in lines:
            f.write(ln + "\n")
    r = T.tlc(os.path.join(SPEC, "Trace_Resize.tla"), os.path.join(SPEC, "Trace_Resize.cfg"), workers=1, timeout=900, env={"TRACE": p}, xmx="4g")
    if not (r.rc == 0 and r.violated is None and r.error is None):
        die_broken("TLC failed on Trace_Resize (%s): %s\n%s" % (name, r.error or r.violated, r.out[-1500:]))
    out = {"bad": [int(x) - 1 for x in re.findall(r'<<"BADLINE", (\d+)>>', r.out)],
           "badpred": [int(x) - 1 for x in re.findall(r'<<"BADPRED", (\d+)>>', r.out)],
           "badshape": [(int(x) - 1, c) for x, c in re.findall(r'<<"BADSHAPE", (\d+), "([^"]*)">>', r.out)],
           "missing": re.findall(r'<<"MISSING", (\{[^}]*\})>>', r.out),
           "marks": {int(x) - 1: re.findall(r'"([^"]+)"', m) for x, m in re.findall(r'<<"MARKS", (\d+), (\{[^}]*\})>>', r.out)},
           "distinct": r.distinct, "generated": r.generated}
    return out


def line_of(r):
    return json.dumps({"e": "resize", "rc": r["rc"] if r["rc"] in (0, 1) else 2, "reported": r["reported"], "nothing": r["nothing"], "new_blocks": r["new_blocks"],
                       "errflag": r["errflag"], "unchanged": r["unchanged"], "fsck": r["fsck"], "consistent": r["consistent"], "tree_equal": r["tree_equal"],
                       "cat": r.get("cat", ""), "hasf": 1 if r.get("f") else 0, "f": r.get("f") or {}, "t": r.get("t") or {}, "moved": r.get("moved", [])})


def attach_facts(sources, r):
    """facts of the image before the run + the request as resize2fs understood it (reported size) + inode tables that changed place"""
    F = sources[r["source"]].get("F")
    if F is None:
        return
    kind = r["kind"] if r["kind"] in ("conv64", "conv32") else "size"
    nb = r["reported"] if (r["rc"] == 0 and r["reported"] > 0) else (r["val"] if kind == "size" and r["kind"] != "-M" else F.rec["blocks"])
    r["f"], r["t"] = F.rec, F.target(kind, nb)
    P0, P1 = sources[r["source"]]["P0"], r.get("_P1")
    if P1 and "gd" in P1 and "gd" in P0:
        r["moved"] = [k + 1 for k in range(min(len(P0["gd"]), len(P1["gd"]))) if P0["gd"][k]["it"] != P1["gd"][k]["it"]]


def run(tier):
    ev = Evidence(PID, tier, "model_checking")
    vd = Verdict(PID, ev)
    work = fast_tmp()
    try:
        try:
            b = build.build()
        except RuntimeError as e:
            die_broken(str(e))
        if not os.path.exists(IOTRACE):
            sh(["make", "-C", os.path.join(VERIF, "harness"), "-s", "all"])
        catalogue = model_part(ev, vd, work)
        basedir, meta = mkbase.base_images(b)
        rng = random.Random(seed())
        env = tool_env(b)
        rz = os.path.join(b, "resize", "resize2fs")
        # ---- sources: base profiles + one image per catalogue element (built here, guarded through the reader before any run)
        sources = {}
        profs = [p for p, i in sorted(meta.items()) if i["ok"]]
        skipped = [p for p, i in meta.items() if not i["ok"]]
        for p in profs:
            sources[p] = {"img": os.path.join(basedir, p + ".img")}
        cat_rows = sorted(catalogue, key=lambda r: r["mark"])
        seeds = [rng.random() for _ in cat_rows]

        def build_cat(a):
            row, sd = a
            name = "cat:" + row["mark"]
            path = os.path.join(work, "cat_%s.img" % row["mark"].replace("/", "_"))
            try:
                req = c08_shapes.build(b, row, path, random.Random(sd))
            except RuntimeError as e:
                return name, None, str(e)
            return name, {"img": path, "req": req, "mark": row["mark"], "build_seed": sd}, None
        with cf.ThreadPoolExecutor(max_workers=NPROC) as ex:
            for name, src, err in ex.map(build_cat, zip(cat_rows, seeds)):
                if err:
                    die_broken("catalogue element %s could not be built: %s" % (name, err))
                sources[name] = src

        def proj(name):
            try:
                P = ext4read.project(sources[name]["img"])
            except Exception as e:
                P = {"fatal": "reader exception: %r" % (e,)}
            return name, P
        with cf.ThreadPoolExecutor(max_workers=NPROC) as ex:
            for name, P in ex.map(proj, sorted(sources)):
                sources[name]["P0"] = P
                if reader_unknown(P) is None or ("fatal" not in P and "gd" in P and "fixed_list" in P):
                    try:
                        sources[name]["F"] = c08_shapes.Facts(P)
                    except (KeyError, IndexError, TypeError):
                        pass
        # vacuity guard: TLC decides that every built image exercises the boundary it was built for, before resize2fs runs
        glines = []
        for name in sorted(sources):
            s_ = sources[name]
            if "mark" not in s_:
                continue
            if "F" not in s_:
                die_broken("the independent reader cannot read the image built for catalogue element %s: %s" % (s_["mark"], reader_unknown(s_["P0"])))
            glines.append(json.dumps({"e": "guard", "cat": s_["mark"], "f": s_["F"].rec, "t": s_["F"].target(s_["req"]["kind"], s_["req"]["val"])}))
        g = run_lines(glines, work, "guard.ndjson")
        if g["badshape"]:
            die_broken("vacuity: the image built for catalogue element(s) %s does not have the shape (ResizeOps!Marks on the reader's facts)" % sorted(c for _, c in g["badshape"]))
        ev.cov["states"] += g["distinct"]; ev.cov["transitions"] += g["generated"]
        # ---- jobs
        jobs = []
        idx = 0
        for p in profs:
            src = sources[p]["img"]
            sb = sbparse.read_primary(src)
            rc, out, err = sh([rz, "-P", src], env=env, timeout=120)
            m = re.search(r"minimum size of the filesystem: (\d+)", (out + err).decode("utf8", "replace"))
            minb = int(m.group(1)) if m else sb["blocks"]
            for kind, val in targets(sb, minb, rng, tier):
                jobs.append((b, p, src, kind, val, work, idx, tier == "thorough", "")); idx += 1
            if tier == "thorough":
                jobs.append((b, p, src, "conv32" if "64bit" in sb.get("features", sb.get("incompat", [])) else "conv64", 0, work, idx, True, "")); idx += 1
        for name in sorted(sources):
            s_ = sources[name]
            if "mark" in s_:
                jobs.append((b, name, s_["img"], s_["req"]["kind"], s_["req"]["val"], work, idx, tier == "thorough", s_["mark"])); idx += 1
        with cf.ThreadPoolExecutor(max_workers=NPROC) as ex:
            results = list(ex.map(one, jobs))
        # crash clause: trace validation
        beh, owners = [], []
        for i, r in enumerate(results):
            if r["events"]:
                beh.append([json.dumps({k: e[k] for k in ("e", "k", "flag", "err0")}) for e in r["events"]]); owners.append(i)
        res = tracecheck.validate(beh, os.path.join(SPEC, "Trace_ResizeCrash.tla"), os.path.join(SPEC, "Trace_ResizeCrash.cfg"), work, chunk_lines=20000)
        if res["broken"]:
            die_broken("TLC failed on a trace chunk: %s\n%s" % (res["broken"][0]["error"], res["broken"][0]["out_tail"][-1500:]))
        ev.cov["states"] += res["distinct"]; ev.cov["transitions"] += res["generated"]
        nbad = 0
        seen = set()
        for f_ in res["failures"]:
            bi = f_["behaviour"]
            if bi in seen: continue
            seen.add(bi)
            rej, m, inv, tail, _ = tracecheck.confirm(beh[bi], os.path.join(SPEC, "Trace_ResizeCrash.tla"), os.path.join(SPEC, "Trace_ResizeCrash.cfg"), work)
            if not rej:
                continue
            nbad += 1
            r = results[owners[bi]]
            vd.violation("crash|%s|%s" % (r["profile"], r["request"]),
                         "resize2fs %s on %s: %s at device event %s (a crash image shows a modification outside the superblock without the error flag, or the stream is not a behaviour of ResizeCrash)" % (r["request"], r["profile"], inv or "trace rejected", m),
                         {"profile": r["profile"], "kind": r["kind"], "request": r["request"], "cat": r.get("cat", ""), "witness": next((c for c in catalogue if c["mark"] == r.get("cat")), None),
                          "build_seed": sources[r["source"]].get("build_seed", 0), "events": r["events"][: (m or 0) + 3], "tlc_tail": tail[-800:]})
        # instrumentation sanity: the shadow image built from the recorded payloads must equal the final image
        for r in results:
            if r["events"] and not r.get("shadow_matches", True):
                die_broken("recorder incomplete: replaying the recorded writes of resize2fs %s on %s does not reproduce the final image" % (r["request"], r["profile"]))
        # thorough: fault enumeration on the real code
        nfault = 0
        if tier == "thorough":
            for r in results:
                if "_writes" in r:
                    bad = crash_images(b, r, work, rng)
                    nfault += 1
                    for x in bad:
                        if x["fsck_p_rc"] == 0:
                            vd.violation("crashimg|%s|%s" % (r["profile"], r["request"]),
                                         "crash image of resize2fs %s on %s (cut %d) is modified, carries no error flag, and e2fsck -p treats it as clean" % (r["request"], r["profile"], x["cut"]), x)
        ev.cov["crash_images_rebuilt_runs"] = nfault
        # ---- main clause: independent reader + TLC on every successful run, then the line oracle
        n_eval = main_clause(sources, results, ev)
        for r in results:
            attach_facts(sources, r)
        ml = [line_of(r) for r in results] + [json.dumps({"e": "end"})]
        mres = run_lines(ml, work, "main.ndjson")
        ev.cov["states"] += mres["distinct"]; ev.cov["transitions"] += mres["generated"]
        for i in mres["bad"]:
            r = results[i]
            why = ("e2fsck -fn exit %d after a successful resize: %s" % (r["fsck"], r["fsck_out"][-120:])) if (r["rc"] == 0 and r["reported"] > 0 and r["fsck"] != 0) else \
                  ("size %d differs from the reported %d" % (r["new_blocks"], r["reported"])) if (r["rc"] == 0 and r["reported"] > 0 and r["new_blocks"] != r["reported"]) else \
                  ("independent reader: %s (Ext4Abs: consistent=%s failed=%s tree_equal=%s)" % ("a file changed" if r["tree_equal"] == 0 else "result inconsistent", r["consistent"], r.get("failed"), r["tree_equal"])) if r["rc"] == 0 and r["reported"] > 0 else \
                  "a refused / no-op request changed the filesystem (rc=%s, error flag %s)" % (r["rc"], r["errflag"])
            vd.violation("main|%s|%s" % (r["profile"], r["request"]), "resize2fs %s on %s: %s" % (r["request"], r["profile"], why),
                         {"profile": r["profile"], "kind": r["kind"], "request": r["request"], "cat": r.get("cat", ""), "witness": next((c for c in catalogue if c["mark"] == r.get("cat")), None), "build_seed": sources[r["source"]].get("build_seed", 0),
                          "facts": {k: r[k] for k in ("rc", "reported", "new_blocks", "fsck", "unchanged", "errflag", "consistent", "tree_equal")}, "failed": r.get("failed"), "msg": r["msg"]})
        if mres["badpred"]:
            r = results[mres["badpred"][0]]
            die_broken("ResizeOps!MustMoveIt predicts inode tables to move that resize2fs %s on %s left in place (moved groups: %s): the layout specification does not describe this image" % (r["request"], r["profile"], r.get("moved")))
        # coverage of the catalogue: decided by TLC (MISSING); a catalogue run that VIOLATES the property is reported above and is not a coverage failure
        violated_cats = {results[i].get("cat") for i in mres["bad"]} | {results[owners[bi]].get("cat") for bi in seen}
        if mres["missing"]:
            miss = set(re.findall(r'"([^"]+)"', mres["missing"][0])) - violated_cats
            if miss:
                why = {r["cat"]: "rc=%s reported=%s consistent=%s tree_equal=%s %s" % (r["rc"], r["reported"], r["consistent"], r["tree_equal"], r["msg"][-160:].replace("\n", " ")) for r in results if r.get("cat") in miss}
                die_broken("boundary catalogue elements not realised by a successful, fully evaluated run: %s" % json.dumps(why)[:1500])
        marks_by_base = sorted({m for i, ms in mres["marks"].items() if not results[i].get("cat") for m in ms})
        ev.cov["boundary_catalogue"] = {"elements": sorted(c["mark"] for c in catalogue), "built_guarded_and_realised": sorted(set(c["mark"] for c in catalogue) - violated_cats),
                                        "also_reached_by_base_profiles": marks_by_base,
                                        "runs_that_relocated_inode_tables": sum(1 for r in results if r.get("moved"))}
        ev.cov["main_clause_lines"] = len(ml) - 1
        ok_runs = [r for r in results if r["rc"] == 0 and r["reported"] > 0]
        ev.cov["evaluations"] = len(results)
        ev.cov["runs_succeeded"] = len(ok_runs)
        ev.cov["runs_refused"] = sum(1 for r in results if r["rc"] != 0)
        ev.cov["traces_validated_against_impl"] = len(beh) - nbad
        for r in results:
            if r["n_out"] > 0:
                ev.nontrivial((r["profile"], r["request"]))
        ev.cov["rule"] = ("base images (14 feature profiles, rich content) x target sizes (group boundaries +-1, +57, 2x, 3.5x, min+1, -M, refused requests) + one image per "
                          "element of the boundary catalogue of Resize.tla (built with mke2fs + debugfs, shape decided by TLC on the independent reader's facts before the run) "
                          "x the request of the witness (shrink / grow / -b / -s); "
                          "non-trivial = run that issued at least one modifying write outside the primary superblock; distinct by (source image, request)")
        ev.cov["main_clause"] = "evaluated with the independent reader on %d of %d successful runs (the rest: unknown, see main_clause_unknown)" % (n_eval, len(ok_runs))
        ev.cov["base_profiles_skipped"] = skipped
        for r in results[:2] + [r for r in results if r.get("cat")][:3]:
            ev.sample({"profile": r["profile"], "request": r["request"], "rc": r["rc"], "reported": r["reported"], "device_events": len(r["events"]), "catalogue_element": r.get("cat", ""),
                       "consistent": r["consistent"], "tree_equal": r["tree_equal"], "inode_tables_moved": r.get("moved", []),
                       "first_events": [{k: e[k] for k in ("e", "k", "flag")} for e in r["events"][:8]]})
        ev.assumptions = ["a write counts as a modification only if it changes bytes outside the primary superblock's 1024 bytes (time stamps inside the superblock are not modifications)",
                          "bytes beyond the end of the filesystem that the on-disk superblock describes are not part of the filesystem: writes there, ftruncate and fallocate of the backing file are not modifications; the end follows the largest size a superblock write of the run has announced so far",
                          "crash model: any subset of the writes issued since the last completed fsync may be lost",
                          "tree = the independent reader's namespace projection (path, type, size, mode, uid, gid, nlink, mtime, xattrs, content digest; inode numbers and ctime are not part of it: resize2fs renumbers inodes of dropped groups and stamps their ctime)",
                          "an image the independent reader cannot judge (fatal / unsupported feature / source image not Consistent in its eyes) is unknown, never a verdict; catalogue images must be judged (CHECK-BROKEN otherwise)"]
        for r in results:
            try: os.unlink(r["img"])
            except OSError: pass
        return vd.finish()
    finally:
        shutil.rmtree(work, ignore_errors=True)


def replay(path):
    d = json.load(open(path))
    rp = d["replay"]
    work = fast_tmp()
    try:
        b = build.build()
        kind = rp.get("kind", "-M" if rp["request"] == "-M" else "size")
        val = 0 if kind in ("-M", "conv64", "conv32") else int(rp["request"].split()[-1])
        if rp.get("cat"):
            src = os.path.join(work, "cat.img")
            req = c08_shapes.build(b, rp["witness"], src, random.Random(rp.get("build_seed", 0.5)))
            kind, val = req["kind"], req["val"]
        else:
            basedir, meta = mkbase.base_images(b)
            src = os.path.join(basedir, rp["profile"] + ".img")
        sources = {rp["profile"]: {"img": src, "P0": ext4read.project(src)}}
        sources[rp["profile"]]["F"] = c08_shapes.Facts(sources[rp["profile"]]["P0"])
        r = one((b, rp["profile"], src, kind, val, work, 0, False, rp.get("cat", "")))
        beh = [json.dumps({k: e[k] for k in ("e", "k", "flag", "err0")}) for e in r["events"]]
        rej, m, inv, tail, _ = tracecheck.confirm(beh, os.path.join(SPEC, "Trace_ResizeCrash.tla"), os.path.join(SPEC, "Trace_ResizeCrash.cfg"), work)
        print("resize2fs %s on %s: rc=%s, %d device events" % (r["request"], rp["profile"], r["rc"], len(beh)))
        ev = Evidence(PID, "replay", "model_checking")
        main_clause(sources, [r], ev)
        attach_facts(sources, r)
        mres = run_lines([line_of(r)], work, "replay.ndjson")
        print({k: r[k] for k in ("rc", "reported", "new_blocks", "fsck", "unchanged", "errflag", "consistent", "tree_equal")}, r.get("failed"), "moved", r.get("moved"))
        if mres["bad"]:
            print("VIOLATION property=%s replay=%s" % (PID, path)); return 1
        if rej:
            print(tail[-800:]); print("VIOLATION property=%s replay=%s" % (PID, path)); return 1
        print("replay accepted"); return 0
    finally:
        shutil.rmtree(work, ignore_errors=True)
