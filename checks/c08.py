"""C08 -- resize2fs preserves every file and leaves a consistent filesystem; error flag on disk during the run.

Crash clause (no projection needed): every resize2fs run is recorded by harness/iotrace.so; the device writes are
classified against a shadow copy of the image ("out": changes bytes outside the primary superblock; "on"/"off": rewrites
s_state with ERROR_FS set/clear) and TLC validates the event stream against spec/ResizeCrash.tla, evaluating
CrashInvariant on every crash image of every prefix (Trace_ResizeCrash).  The thorough tier additionally rebuilds
sampled crash images from the recorded payloads and confirms on the real e2fsck that they are not treated as clean.

Main clause: trace line {st0, request, exit, reported size, st1} validated by Trace_Tools (Consistent(st1),
Tree(st1) = Tree(st0), Blocks(st1) = reported; refused => unchanged or error flag)."""
import os, sys, json, random, shutil, hashlib, re, struct, concurrent.futures as cf
from common import VERIF, fast_tmp, seed, die_broken, NPROC, tool_env
from common import run as sh
import build, tlc as T, tracecheck, sbparse, mkbase
from evidence import Evidence, Verdict

PID = "C08"
SPEC = os.path.join(VERIF, "spec")
IOTRACE = os.path.join(VERIF, "harness", "iotrace.so")
SB_LO, SB_HI = 1024, 2048
STATE_OFF = 1024 + 58          # s_state (u16), ERROR_FS = 0x2


def targets(sb, minblocks, rng, tier):
    n, bpg, first = sb["blocks"], sb["bpg"], sb["first"]
    t = set()
    for k in range(1, 12):
        base = first + k * bpg
        for d in (-1, 0, 1, 57):
            t.add(base + d)
    t |= {n - 1, n + 1, n + bpg, 2 * n, int(3.5 * n), n + 7, max(minblocks, 64), minblocks + 1, minblocks + bpg // 2}
    t = sorted(x for x in t if x >= minblocks and x != n and x * sb["bs"] <= 96 * 1024 * 1024)
    rng.shuffle(t)
    shr = [first + k * bpg for k in range(1, sb["gdc"]) if first + k * bpg >= minblocks]       # drop whole groups
    out = [("size", x) for x in shr[:2]] + [("size", x) for x in t[: (4 if tier == "quick" else 40)]]
    out.append(("-M", 0))
    # requests resize2fs must refuse: below the minimum, with and without the (legal) -S option; and a no-op
    if minblocks > 80:
        out.append(("refuse", max(64, minblocks - 1)))
        out.append(("refuseS", max(64, minblocks // 2)))
    out.append(("same", n))
    return out


def classify(trace_path, blob_path, img0, img_path, old_fs_bytes):
    """Returns the event list for TLC + bookkeeping for crash-image reconstruction."""
    shadow = bytearray(img0)
    orig = bytes(img0)
    ev = []
    writes = []     # (off, payload) in order, with index of the event
    blobs = open(blob_path, "rb").read() if os.path.exists(blob_path) else b""
    last_flag = 1 if (struct.unpack_from("<H", shadow, STATE_OFF)[0] & 2) else 0
    pend_flag = None
    for ln in open(trace_path):
        d = json.loads(ln)
        e = d["e"]
        if e in ("pwrite", "write"):
            off = d["off_hi"] * (1 << 31) + d["off_lo"]
            ln_ = d["len"]
            bo = d["blob_hi"] * (1 << 31) + d["blob_lo"] if d["blob_hi"] >= 0 else -1
            if d.get("fail") or bo < 0:
                continue
            data = blobs[bo:bo + ln_]
            if len(shadow) < off + ln_:
                shadow.extend(b"\0" * (off + ln_ - len(shadow)))
            before = bytes(shadow[off:off + ln_])
            shadow[off:off + ln_] = data
            writes.append((off, data))
            # bytes outside the primary superblock that differ from what was there
            out_changed = False
            a, b = off, off + ln_
            # bytes past the end of the filesystem the on-disk superblock describes are not part of it (main.c extends the
            # backing file by writing one byte at the new end; new groups are initialised there before the size changes)
            b = min(b, old_fs_bytes)
            for (x, y) in ((a, min(b, SB_LO)), (max(a, SB_HI), b)):      # b already clipped to the old filesystem end
                if x < y and before[x - off:y - off] != data[x - off:y - off]:
                    out_changed = True
            if out_changed:
                ev.append({"e": "w", "k": "out", "flag": 0, "err0": 0, "wi": len(writes) - 1})
            if a <= STATE_OFF and b >= STATE_OFF + 2:
                st = struct.unpack_from("<H", data, STATE_OFF - off)[0]
                k = "on" if st & 2 else "off"
                pend_flag = 1 if st & 2 else 0
                ev.append({"e": "w", "k": k, "flag": 0, "err0": 0, "wi": len(writes) - 1})
        elif e in ("ftruncate", "fallocate"):
            continue          # size changes of the backing FILE are not modifications of the filesystem
        elif e == "fsync":
            if pend_flag is not None:
                last_flag = pend_flag
                pend_flag = None
            ev.append({"e": "fsync", "k": "", "flag": last_flag, "err0": 0, "wi": len(writes)})
    return ev, writes, shadow


def one(args):
    b, prof, imgsrc, kind, val, work, idx, want_crash = args
    env = tool_env(b)
    img = os.path.join(work, "r%d.img" % idx)
    shutil.copyfile(imgsrc, img)
    img0 = open(img, "rb").read()
    sb0 = sbparse.parse_sb(img0[1024:2048])
    rz = os.path.join(b, "resize", "resize2fs")
    tr, bl = img + ".nd", img + ".blob"
    e2 = dict(env, LD_PRELOAD=IOTRACE, VERIF_IOTRACE_TARGET=os.path.basename(img), VERIF_IOTRACE_OUT=tr, VERIF_IOTRACE_BLOBS=bl)
    if kind == "-M":
        cmd = [rz, "-M", img]
    elif kind == "refuseS":
        cmd = [rz, "-S", "8", img, str(val)]
    else:
        cmd = [rz, img, str(val)]
    rc, out, err = sh(cmd, env=e2, timeout=300)
    txt = (out + err).decode("utf8", "replace")
    res = {"profile": prof, "kind": kind, "request": "-M" if kind == "-M" else ("-S 8 %d" % val if kind == "refuseS" else str(val)), "rc": rc, "msg": txt[-300:], "img": img, "img0_sha": hashlib.sha256(img0).hexdigest(),
           "old_blocks": sb0["blocks"]}
    m = re.search(r"is now (\d+) \(\d+k\) blocks long", txt)
    res["reported"] = int(m.group(1)) if m else -1
    res["nothing"] = 1 if "Nothing to do" in txt or "already" in txt else 0
    if os.path.exists(tr):
        evs, writes, shadow = classify(tr, bl, img0, img, sb0["blocks"] * sb0["bs"])
        final = open(img, "rb").read()
        res["shadow_matches"] = (bytes(shadow[:len(final)]) == final[:len(shadow)])
        err0 = 1 if sb0["state"] & 2 else 0
        res["events"] = [{"e": "reset", "k": "", "flag": 0, "err0": err0, "wi": 0}] + evs + ([{"e": "done", "k": "", "flag": 0, "err0": 0, "wi": 0}] if rc == 0 else [])
        res["n_out"] = sum(1 for x in evs if x["k"] == "out")
        res["n_fsync"] = sum(1 for x in evs if x["e"] == "fsync")
        if want_crash:
            res["_writes"] = writes
            res["_img0"] = img0
            res["fs_end"] = sb0["blocks"] * sb0["bs"]
    else:
        res["events"] = []
        res["n_out"] = 0; res["n_fsync"] = 0
    for f in (tr, bl):
        if os.path.exists(f):
            os.unlink(f)
    # main clause facts
    img1 = open(img, "rb").read()
    sb1 = sbparse.parse_sb(img1[1024:2048])
    res["new_blocks"] = sb1["blocks"] if sb1 else -1
    res["errflag"] = 1 if (sb1 and sb1["state"] & 2) else 0
    n0 = len(img0)
    same_out = img1[:1024] == img0[:1024] and img1[2048:n0] == img0[2048:n0]
    IGN = ("wtime", "kbytes_written")
    same_sb = sb1 is not None and all(sb0[k] == sb1[k] for k in sb0 if k not in IGN) and \
        img1[1024:1024 + 48] == img0[1024:1024 + 48] and img1[1024 + 52:1024 + 0x178] == img0[1024 + 52:1024 + 0x178] and \
        img1[1024 + 0x180:1024 + 0x3FC] == img0[1024 + 0x180:1024 + 0x3FC]
    res["unchanged"] = 1 if (same_out and same_sb) else 0
    r2, o2, e2_ = sh([os.path.join(b, "e2fsck", "e2fsck"), "-fn", img], env=env, timeout=300)
    res["fsck"] = r2
    res["fsck_out"] = o2.decode("utf8", "replace")[-300:] if r2 else ""
    res["consistent"] = -1
    res["tree_equal"] = -1
    return res


def crash_images(b, r, work, rng, maxn=6):
    """Fault enumeration on the real code: rebuild crash images (prefix of events + subset of pending writes) in which a
    modification outside the superblock is visible, and check that e2fsck -p does not treat the filesystem as clean."""
    env = tool_env(b)
    fsck = os.path.join(b, "e2fsck", "e2fsck")
    writes, img0 = r["_writes"], r["_img0"]
    evs = r["events"]
    # positions of fsyncs in write-index space
    sync_at = [e["wi"] for e in evs if e["e"] == "fsync"]
    nw = len(writes)
    if nw == 0:
        return []
    picks = sorted(set([rng.randrange(1, nw + 1) for _ in range(maxn)]))
    bad = []
    for cut in picks:
        durable_upto = max([s for s in sync_at if s <= cut] + [0])
        pending = list(range(durable_upto, cut))
        variants = [set(pending), set()] + ([set([rng.choice(pending)])] if pending else []) + ([set(pending) - {rng.choice(pending)}] if pending else [])
        for keep in variants:
            img = bytearray(img0)
            for i in range(cut):
                if i < durable_upto or i in keep:
                    off, data = writes[i]
                    if len(img) < off + len(data):
                        img.extend(b"\0" * (off + len(data) - len(img)))
                    img[off:off + len(data)] = data
            # same classification rule as the trace events: bytes beyond the end of the filesystem the on-disk superblock
            # describes are not part of it (resize2fs main.c writes one byte "0" at the new end to extend an image file
            # before anything else; the superblock still says the old size, so that byte is invisible to every reader)
            fs_end = min(len(img0), r.get("fs_end", len(img0)))
            modified = bytes(img[:SB_LO]) != img0[:SB_LO] or bytes(img[SB_HI:fs_end]) != img0[SB_HI:fs_end]
            flag = struct.unpack_from("<H", img, STATE_OFF)[0] & 2
            # the run is complete, as far as anything outside the superblock goes, once every write classified "out" has been
            # applied: what may still be missing then are superblock-internal words (the library writes the superblock word by
            # word), and the flag is legitimately off again
            out_idx = [e["wi"] for e in evs if e["e"] == "w" and e["k"] == "out"]
            complete = (cut == nw) or all(i < durable_upto or i in keep for i in out_idx)
            if modified and not flag and not complete:
                # candidate violation at byte level; confirm that the real e2fsck -p would skip the check
                p = os.path.join(work, "crash_%d.img" % os.getpid())
                open(p, "wb").write(img)
                rc, out, err = sh([fsck, "-p", p], env=env, timeout=120)
                os.unlink(p)
                bad.append({"cut": cut, "kept": sorted(keep), "fsck_p_rc": rc, "fsck_p_out": out.decode("utf8", "replace")[-200:]})
    return bad


def main_clause(b, results, work):
    """Plug for the independent reader: sets per result the fields the Tools contract needs.  Returns True if evaluated."""
    try:
        import ext4read, absstate
    except ImportError:
        return False
    return False        # wired in once the reader is integrated (see checks/c08_main in a later commit)


def run(tier):
    ev = Evidence(PID, tier, "model_checking")
    vd = Verdict(PID, ev)
    work = fast_tmp()
    try:
        try:
            b = build.build()
        except RuntimeError as e:
            die_broken(str(e))
        if not os.path.exists(IOTRACE):
            sh(["make", "-C", os.path.join(VERIF, "harness"), "-s", "all"])
        for cfg, label in (("MC_ResizeCrash.cfg", "ResizeCrash protocol: CrashInvariant"),):
            r = T.tlc(os.path.join(SPEC, "ResizeCrash.tla"), os.path.join(SPEC, cfg), workers=2, timeout=300)
            ev.add_tlc(r, label)
            if r.violated:
                vd.violation("model", "ResizeCrash: %s violated" % r.violated, {"tlc": r.out[-2000:]})
            elif not r.ok:
                die_broken("TLC failed on ResizeCrash: %s" % r.error)
        rb = T.tlc(os.path.join(SPEC, "ResizeCrash.tla"), os.path.join(SPEC, "MC_ResizeCrash_bad.cfg"), workers=2, timeout=300)
        if not rb.violated:
            die_broken("vacuity: the protocol mutant (work before the flag is flushed) does not violate CrashInvariant")
        basedir, meta = mkbase.base_images(b)
        rng = random.Random(seed())
        env = tool_env(b)
        rz = os.path.join(b, "resize", "resize2fs")
        jobs = []
        profs = [p for p, i in sorted(meta.items()) if i["ok"]]
        skipped = [p for p, i in meta.items() if not i["ok"]]
        idx = 0
        for p in profs:
            src = os.path.join(basedir, p + ".img")
            sb = sbparse.read_primary(src)
            rc, out, err = sh([rz, "-P", src], env=env, timeout=120)
            m = re.search(r"minimum size of the filesystem: (\d+)", (out + err).decode("utf8", "replace"))
            minb = int(m.group(1)) if m else sb["blocks"]
            for kind, val in targets(sb, minb, rng, tier):
                jobs.append((b, p, src, kind, val, work, idx, tier == "thorough")); idx += 1
        with cf.ThreadPoolExecutor(max_workers=NPROC) as ex:
            results = list(ex.map(one, jobs))
        # crash clause: trace validation
        beh, owners = [], []
        for i, r in enumerate(results):
            if r["events"]:
                beh.append([json.dumps({k: e[k] for k in ("e", "k", "flag", "err0")}) for e in r["events"]]); owners.append(i)
        res = tracecheck.validate(beh, os.path.join(SPEC, "Trace_ResizeCrash.tla"), os.path.join(SPEC, "Trace_ResizeCrash.cfg"), work, chunk_lines=20000)
        if res["broken"]:
            die_broken("TLC failed on a trace chunk: %s\n%s" % (res["broken"][0]["error"], res["broken"][0]["out_tail"][-1500:]))
        ev.cov["states"] += res["distinct"]; ev.cov["transitions"] += res["generated"]
        nbad = 0
        todo = [f["behaviour"] for f in res["failures"]]
        seen = set()
        while todo:
            bi = todo.pop()
            if bi in seen: continue
            seen.add(bi)
            rej, m, inv, tail, _ = tracecheck.confirm(beh[bi], os.path.join(SPEC, "Trace_ResizeCrash.tla"), os.path.join(SPEC, "Trace_ResizeCrash.cfg"), work)
            if not rej:
                continue
            nbad += 1
            r = results[owners[bi]]
            vd.violation("crash|%s|%s" % (r["profile"], r["request"]),
                         "resize2fs %s on %s: %s at device event %s (a crash image shows a modification outside the superblock without the error flag, or the stream is not a behaviour of ResizeCrash)" % (r["request"], r["profile"], inv or "trace rejected", m),
                         {"profile": r["profile"], "request": r["request"], "events": r["events"][: (m or 0) + 3], "tlc_tail": tail[-800:]})
        # behaviours after a failing one in the same chunk: re-validate (cheap, few chunks)
        if res["failures"]:
            rest = [i for i in range(len(beh)) if i not in seen]
            res2 = tracecheck.validate([beh[i] for i in rest], os.path.join(SPEC, "Trace_ResizeCrash.tla"), os.path.join(SPEC, "Trace_ResizeCrash.cfg"), work, chunk_lines=1)
            for f in res2["failures"]:
                bi = rest[f["behaviour"]]
                r = results[owners[bi]]
                nbad += 1
                vd.violation("crash|%s|%s" % (r["profile"], r["request"]), "resize2fs %s on %s: crash invariant / protocol rejected" % (r["request"], r["profile"]),
                             {"profile": r["profile"], "request": r["request"], "events": r["events"][:40]})
        # instrumentation sanity: the shadow image built from the recorded payloads must equal the final image
        for r in results:
            if r["events"] and not r.get("shadow_matches", True):
                die_broken("recorder incomplete: replaying the recorded writes of resize2fs %s on %s does not reproduce the final image" % (r["request"], r["profile"]))
        # thorough: fault enumeration on the real code
        nfault = 0
        if tier == "thorough":
            for r in results:
                if "_writes" in r:
                    bad = crash_images(b, r, work, rng)
                    nfault += 1
                    for x in bad:
                        if x["fsck_p_rc"] == 0:
                            vd.violation("crashimg|%s|%s" % (r["profile"], r["request"]),
                                         "crash image of resize2fs %s on %s (cut %d) is modified, carries no error flag, and e2fsck -p treats it as clean" % (r["request"], r["profile"], x["cut"]), x)
        ev.cov["crash_images_rebuilt_runs"] = nfault
        main_done = main_clause(b, results, work)
        ml = [json.dumps({"e": "resize", "rc": r["rc"] if r["rc"] in (0, 1) else 2, "reported": r["reported"], "nothing": r["nothing"], "new_blocks": r["new_blocks"],
                          "errflag": r["errflag"], "unchanged": r["unchanged"], "fsck": r["fsck"], "consistent": r["consistent"], "tree_equal": r["tree_equal"]}) for r in results]
        mres = tracecheck.validate_lines(ml, os.path.join(SPEC, "Trace_Resize.tla"), os.path.join(SPEC, "Trace_Resize.cfg"), work, chunk=400)
        if mres["broken"]:
            die_broken("TLC failed on Trace_Resize: %s\n%s" % (mres["broken"][0]["error"], mres["broken"][0]["tail"][-1200:]))
        ev.cov["states"] += mres["distinct"]; ev.cov["transitions"] += mres["generated"]
        for i in mres["bad"]:
            r = results[i]
            why = ("e2fsck -fn exit %d after a successful resize: %s" % (r["fsck"], r["fsck_out"][-120:])) if (r["rc"] == 0 and r["reported"] > 0 and r["fsck"] != 0) else \
                  ("size %d differs from the reported %d" % (r["new_blocks"], r["reported"])) if (r["rc"] == 0 and r["reported"] > 0 and r["new_blocks"] != r["reported"]) else \
                  ("independent oracle: inconsistent or a file changed (consistent=%s tree_equal=%s)" % (r["consistent"], r["tree_equal"])) if r["rc"] == 0 and r["reported"] > 0 else \
                  "a refused / no-op request changed the filesystem (rc=%s, error flag %s)" % (r["rc"], r["errflag"])
            vd.violation("main|%s|%s" % (r["profile"], r["request"]), "resize2fs %s on %s: %s" % (r["request"], r["profile"], why),
                         {"profile": r["profile"], "kind": r["kind"], "request": r["request"], "facts": {k: r[k] for k in ("rc", "reported", "new_blocks", "fsck", "unchanged", "errflag", "consistent", "tree_equal")}, "msg": r["msg"]})
        ev.cov["main_clause_lines"] = len(ml)
        ok_runs = [r for r in results if r["rc"] == 0 and r["reported"] > 0]
        ev.cov["evaluations"] = len(results)
        ev.cov["runs_succeeded"] = len(ok_runs)
        ev.cov["runs_refused"] = sum(1 for r in results if r["rc"] != 0)
        ev.cov["traces_validated_against_impl"] = len(beh) - nbad
        for r in results:
            if r["n_out"] > 0:
                ev.nontrivial((r["profile"], r["request"]))
        ev.cov["rule"] = ("base images (14 feature profiles, rich content) x target sizes (group boundaries +-1, +57, 2x, 3.5x, min+1, -M); "
                          "non-trivial = run that issued at least one modifying write outside the primary superblock; distinct by (profile, request)")
        ev.cov["main_clause"] = "evaluated with the independent reader" if main_done else "not evaluated in this run (crash clause only)"
        ev.cov["base_profiles_skipped"] = skipped
        for r in results[:3]:
            ev.sample({"profile": r["profile"], "request": r["request"], "rc": r["rc"], "reported": r["reported"], "device_events": len(r["events"]),
                       "first_events": [{k: e[k] for k in ("e", "k", "flag")} for e in r["events"][:8]]})
        ev.assumptions = ["a write counts as a modification only if it changes bytes outside the primary superblock's 1024 bytes (time stamps inside the superblock are not modifications)",
                          "bytes beyond the end of the filesystem that the on-disk superblock describes (old size) are not part of the filesystem: writes there, ftruncate and fallocate of the backing file are not modifications",
                          "crash model: any subset of the writes issued since the last completed fsync may be lost"]
        for r in results:
            try: os.unlink(r["img"])
            except OSError: pass
        return vd.finish()
    finally:
        shutil.rmtree(work, ignore_errors=True)


def replay(path):
    d = json.load(open(path))
    rp = d["replay"]
    work = fast_tmp()
    try:
        b = build.build()
        basedir, meta = mkbase.base_images(b)
        src = os.path.join(basedir, rp["profile"] + ".img")
        kind = rp.get("kind", "-M" if rp["request"] == "-M" else "size")
        val = 0 if kind == "-M" else int(rp["request"].split()[-1])
        r = one((b, rp["profile"], src, kind, val, work, 0, False))
        beh = [json.dumps({k: e[k] for k in ("e", "k", "flag", "err0")}) for e in r["events"]]
        rej, m, inv, tail, _ = tracecheck.confirm(beh, os.path.join(SPEC, "Trace_ResizeCrash.tla"), os.path.join(SPEC, "Trace_ResizeCrash.cfg"), work)
        print("resize2fs %s on %s: rc=%s, %d device events" % (rp["request"], rp["profile"], r["rc"], len(beh)))
        ml = [json.dumps({"e": "resize", "rc": r["rc"] if r["rc"] in (0, 1) else 2, "reported": r["reported"], "nothing": r["nothing"], "new_blocks": r["new_blocks"],
                          "errflag": r["errflag"], "unchanged": r["unchanged"], "fsck": r["fsck"], "consistent": r["consistent"], "tree_equal": r["tree_equal"]})]
        mres = tracecheck.validate_lines(ml, os.path.join(SPEC, "Trace_Resize.tla"), os.path.join(SPEC, "Trace_Resize.cfg"), work)
        print(ml[0])
        if mres["bad"] or mres["broken"]:
            print("VIOLATION property=%s replay=%s" % (PID, path)); return 1
        if rej:
            print(tail[-800:]); print("VIOLATION property=%s replay=%s" % (PID, path)); return 1
        print("replay accepted"); return 0
    finally:
        shutil.rmtree(work, ignore_errors=True)
