"""C11 -- tune2fs conversions preserve data and consistency.

(1) Model checking (spec/Tune.tla + MC_Tune): the request/effect relation of misc/tune2fs.c (update_feature_set, main)
    transcribed as `Refused(op, st)` / `Effect(op, st)`; TLC explores every sequence of <= 3 accepted requests from each
    starting profile and checks that no reachable feature set is one libext2fs / e2fsck rejects and that every request that
    changes the checksum key (scheme, seed, UUID, inode size) is followed by a rewrite that covers every checksummed object
    class that exists on that filesystem.
(2) Conformance (spec/Trace_Tune.tla): the universe of requests is ENUMERATED BY THE SPEC (Emit_Tune writes Tune!AllOps as
    JSON); each step of each request sequence runs the scratch-built tune2fs on a copy of a populated base image, runs the
    e2fsck tune2fs asks for, and logs {profile, op, rc, asked, before, after, changed superblock fields, fsck, tree_equal,
    consistent}.  TLC decides per line: rc = 0 => abstract(after) = Effect(op, before), changed fields inside
    AllowedChange(op, before), required fields did change, requested e2fsck succeeded, e2fsck -fn clean, tree equal.
(3) Starting images = copies of the base images enriched by gen/c11_rich.py with the boundary catalogue of Tune.tla
    (owners that fill more than one quota data block, extent trees of depth 2 / directory extent trees of depth 1, a full
    dx root next to the full interior dx node of the base content); TLC decides with Tune!UniverseOK (census by the
    independent reader) that every starting image contains every catalogue element.  Whenever a request changes what
    checksums are computed from, or a quota file exists, the image is observed independently as well: the reader's
    recomputation of every checksum (no object class may be stale) and the quota files parsed by an own parser of the
    quota tree, compared by TLC with Tune!RealUsage of the inode table.
(4) Sequences the specification lists one by one (Emit_Tune): Tune!FieldPairs -- for every multi-valued superblock field
    (the 2-bit journalling mode of the default mount options, the error behaviour, the default hash) every ordered pair of
    the requests that own it, so that every transition between its values is taken (MC_Tune: ASSUME FieldTransitionsTaken);
    Tune!AllocSeqs -- the objects tune2fs puts into ORDINARY inodes (project quota file, orphan file) created and removed
    again, run on the starting-image variant "<profile>+i11" of the catalogue (Tune!CatVariants: s_first_ino is free, so the
    object occupies exactly the first ordinary inode) and on the plain images.  The abstract state carries the quota inode
    numbers (Tune!QuotaIno: 3, 4, the lowest free inode >= s_first_ino) and the journalling mode as one field."""
import os, sys, json, random, shutil, hashlib, struct, re, stat, itertools, time, concurrent.futures as cf
from common import VERIF, fast_tmp, seed, die_broken, NPROC, tool_env
from common import run as sh
import build, tlc as T, tracecheck, mkbase, c11_rich
from evidence import Evidence, Verdict

PID = "C11"
SPEC = os.path.join(VERIF, "spec")
JOBS = max(2, min(6, NPROC // 2))
JOBS_THOROUGH = max(2, min(12, NPROC * 3 // 4))      # the thorough universe is ~20x the quick one; the runs are independent processes
UUID_A = "0a0a0a0a-1b1b-4c2c-8d3d-4e4e4e4e4e4e"
UUID_B = "b0b0b0b0-c1c1-4d2d-9e3e-f4f4f4f4f4f4"
ORIG_UUID = mkbase.UUID

# ------------------------------------------------------------------------------------------------------------------
# independent superblock parser: the COMPLETE field table of struct ext2_super_block (ext4 disk layout documentation)
# ------------------------------------------------------------------------------------------------------------------
SB_FIELDS = [
    ("s_inodes_count", 0x0, 4), ("s_blocks_count", 0x4, 4), ("s_r_blocks_count", 0x8, 4), ("s_free_blocks_count", 0xC, 4),
    ("s_free_inodes_count", 0x10, 4), ("s_first_data_block", 0x14, 4), ("s_log_block_size", 0x18, 4), ("s_log_cluster_size", 0x1C, 4),
    ("s_blocks_per_group", 0x20, 4), ("s_clusters_per_group", 0x24, 4), ("s_inodes_per_group", 0x28, 4), ("s_mtime", 0x2C, 4),
    ("s_wtime", 0x30, 4), ("s_mnt_count", 0x34, 2), ("s_max_mnt_count", 0x36, 2), ("s_magic", 0x38, 2), ("s_state", 0x3A, 2),
    ("s_errors", 0x3C, 2), ("s_minor_rev_level", 0x3E, 2), ("s_lastcheck", 0x40, 4), ("s_checkinterval", 0x44, 4),
    ("s_creator_os", 0x48, 4), ("s_rev_level", 0x4C, 4), ("s_def_resuid", 0x50, 2), ("s_def_resgid", 0x52, 2),
    ("s_first_ino", 0x54, 4), ("s_inode_size", 0x58, 2), ("s_block_group_nr", 0x5A, 2), ("s_feature_compat", 0x5C, 4),
    ("s_feature_incompat", 0x60, 4), ("s_feature_ro_compat", 0x64, 4), ("s_uuid", 0x68, 16), ("s_volume_name", 0x78, 16),
    ("s_last_mounted", 0x88, 64), ("s_algorithm_usage_bitmap", 0xC8, 4), ("s_prealloc_blocks", 0xCC, 1),
    ("s_prealloc_dir_blocks", 0xCD, 1), ("s_reserved_gdt_blocks", 0xCE, 2), ("s_journal_uuid", 0xD0, 16), ("s_journal_inum", 0xE0, 4),
    ("s_journal_dev", 0xE4, 4), ("s_last_orphan", 0xE8, 4), ("s_hash_seed", 0xEC, 16), ("s_def_hash_version", 0xFC, 1),
    ("s_jnl_backup_type", 0xFD, 1), ("s_desc_size", 0xFE, 2), ("s_default_mount_opts", 0x100, 4), ("s_first_meta_bg", 0x104, 4),
    ("s_mkfs_time", 0x108, 4), ("s_jnl_blocks", 0x10C, 68), ("s_blocks_count_hi", 0x150, 4), ("s_r_blocks_count_hi", 0x154, 4),
    ("s_free_blocks_hi", 0x158, 4), ("s_min_extra_isize", 0x15C, 2), ("s_want_extra_isize", 0x15E, 2), ("s_flags", 0x160, 4),
    ("s_raid_stride", 0x164, 2), ("s_mmp_update_interval", 0x166, 2), ("s_mmp_block", 0x168, 8), ("s_raid_stripe_width", 0x170, 4),
    ("s_log_groups_per_flex", 0x174, 1), ("s_checksum_type", 0x175, 1), ("s_encryption_level", 0x176, 1), ("s_reserved_pad", 0x177, 1),
    ("s_kbytes_written", 0x178, 8), ("s_snapshot_inum", 0x180, 4), ("s_snapshot_id", 0x184, 4), ("s_snapshot_r_blocks_count", 0x188, 8),
    ("s_snapshot_list", 0x190, 4), ("s_error_count", 0x194, 4), ("s_first_error_time", 0x198, 4), ("s_first_error_ino", 0x19C, 4),
    ("s_first_error_block", 0x1A0, 8), ("s_first_error_func", 0x1A8, 32), ("s_first_error_line", 0x1C8, 4),
    ("s_last_error_time", 0x1CC, 4), ("s_last_error_ino", 0x1D0, 4), ("s_last_error_line", 0x1D4, 4), ("s_last_error_block", 0x1D8, 8),
    ("s_last_error_func", 0x1E0, 32), ("s_mount_opts", 0x200, 64), ("s_usr_quota_inum", 0x240, 4), ("s_grp_quota_inum", 0x244, 4),
    ("s_overhead_clusters", 0x248, 4), ("s_backup_bgs", 0x24C, 8), ("s_encrypt_algos", 0x254, 4), ("s_encrypt_pw_salt", 0x258, 16),
    ("s_lpf_ino", 0x268, 4), ("s_prj_quota_inum", 0x26C, 4), ("s_checksum_seed", 0x270, 4), ("s_wtime_hi", 0x274, 1),
    ("s_mtime_hi", 0x275, 1), ("s_mkfs_time_hi", 0x276, 1), ("s_lastcheck_hi", 0x277, 1), ("s_first_error_time_hi", 0x278, 1),
    ("s_last_error_time_hi", 0x279, 1), ("s_first_error_errcode", 0x27A, 1), ("s_last_error_errcode", 0x27B, 1),
    ("s_encoding", 0x27C, 2), ("s_encoding_flags", 0x27E, 2), ("s_orphan_file_inum", 0x280, 4), ("s_reserved", 0x284, 376),
    ("s_checksum", 0x3FC, 4),
]
assert sum(f[2] for f in SB_FIELDS) == 1024 and all(SB_FIELDS[i][1] + SB_FIELDS[i][2] == SB_FIELDS[i + 1][1] for i in range(len(SB_FIELDS) - 1))

COMPAT = {0x1: "dir_prealloc", 0x2: "imagic_inodes", 0x4: "has_journal", 0x8: "ext_attr", 0x10: "resize_inode", 0x20: "dir_index",
          0x40: "lazy_bg", 0x80: "exclude_bitmap", 0x200: "sparse_super2", 0x400: "fast_commit", 0x800: "stable_inodes", 0x1000: "orphan_file"}
INCOMPAT = {0x1: "compression", 0x2: "filetype", 0x4: "needs_recovery", 0x8: "journal_dev", 0x10: "meta_bg", 0x40: "extent",
            0x80: "64bit", 0x100: "mmp", 0x200: "flex_bg", 0x400: "ea_inode", 0x1000: "dirdata", 0x2000: "metadata_csum_seed",
            0x4000: "large_dir", 0x8000: "inline_data", 0x10000: "encrypt", 0x20000: "casefold"}
ROCOMPAT = {0x1: "sparse_super", 0x2: "large_file", 0x4: "btree_dir", 0x8: "huge_file", 0x10: "uninit_bg", 0x20: "dir_nlink",
            0x40: "extra_isize", 0x80: "has_snapshot", 0x100: "quota", 0x200: "bigalloc", 0x400: "metadata_csum", 0x800: "replica",
            0x1000: "read-only", 0x2000: "project", 0x4000: "shared_blocks", 0x8000: "verity", 0x10000: "orphan_present"}
MNTOPTS = {0x1: "debug", 0x2: "bsdgroups", 0x4: "user_xattr", 0x8: "acl", 0x10: "uid16", 0x20: "journal_data", 0x40: "journal_data_ordered",
           0x60: "journal_data_writeback", 0x100: "nobarrier", 0x200: "block_validity", 0x400: "discard", 0x800: "nodelalloc"}
HASHALG = {0: "legacy", 1: "half_md4", 2: "tea"}


def _crc32c_table():
    t = []
    for i in range(256):
        c = i
        for _ in range(8):
            c = (c >> 1) ^ 0x82F63B78 if c & 1 else c >> 1
        t.append(c)
    return t


_CRCT = _crc32c_table()


def crc32c_raw(crc, data):
    for b in data:
        crc = (crc >> 8) ^ _CRCT[(crc ^ b) & 0xFF]
    return crc


def bits(v, table, kind):
    out = []
    for i in range(32):
        m = 1 << i
        if v & m:
            out.append(table.get(m, "%s_%x" % (kind, m)))
    return out


def mntopt_names(v):
    out = []
    for m, n in MNTOPTS.items():
        if m in (0x20, 0x40, 0x60):
            continue
        if v & m:
            out.append(n)
    # the journalling mode (0x60) is a two-bit FIELD, not two options: abstract()["jmode"]
    rest = v & ~(0x1 | 0x2 | 0x4 | 0x8 | 0x10 | 0x60 | 0x100 | 0x200 | 0x400 | 0x800)
    if rest:
        out.append("mntopt_%x" % rest)
    return sorted(out)


def uuid_str(b):
    h = b.hex()
    return "%s-%s-%s-%s-%s" % (h[:8], h[8:12], h[12:16], h[16:20], h[20:])


def uuid_class(b):
    s = uuid_str(b)
    if s == ORIG_UUID: return "orig"
    if s == UUID_A: return "A"
    if s == UUID_B: return "B"
    if b == b"\0" * 16: return "null"
    v = b[6] >> 4
    if (b[8] & 0xC0) == 0x80 and v == 4: return "random"
    if (b[8] & 0xC0) == 0x80 and v == 1: return "time"
    return "other"


def read_sb(path):
    with open(path, "rb") as f:
        f.seek(1024)
        b = f.read(1024)
    if len(b) != 1024 or struct.unpack_from("<H", b, 0x38)[0] != 0xEF53:
        return None
    return b


def raw_fields(b):
    return {n: b[o:o + l] for n, o, l in SB_FIELDS}


def changed_fields(b0, b1):
    return sorted(n for n, o, l in SB_FIELDS if b0[o:o + l] != b1[o:o + l])


def cstr(b):
    return b.split(b"\0")[0].decode("latin1")


def abstract(b):
    """Superblock bytes -> the abstract state of spec/Tune.tla (every value a string, a small integer or a sequence of strings)."""
    u32 = lambda o: struct.unpack_from("<I", b, o)[0]
    u16 = lambda o: struct.unpack_from("<H", b, o)[0]
    s16 = lambda o: struct.unpack_from("<h", b, o)[0]
    feats = sorted(bits(u32(0x5C), COMPAT, "compat") + bits(u32(0x60), INCOMPAT, "incompat") + bits(u32(0x64), ROCOMPAT, "rocompat"))
    is64 = bool(u32(0x60) & 0x80)
    blocks = u32(4) + ((u32(0x150) << 32) if is64 else 0)
    rblocks = u32(8) + ((u32(0x154) << 32) if is64 else 0)
    uuid = b[0x68:0x78]
    seed = u32(0x270)
    quota = [n for n, o in (("usr", 0x240), ("grp", 0x244), ("prj", 0x26C)) if u32(o)]
    st = u16(0x3A)
    ci = u32(0x44)
    return {
        "feats": feats, "label": cstr(b[0x78:0x88]), "uuid": uuid_class(uuid), "blocks": min(blocks, 2 ** 31 - 1), "rblocks": min(rblocks, 2 ** 31 - 1),
        "errors": u16(0x3C), "maxmnt": s16(0x36), "mntcount": u16(0x34), "interval": ci if ci < 2 ** 31 else -1, "isz": u16(0x58) if u32(0x4C) >= 1 else 128,
        "bs": 1024 << u32(0x18), "mntopts": mntopt_names(u32(0x100)), "extopts": cstr(b[0x200:0x240]), "journal": 1 if u32(0xE0) else 0,
        "quota": quota, "seed": "zero" if seed == 0 else ("uuid" if seed == crc32c_raw(0xFFFFFFFF, uuid) else "other"),
        "resuid": u16(0x50), "resgid": u16(0x52), "stride": u16(0x164), "stripe": min(u32(0x170), 2 ** 31 - 1), "hashalg": b[0xFC],
        "testfs": 1 if u32(0x160) & 0x4 else 0, "valid": 1 if st & 1 else 0, "errfs": 1 if st & 2 else 0, "lastmnt": cstr(b[0x88:0xC8]),
        "mmp": 1 if struct.unpack_from("<Q", b, 0x168)[0] else 0, "mmpint": u16(0x166), "orphino": 1 if u32(0x280) else 0,
        "csumtype": b[0x175], "rev": min(u32(0x4C), 9), "lastorphan": 1 if u32(0xE8) else 0,
        "lastcheck": u32(0x40) % (2 ** 31), "mtime": u32(0x2C) % (2 ** 31), "jdev": 1 if (u32(0xE4) or b[0xD0:0xE0] != b"\0" * 16) else 0,
        "metagroups": 1 if (u32(0x60) & 0x10) else 0,
        "jmode": (u32(0x100) & 0x60) >> 5,
        "qinum": {"usr": min(u32(0x240), 2 ** 31 - 1), "grp": min(u32(0x244), 2 ** 31 - 1), "prj": min(u32(0x26C), 2 ** 31 - 1)},
        "firstino": min(u32(0x54), 2 ** 31 - 1) if u32(0x4C) >= 1 else 11,
    }


def _test_root(a, b):
    while a > b and a % b == 0:
        a //= b
    return a == b


def _has_super(g, feats, backup_bgs):
    if g == 0:
        return True
    if "sparse_super2" in feats:
        return g in backup_bgs
    if "sparse_super" not in feats or g <= 1:
        return True
    if g % 2 == 0:
        return False
    return _test_root(g, 3) or _test_root(g, 5) or _test_root(g, 7) or g in (3, 5, 7)


def group_descs(path, b):
    """Own parser of the group descriptor table: yields (group, block bitmap, inode bitmap, inode table, bg_flags, first block of
    the group, last block of the group, inode table blocks); stops at a short read."""
    u32 = lambda o: struct.unpack_from("<I", b, o)[0]
    u16 = lambda o: struct.unpack_from("<H", b, o)[0]
    feats = set(bits(u32(0x5C), COMPAT, "c") + bits(u32(0x60), INCOMPAT, "i") + bits(u32(0x64), ROCOMPAT, "r"))
    bs = 1024 << u32(0x18)
    is64 = "64bit" in feats
    blocks = u32(4) + ((u32(0x150) << 32) if is64 else 0)
    first, bpg, ipg = u32(0x14), u32(0x20), u32(0x28)
    isz = u16(0x58) if u32(0x4C) >= 1 else 128
    dsz = u16(0xFE) if is64 and u16(0xFE) >= 64 else 32
    if not bpg:
        return
    gdc = (blocks - first + bpg - 1) // bpg
    dpb = bs // dsz
    itb = (ipg * isz + bs - 1) // bs
    bbgs = [u32(0x24C), u32(0x250)]
    fmb = u32(0x104) if "meta_bg" in feats else None
    with open(path, "rb") as f:
        for g in range(gdc):
            blk_idx = g // dpb
            if fmb is not None and blk_idx >= fmb:
                g0 = blk_idx * dpb
                loc = first + g0 * bpg + (1 if _has_super(g0, feats, bbgs) else 0)
            else:
                loc = first + 1 + blk_idx
            if bs == 1024 and first == 0 and loc <= 1 + blk_idx:
                loc += 1          # 1 KiB blocks with first_data_block 0 (bigalloc): the superblock occupies block 1
            f.seek(loc * bs + (g % dpb) * dsz)
            d = f.read(dsz)
            if len(d) < dsz:
                return
            bb, ib, it = struct.unpack_from("<III", d, 0)
            flags = struct.unpack_from("<H", d, 0x12)[0]
            if dsz >= 64:
                hb, hi, ht = struct.unpack_from("<III", d, 0x20)
                bb |= hb << 32; ib |= hi << 32; it |= ht << 32
            lo = first + g * bpg
            yield g, bb, ib, it, flags, lo, min(lo + bpg, blocks) - 1, itb


def packed_of(path, b):
    """1 iff some group's block bitmap / inode bitmap / inode table lies outside the group's own block range (what
    ext2fs_check_desc() rejects once flex_bg is cleared)."""
    for g, bb, ib, it, flags, lo, hi_, itb in group_descs(path, b):
        if not (lo <= bb <= hi_ and lo <= ib <= hi_ and lo <= it and it + itb - 1 <= hi_):
            return 1
    return 0


def ino_is_free(path, b, ino):
    """1 iff inode `ino` is free according to the inode bitmap (own parser), 0 if in use, -1 if it does not exist"""
    u32 = lambda o: struct.unpack_from("<I", b, o)[0]
    bs = 1024 << u32(0x18)
    ipg = u32(0x28)
    gdcsum = bool(u32(0x64) & (0x10 | 0x400))
    if ino < 1 or not ipg:
        return -1
    for g, bb, ib, it, flags, lo, hi_, itb in group_descs(path, b):
        if g == (ino - 1) // ipg:
            if gdcsum and (flags & 0x1):
                return 1
            k = (ino - 1) % ipg
            with open(path, "rb") as f:
                f.seek(ib * bs + k // 8)
                c = f.read(1)
            return 0 if c and (c[0] >> (k % 8)) & 1 else 1
    return -1


def lowest_free_ino(path, b):
    """The lowest inode number >= s_first_ino whose bit in the inode bitmap is clear (0 = none): the inode ext2fs_new_inode()
    hands out next.  Own parser: group descriptors, INODE_UNINIT (the whole group is free), the inode bitmap blocks."""
    u32 = lambda o: struct.unpack_from("<I", b, o)[0]
    bs = 1024 << u32(0x18)
    ipg = u32(0x28)
    first_ino = u32(0x54) if u32(0x4C) >= 1 else 11
    gdcsum = bool(u32(0x64) & (0x10 | 0x400))
    with open(path, "rb") as f:
        for g, bb, ib, it, flags, lo, hi_, itb in group_descs(path, b):
            if (g + 1) * ipg < first_ino:
                continue
            if gdcsum and (flags & 0x1):
                return max(g * ipg + 1, first_ino)
            f.seek(ib * bs)
            bm = f.read((ipg + 7) // 8)
            for k in range(max(0, first_ino - 1 - g * ipg), ipg):
                if k // 8 >= len(bm) or not (bm[k // 8] >> (k % 8)) & 1:
                    return min(g * ipg + k + 1, 2 ** 31 - 1)
    return 0


def abstract_img(path):
    b = read_sb(path)
    if b is None:
        return None, None
    a = abstract(b)
    a["packed"] = packed_of(path, b)
    a["lowfree"] = lowest_free_ino(path, b)
    return b, a


# ------------------------------------------------------------------------------------------------------------------
# requests
# ------------------------------------------------------------------------------------------------------------------
def op_key(op):
    k = op["k"]
    if k in ("O", "o", "Q"):
        return "-%s %s" % (k, ",".join(list(op["on"]) + ["^" + f for f in op["off"]]))
    if k in ("L", "U", "e", "M", "i", "T"):
        return "-%s %s" % (k, op["a"] if op["a"] != "" else "''")
    if k in ("m", "r", "c", "C", "I", "g", "u"):
        return "-%s %d" % (k, op["n"])
    if k == "J":
        return "-J size=%d" % op["n"]
    if k == "j":
        return "-j"
    if k == "E":
        return "-E %s" % (op["a"] if op["a"].startswith(("test_fs", "^test_fs", "force_fsck", "clear_mmp")) or "=" in op["a"] else "%s=%d" % (op["a"], op["n"]))
    raise ValueError(op)


def op_argv(op):
    k = op["k"]
    if k in ("O", "o", "Q"):
        return ["-" + k, ",".join(list(op["on"]) + ["^" + f for f in op["off"]])]
    if k in ("L", "U", "e", "M", "i", "T"):
        return ["-" + k, op["a"]]
    if k in ("m", "r", "c", "C", "I", "g", "u"):
        return ["-" + k, str(op["n"])]
    if k == "J":
        return ["-J", "size=%d" % op["n"]]
    if k == "j":
        return ["-j"]
    if k == "E":
        return (["-f"] if op["a"] == "clear_mmp" else []) + ["-E", op_key(op)[3:]]      # tune2fs accepts clear_mmp only with -f
    raise ValueError(op)


# ------------------------------------------------------------------------------------------------------------------
# the two swappable observers
# ------------------------------------------------------------------------------------------------------------------
def _q(p):
    return '"' + p.replace('"', '\\"') + '"'


def tree_digest(b, image, work, tag="t"):
    """Digest of the user-visible tree of `image`: names, types, sizes (not of directories), content sha256, symlink targets, modes, uid/gid, mtime
    (regular files, directories), inode numbers, link structure, device numbers, extended attributes.
    Observer: the scratch-built debugfs (`rdump /` + a host-side walk, then `ls -p`, `stat` of special files and `ea_list`).
    Known debugfs defect: inline-data files are extracted padded to the inline area size -- identical before and after, so
    equality is unaffected.  To be swapped for the independent reader's `tree` projection (reader/ext4read.py).
    Returns (digest hex, number of entries, error string or '')."""
    if os.environ.get("VERIF_C11_TREE", "debugfs") == "reader":
        return tree_digest_reader(image)
    env = tool_env(b)
    dbg = os.path.join(b, "debugfs", "debugfs")
    dest = os.path.join(work, "rd_" + tag)
    shutil.rmtree(dest, ignore_errors=True)
    os.makedirs(dest)
    rc, out, err = sh([dbg, "-R", "rdump / %s" % dest, image], env=env, timeout=300)
    if rc != 0:
        return "", 0, "debugfs rdump exit %d: %s" % (rc, err.decode("utf8", "replace")[-300:])
    rderr = b"\n".join(l for l in err.splitlines() if l and not l.startswith(b"debugfs "))
    ents = []
    dirs = []
    for d, ds, fs in os.walk(dest):
        ds.sort()
        rel = "/" + os.path.relpath(d, dest).replace(os.sep, "/") if d != dest else "/"
        if rel == "/.":
            rel = "/"
        dirs.append(rel)
        st = os.lstat(d)
        if d != dest:
            ents.append(("D", rel, st.st_mode & 0o7777, st.st_uid, st.st_gid, int(st.st_mtime)))
        for f in sorted(fs) + [x for x in ds if os.path.islink(os.path.join(d, x))]:
            p = os.path.join(d, f)
            st = os.lstat(p)
            r = (rel.rstrip("/") + "/" + f)
            if stat.S_ISLNK(st.st_mode):
                ents.append(("L", r, os.readlink(p), st.st_uid, st.st_gid))
            elif stat.S_ISREG(st.st_mode):
                with open(p, "rb") as fh:
                    h = hashlib.sha256(fh.read()).hexdigest()
                ents.append(("F", r, st.st_size, h, st.st_mode & 0o7777, st.st_uid, st.st_gid, int(st.st_mtime)))
            else:
                ents.append(("?", r, st.st_mode))
    shutil.rmtree(dest, ignore_errors=True)
    # second pass inside the image: every directory listed with ino/mode/uid/gid/size (covers special files and link structure)
    cmds = os.path.join(work, "cmd_" + tag)
    with open(cmds, "w") as f:
        for d in dirs:
            f.write("ls -p %s\n" % _q(d))
    rc, out, err = sh([dbg, "-f", cmds, image], env=env, timeout=300)
    if rc != 0:
        return "", 0, "debugfs ls exit %d" % rc
    cur = None
    special, inos = [], []
    for ln in out.decode("latin1").splitlines():
        if ln.startswith("debugfs: ls -p "):
            cur = ln[len("debugfs: ls -p "):].strip().strip('"')
            continue
        if ln.startswith("/") and cur is not None:
            parts = ln.split("/")
            # /ino/mode/uid/gid/name/size/
            if len(parts) >= 7:
                ino, mode, uid, gid, name, size = parts[1], parts[2], parts[3], parts[4], parts[5], parts[6]
                if ino == "0":
                    continue                  # an unused directory entry (empty leaf block left by a re-index) names no file
                if name in (".", ".."):
                    if name == "." or cur == "/":
                        ents.append(("d.", cur, name, ino, mode, uid, gid))
                        if cur == "/" and name == ".":
                            inos.append(ino)
                    continue
                path = cur.rstrip("/") + "/" + name
                try:
                    m = int(mode, 8)
                except ValueError:
                    m = 0
                # the size of a DIRECTORY is representation, not content: an index that has to grow by a level (a full dx
                # root loses one slot to the checksum tail) legitimately adds a block
                ents.append(("E", path, ino, mode, uid, gid, "" if stat.S_ISDIR(m) else size))
                inos.append(ino)
                if stat.S_IFMT(m) in (stat.S_IFCHR, stat.S_IFBLK):
                    special.append(ino)
    # per INODE (the E entries bind every path to its inode number; hard links share one inode): device numbers, xattrs
    uniq = sorted(set(inos), key=int)
    with open(cmds, "w") as f:
        for i in sorted(set(special), key=int):
            f.write("stat <%s>\n" % i)
        for i in uniq:
            f.write("ea_list <%s>\n" % i)
    rc, out, err = sh([dbg, "-f", cmds, image], env=env, timeout=300)
    if rc != 0:
        return "", 0, "debugfs stat/ea_list exit %d" % rc
    cur = None
    for ln in out.decode("latin1").splitlines():
        if ln.startswith("debugfs: "):
            cur = ln[len("debugfs: "):]
            continue
        if cur is None:
            continue
        if cur.startswith("stat "):
            if ln.startswith("Device major/minor"):
                ents.append(("dev", cur[5:], ln.strip()))
        elif cur.startswith("ea_list ") and ln.strip():
            if ln.startswith("Extended attributes:"):
                continue
            ents.append(("xa", cur[8:], ln.strip()))
    if rderr:
        ents.append(("rdump-stderr", rderr.decode("latin1")[:2000]))
    if os.environ.get("VERIF_C11_DUMPTREE"):
        with open(os.path.join(os.environ["VERIF_C11_DUMPTREE"], "tree_%s_%d.json" % (tag, time.time_ns())), "w") as f:
            f.write("\n".join(json.dumps(e) for e in sorted(ents, key=lambda e: json.dumps(e))))
    h = hashlib.sha256(json.dumps(sorted(ents, key=lambda e: json.dumps(e))).encode()).hexdigest()
    return h, len(ents), ""


def tree_digest_reader(image):
    import ext4read
    p = ext4read.project(image)
    if "fatal" in p:
        return "", 0, "reader: %s" % p["fatal"]
    t = p.get("tree", [])
    return hashlib.sha256(json.dumps(t, sort_keys=True, default=str).encode()).hexdigest(), len(t), ""


def consistent(b, image):
    """1 iff the filesystem is consistent.  Observer for now: `e2fsck -fn` of the scratch build exits 0 (to be swapped for the
    independent reader + Ext4Abs!Consistent).  Returns (rc, last output lines)."""
    rc, out, err = sh([os.path.join(b, "e2fsck", "e2fsck"), "-fn", image], env=tool_env(b), timeout=300)
    return rc, (out + err).decode("utf8", "replace")[-700:]


# ------------------------------------------------------------------------------------------------------------------
# one request on one image
# ------------------------------------------------------------------------------------------------------------------
CHUNK = 1 << 20


def same_bytes(p0, p1):
    """byte equality of two files, chunk by chunk (no image-sized python objects)"""
    if os.path.getsize(p0) != os.path.getsize(p1):
        return False
    with open(p0, "rb") as f0, open(p1, "rb") as f1:
        while True:
            a = f0.read(CHUNK)
            if a != f1.read(CHUNK):
                return False
            if not a:
                return True


def meta_changed(img0, img1, sb):
    """True iff the request rewrote at least one metadata object other than the superblock: bytes differ outside the primary
    superblock and outside the first block of every group (the backup superblock copies)."""
    u32 = lambda o: struct.unpack_from("<I", sb, o)[0]
    bs = 1024 << u32(0x18)
    first, bpg = u32(0x14), u32(0x20)
    if os.path.getsize(img0) != os.path.getsize(img1):
        return True
    per = max(1, CHUNK // bs)
    with open(img0, "rb") as f0, open(img1, "rb") as f1:
        base = 0
        while True:
            d0 = f0.read(per * bs)
            d1 = f1.read(per * bs)
            if not d0 and not d1:
                return False
            if d0 != d1:
                for k in range((max(len(d0), len(d1)) + bs - 1) // bs):
                    a = d0[k * bs:(k + 1) * bs]
                    c = d1[k * bs:(k + 1) * bs]
                    if a == c:
                        continue
                    blk = base + k
                    if blk == (1 if bs == 1024 else 0):
                        if bs == 1024 or (a[:1024] == c[:1024] and a[2048:] == c[2048:]):
                            continue
                        return True
                    if bpg and blk >= first and (blk - first) % bpg == 0:
                        continue
                    return True
            base += per


CSUM_KEY_FIELDS = {"s_uuid", "s_checksum_seed", "s_inode_size", "s_checksum_type"}
CSUM_KEY_FEATS = {"metadata_csum", "uninit_bg", "metadata_csum_seed", "dir_index"}
QUOTA_FIELDS = {"s_usr_quota_inum", "s_grp_quota_inum", "s_prj_quota_inum", "s_free_blocks_count", "s_free_blocks_hi", "s_free_inodes_count", "s_inode_size"}


def obs_wanted(line):
    """(observe checksums, observe quota): when the image is observed independently as well (a superset of Trace_Tune!CsumDue /
    QuotaDue, which TLC enforces).  Checksums: the request touched a superblock field or feature that checksums are computed
    from.  Quota: quota files exist, metadata was rewritten and the request is a quota request or changed the free block /
    inode counts, the quota inode numbers or the inode size (the files or the usage may have changed)."""
    csum = bool(CSUM_KEY_FIELDS & set(line["changed"])) or bool((set(line["before"]["feats"]) ^ set(line["after"]["feats"])) & CSUM_KEY_FEATS)
    op = line["op"]
    quota = (bool(line["after"]["quota"]) and line["nontrivial"] == 1 and
             (bool(QUOTA_FIELDS & set(line["changed"])) or op["k"] == "Q" or
              (op["k"] == "O" and bool({"quota", "project"} & (set(op["on"]) | set(op["off"]))))))
    return csum or quota, quota


class Observers:
    """gen/c11_rich.py observe() in processes of their own (the reader is pure python: threads would serialise on the GIL),
    kept alive and reused: one request line in, one JSON line out."""
    def __init__(self):
        import queue
        self.idle = queue.SimpleQueue()
        self.all = []
        self.lock = __import__("threading").Lock()

    def _spawn(self):
        import subprocess
        env = dict(os.environ, PYTHONPATH=os.pathsep.join([os.path.join(VERIF, d) for d in ("lib", "reader", "gen")]))
        p = subprocess.Popen([sys.executable, os.path.join(VERIF, "gen", "c11_rich.py"), "--serve"], stdin=subprocess.PIPE,
                             stdout=subprocess.PIPE, stderr=subprocess.DEVNULL, env=env)
        with self.lock:
            self.all.append(p)
        return p

    def observe(self, img, want_quota, timeout=300):
        import select
        try:
            p = self.idle.get_nowait()
        except Exception:
            p = self._spawn()
        try:
            p.stdin.write(("%d\t%s\n" % (1 if want_quota else 0, img)).encode())
            p.stdin.flush()
            buf = b""
            end = time.time() + timeout
            while not buf.endswith(b"\n"):
                r, _, _ = select.select([p.stdout], [], [], max(0.0, end - time.time()))
                if not r:
                    p.kill()
                    return {"fatal": "observer timed out"}
                chunk = os.read(p.stdout.fileno(), 1 << 16)
                if not chunk:
                    p.kill()
                    return {"fatal": "observer died"}
                buf += chunk
            o = json.loads(buf.decode())
        except (OSError, ValueError) as e:
            p.kill()
            return {"fatal": "observer: %s" % e}
        self.idle.put(p)
        return o

    def close(self):
        with self.lock:
            ps, self.all = self.all, []
        for p in ps:
            try:
                p.stdin.close()
            except OSError:
                pass
            try:
                p.wait(timeout=10)
            except Exception:
                p.kill()


OBSERVERS = Observers()


def observe_image(img, want_quota):
    return OBSERVERS.observe(img, want_quota)


def run_step(b, profile, op, img, work, prev_digest, tag, pristine=None):
    """Runs `op` on image `img` (modified in place when accepted; restored when refused).  Returns (line, new digest).
    `pristine`: a read-only file known to be byte-identical to `img` (the starting image at the first step of a sequence);
    it then serves as the copy of the state before the request and no second copy is made."""
    env = tool_env(b, {"E2FSPROGS_UNDO_DIR": "none"})
    tune = os.path.join(b, "misc", "tune2fs")
    fsck = os.path.join(b, "e2fsck", "e2fsck")
    keep = pristine or (img + ".pre")
    if not pristine:
        shutil.copyfile(img, keep)

    def restore():
        if pristine:
            shutil.copyfile(keep, img)
        else:
            os.replace(keep, img)

    def drop():
        if not pristine:
            os.unlink(keep)
    sb0, a0 = abstract_img(img)
    line = {"e": "tune", "profile": profile, "op": op, "cmd": op_key(op), "rc": -1, "asked_f": 0, "asked_d": 0, "before": a0, "after": a0,
            "mid": a0, "changed": [], "fsck_req_rc": -1, "fsck_after_rc": -1, "tree_equal": -1, "consistent": -1, "nontrivial": 0, "sig": 0,
            "noop": 0, "prjino_was_free": -1, "obs": 0, "qobs": 0, "stale": [], "qfile": [], "inodes": [], "out": "", "fsck_out": ""}
    rc, out, err = sh([tune] + op_argv(op) + [img], env=env, timeout=300, input=b"")
    txt = (out + err).decode("utf8", "replace")
    line["sig"] = 1 if rc < 0 or rc > 120 else 0
    line["rc"] = 0 if rc == 0 else (1 if 0 < rc <= 120 else 2)
    line["out"] = txt[-500:]
    if rc != 0:
        line["restored"] = 0 if same_bytes(img, keep) else 1
        if line["restored"] or not pristine:
            restore()
        return line, prev_digest
    line["asked_d"] = 1 if "Please run e2fsck -fD on the filesystem" in txt else 0
    line["asked_f"] = 1 if "Please run e2fsck -f on the filesystem" in txt else 0
    if not (line["asked_d"] or line["asked_f"]) and same_bytes(img, keep):
        # the request changed no byte of the image: same state as before, whose verdicts are already established
        line.update(fsck_after_rc=0, consistent=1, tree_equal=1, noop=1)
        drop()
        return line, prev_digest
    sbm, am = abstract_img(img)
    if sbm is None:
        line["consistent"] = 0; line["tree_equal"] = 0; line["fsck_out"] = "superblock magic lost"
        restore()
        return line, prev_digest
    line["mid"] = am
    if am["qinum"]["prj"] and am["qinum"]["prj"] != a0["qinum"]["prj"]:
        line["prjino_was_free"] = ino_is_free(keep, sb0, am["qinum"]["prj"])     # in the image BEFORE the request
    if line["asked_d"] or line["asked_f"]:
        r2, o2, e2 = sh([fsck, "-fyD" if line["asked_d"] else "-fy", img], env=env, timeout=300)
        line["fsck_req_rc"] = r2
        if r2 not in (0, 1):
            line["fsck_out"] = (o2 + e2).decode("utf8", "replace")[-500:]
    sb1, a1 = abstract_img(img)
    if sb1 is None:
        line["consistent"] = 0; line["tree_equal"] = 0; line["fsck_out"] = "superblock magic lost"
        restore()
        return line, prev_digest
    line["after"] = a1
    line["changed"] = changed_fields(sb0, sb1)
    line["changed_mid"] = changed_fields(sb0, sbm)
    line["nontrivial"] = 1 if meta_changed(keep, img, sb0) else 0
    r3, o3 = consistent(b, img)
    line["fsck_after_rc"] = r3
    line["consistent"] = 1 if r3 == 0 else 0
    if r3 != 0:
        line["fsck_out"] = (line["fsck_out"] + " | -fn: " + o3)[-900:]
    dg, n, derr = tree_digest(b, img, work, tag)
    if derr:
        line["tree_equal"] = 0
        line["tree_err"] = derr
    else:
        line["tree_equal"] = 1 if dg == prev_digest else 0
    want, want_quota = obs_wanted(line)
    if want:
        o = observe_image(img, want_quota)
        if "fatal" in o:
            line["obs"] = -1                     # the reader cannot read the image: unknown, never a verdict (listed in evidence)
            line["obs_err"] = o["fatal"]
        else:
            line.update(obs=1, qobs=1 if want_quota else 0, stale=o["stale"], qfile=o["qfile"], inodes=o["inodes"])
    drop()
    return line, (dg if not derr else prev_digest)


def run_sequence(args):
    """One behaviour: a starting profile and a list of requests applied one after another (a refused request leaves the image
    as it was and the sequence goes on with the next one)."""
    b, basedir, profile, ops, work, idx, base_digest = args[:7]
    tail_listed = len(args) > 7 and args[7]        # the sequence without its first request is in the universe on this image
    img = os.path.join(work, "s%d.img" % idx)
    shutil.copyfile(os.path.join(basedir, profile + ".img"), img)
    dg = base_digest
    lines = []
    try:
        for k, op in enumerate(ops):
            line, dg = run_step(b, profile, op, img, work, dg, "s%d" % idx, pristine=os.path.join(basedir, profile + ".img") if k == 0 else None)
            line["seq"] = idx; line["step"] = k
            lines.append(line)
            if line["rc"] == 0 and (line["consistent"] != 1 or line["tree_equal"] != 1):
                break                      # nothing can be concluded about later steps from a broken image
            if (len(ops) == 2 or tail_listed) and k == 0 and (line["rc"] != 0 or line.get("noop")):
                line["pruned"] = 1
                break                      # (refused or byte-identical no-op ; rest) is the sequence `rest`, which is in the universe
    finally:
        for p in (img, img + ".pre"):
            if os.path.exists(p):
                os.unlink(p)
    return lines


# ------------------------------------------------------------------------------------------------------------------
# universe (enumerated by the specification) and the check
# ------------------------------------------------------------------------------------------------------------------
FIXED = dict(DevRewriteSkipsOrphanFile="FALSE", DevJournalOffKeepsOrphanFile="FALSE", DevDirIndexOffNoFsck="FALSE")
QUOTA_ENABLING = lambda op: ((op["k"] == "O" and ({"quota", "project"} & set(op["on"]))) or
                             (op["k"] == "Q" and op["on"]))
# e2fsck (the interim consistency oracle) does not count inline-data symlinks in its quota usage (e2fsck/pass1.c skips
# check_blocks() for them), so it reports every correctly written quota file on such a filesystem as inconsistent.
ORACLE_BLIND = {"inline": QUOTA_ENABLING}


EXPLICIT = {"fieldpairs": [], "allocseqs": [], "extrapairs": []}      # sequences the specification lists one by one


def load_universe(work):
    out = os.path.join(work, "universe.json")
    r = T.tlc(os.path.join(SPEC, "Emit_Tune.tla"), os.path.join(SPEC, "Emit_Tune.cfg"), workers=1, timeout=300, env={"OUT": out}, xmx="1g")
    if not r.ok or not os.path.exists(out):
        die_broken("TLC could not enumerate the request universe (Emit_Tune): %s\n%s" % (r.error, r.out[-1500:]))
    u = json.load(open(out))
    norm = lambda o: {"k": o["k"], "on": list(o["on"]), "off": list(o["off"]), "a": o["a"], "n": o["n"]}
    allops = sorted((norm(o) for o in u["all"]), key=op_key)
    structural = sorted((norm(o) for o in u["structural"]), key=op_key)
    pair = sorted((norm(o) for o in u["pair"]), key=op_key)
    triples = sorted(([norm(o) for o in t] for t in u["triples"]), key=lambda t: [op_key(o) for o in t])
    keys = [op_key(o) for o in allops]
    if len(set(keys)) != len(keys):
        die_broken("request catalogue has duplicate command lines")
    global EXPLICIT
    EXPLICIT = {k: sorted(([norm(o) for o in t] for t in u[k]), key=lambda t: [op_key(o) for o in t]) for k in ("fieldpairs", "allocseqs", "extrapairs")}
    known = set(keys)
    for k, sq in EXPLICIT.items():
        for t in sq:
            if any(op_key(o) not in known for o in t):
                die_broken("Tune!%s names a request that is not in Tune!AllOps: %s" % (k, [op_key(o) for o in t]))
    return allops, structural, pair, triples, u["catalogue"]


def image_params(path):
    """what the catalogue builder needs to know about a starting image (own superblock parser)"""
    sb, a = abstract_img(path)
    u32 = lambda o: struct.unpack_from("<I", sb, o)[0]
    feats = set(a["feats"])
    return {"bs": a["bs"], "csum": 1 if "metadata_csum" in feats else 0, "extent": 1 if "extent" in feats else 0,
            "dir_index": 1 if "dir_index" in feats else 0, "isz": a["isz"], "prj": 1 if a["qinum"]["prj"] else 0,
            "cluster": (1024 << u32(0x1C)) if "bigalloc" in feats else a["bs"]}


def roomy(profiles, params):
    """profiles on which Tune!AllocSeqs can act from the first request on: inodes larger than 128 bytes (a project quota file
    needs them), no project quota yet, quota-enabling requests not excluded (ORACLE_BLIND)"""
    return [p for p in sorted(profiles) if params[p]["isz"] > 128 and not params[p]["prj"]
            and any(not excluded(p, t) for t in EXPLICIT["allocseqs"] if any(QUOTA_ENABLING(o) for o in t))]


def rich_universe(b, basedir, profiles, cat, tier="thorough"):
    """The enriched starting images (directory, census per image, parameters per profile); an image that cannot be built
    breaks the check.  Variants of the catalogue (Tune!CatVariants): thorough = every profile in every variant; quick = one
    seeded profile (of those on which Tune!AllocSeqs can act) in every variant."""
    params = {p: image_params(os.path.join(basedir, p + ".img")) for p in profiles}
    richdir, info = c11_rich.rich_images(b, basedir, profiles, params, cat)
    badp = {p: i.get("why", "?") for p, i in info.items() if not i.get("ok")}
    if badp:
        die_broken("the catalogue content could not be added to the starting image(s): %s" % json.dumps(badp)[:1500])
    vs = [v for v in cat.get("variants", []) if v]
    if tier == "quick":
        cand = roomy(profiles, params)
        chosen = random.Random(seed() * 7919 + 11).sample(cand, 1) if cand else []
    else:
        chosen = list(profiles)
    vinfo = c11_rich.variant_images(b, richdir, ["%s+%s" % (p, v) for p in chosen for v in vs])
    badv = {p: i.get("why", "?") for p, i in vinfo.items() if not i.get("ok")}
    if badv:
        die_broken("a catalogue variant of a starting image could not be built: %s" % json.dumps(badv)[:1500])
    content = {p: info[p]["content"] for p in profiles}
    content.update({p: i["content"] for p, i in vinfo.items()})
    return richdir, content, params


def excluded(profile, ops):
    f = ORACLE_BLIND.get(profile.split("+")[0])
    return bool(f and any(f(o) for o in ops))


def sequences(tier, profiles, allops, structural_ops, pair, triples, rng, variants=(), params=None):
    """List of (profile, [ops]).  thorough = the whole universe; quick = every single request on every profile, every
    ordering of the seeded triples on a seeded third of the profiles, a seeded sample of ordered pairs, and the sequences the
    specification lists one by one: Tune!FieldPairs (every transition of every multi-valued field) on one seeded profile,
    a seeded third of Tune!AllocSeqs (objects created in / removed from ordinary inodes) on one seeded starting image of the
    variant in which s_first_ino is free (thorough: all of them on every image of both variants), Tune!ExtraPairs on one seeded profile."""
    seqs = []
    structural = {op_key(o) for o in structural_ops}
    tun_profiles = set(rng.sample(sorted(profiles), 3)) if tier == "quick" else set(profiles)
    for p in profiles:
        for o in allops:
            if op_key(o) in structural or p in tun_profiles:
                seqs.append((p, [o]))
    tri = []
    for p in profiles:
        for t in triples:
            for perm in itertools.permutations(t):
                tri.append((p, list(perm)))
    prs = []
    for p in profiles:
        for a in pair:
            for c in pair:
                prs.append((p, [a, c]))
    if tier == "quick":
        rng.shuffle(tri); rng.shuffle(prs)
        # always keep the order-sensitive seed of the property text on the default ext4 profile
        must = [x for x in tri if x[0] == "ext4_1k" and {op_key(o) for o in x[1]} == {"-O ^metadata_csum", "-U random", "-O metadata_csum"}]
        tri = must + [x for x in tri if x not in must][:60]
        prs = prs[:120]
    seqs += tri + prs
    # ---- the sequences listed by the specification
    rng2 = random.Random(rng.random())          # own stream: the samples above stay what they were
    if tier == "quick":
        fp_profiles = rng2.sample(sorted(tun_profiles), 1)
        ap_profiles = sorted(variants)                    # quick: the one variant image rich_universe() built (seeded)
        xp_profiles = rng2.sample(sorted(profiles), 1)
    else:
        fp_profiles, ap_profiles, xp_profiles = sorted(profiles), sorted(variants) + sorted(profiles), sorted(profiles)
    for plist, key in ((fp_profiles, "fieldpairs"), (ap_profiles, "allocseqs"), (xp_profiles, "extrapairs")):
        for p in plist:
            lst = [t for t in EXPLICIT[key] if not excluded(p, t)]
            if tier == "quick" and key == "allocseqs":
                # every one of them creates an object in the first ordinary inode and removes it again: a seeded third
                two, three = [t for t in lst if len(t) == 2], [t for t in lst if len(t) != 2]
                lst = rng2.sample(two, min(8, len(two))) + rng2.sample(three, min(4, len(three)))
            for t in lst:
                seqs.append((p, list(t)))
    return [s for s in seqs if not excluded(s[0], s[1])]


def _run_lines(args):
    module, cfg, path, n, timeout = args
    r = T.tlc(module, cfg, workers=1, timeout=timeout, env={"TRACE": path}, xmx="3g")
    bad = [int(x) for x in re.findall(r'<<"BADLINE", (\d+)>>', r.out)]
    div = [int(x) for x in re.findall(r'<<"DIVERGE", (\d+)>>', r.out)]
    unobs = [int(x) for x in re.findall(r'<<"UNOBSERVED", (\d+)>>', r.out)]
    complete = (r.rc == 0 and r.violated is None and r.error is None)
    return dict(bad=bad, div=div, unobs=unobs, complete=complete, error=r.error or r.violated, tail=r.out[-2500:], distinct=r.distinct, generated=r.generated)


def validate_lines(lines, cfg, work, chunk=150, timeout=900, tag="l"):
    """tracecheck.validate_lines + the DIVERGE channel (stateless per-line oracle, BADLINE keeps scanning)."""
    module = os.path.join(SPEC, "Trace_Tune.tla")
    tasks, spans = [], []
    for ci, i in enumerate(range(0, len(lines), chunk)):
        p = os.path.join(work, "%s%05d.ndjson" % (tag, ci))
        part = lines[i:i + chunk]
        with open(p, "w") as f:
            for ln in part:
                f.write(ln + "\n")
        tasks.append((module, cfg, p, len(part), timeout)); spans.append(i)
    with cf.ThreadPoolExecutor(max_workers=4) as ex:
        res = list(ex.map(_run_lines, tasks))
    bad, div, unobs, broken, d, g = [], [], [], [], 0, 0
    for base, r in zip(spans, res):
        d += r["distinct"]; g += r["generated"]
        if not r["complete"]:
            broken.append(r); continue
        bad += [base + k - 1 for k in r["bad"]]
        div += [base + k - 1 for k in r["div"]]
        unobs += [base + k - 1 for k in r["unobs"]]
    return dict(bad=sorted(set(bad)), div=sorted(set(div)), unobs=sorted(set(unobs)), broken=broken, distinct=d, generated=g)


TRACE_KEYS = ("e", "profile", "op", "cmd", "rc", "asked_f", "asked_d", "before", "mid", "after", "changed", "fsck_req_rc", "fsck_after_rc",
              "tree_equal", "consistent", "nontrivial", "seq", "step", "noop", "prjino_was_free", "obs", "qobs", "stale", "qfile", "inodes")


def why_bad(l):
    w = []
    if l["fsck_after_rc"] != 0: w.append("e2fsck -fn exit %d" % l["fsck_after_rc"])
    if l["tree_equal"] != 1: w.append("tree changed" + (" (%s)" % l["tree_err"] if l.get("tree_err") else ""))
    if (l["asked_f"] or l["asked_d"]) and l["fsck_req_rc"] not in (0, 1): w.append("requested e2fsck exit %d" % l["fsck_req_rc"])
    if l.get("obs") == 1:
        if l["stale"]: w.append("stale checksums (independent reader) in object classes %s" % l["stale"])
        for q in l["qfile"]:
            if q["err"]: w.append("%s quota file damaged: %s" % (q["t"], q["err"][:4]))
        qt = {q["t"] for q in l["qfile"]}
        if l["qobs"] and qt != set(l["after"]["quota"]): w.append("quota files parsed %s, superblock names %s" % (sorted(qt), l["after"]["quota"]))
        if l["qfile"] and not w: w.append("quota usage recorded in a quota file may differ from the usage of the inode table (Tune!RealUsage)")
    if not w:
        d = {k: [l["before"][k], l["mid"][k], l["after"][k]] for k in l["before"] if not (l["before"][k] == l["mid"][k] == l["after"][k])}
        w.append("superblock delta differs from Expected(op): changed fields %s, abstract delta %s" % (l["changed"], json.dumps(d, sort_keys=True)[:400]))
    return "; ".join(w)


def model_check(tier, ev, vd, basedir, profiles, work, content):
    pf = os.path.join(work, "profiles.ndjson")
    with open(pf, "w") as f:
        for p in sorted(content):
            sb, a = abstract_img(os.path.join(basedir, p + ".img"))
            f.write(json.dumps({"profile": p, "state": a, "content": content[p]}, sort_keys=True) + "\n")
    mod = os.path.join(SPEC, "MC_Tune.tla")
    cfg = os.path.join(SPEC, "MC_Tune.cfg" if tier == "thorough" else "MC_Tune_quick.cfg")
    r = T.tlc(mod, cfg, workers=4, timeout=2400, env={"PROFILES": pf}, xmx="4g")
    ev.add_tlc(r, "MC_Tune (%s): every sequence of accepted requests from every starting profile; InvFeatureSet, InvRewriteAll" % os.path.basename(cfg))
    if r.violated:
        vd.violation("model:" + r.violated, "Tune model: %s violated with the repaired behaviour" % r.violated, {"tlc": r.out[-4000:]})
    elif not r.ok:
        if "UniverseOK" in r.out or "Assumption" in r.out:
            die_broken("a starting image lacks an element of the boundary catalogue (Tune!UniverseOK): %s\n%s" % (json.dumps(content)[:1500], r.out[-1200:]))
        die_broken("TLC failed on MC_Tune: %s\n%s" % (r.error, r.out[-1500:]))
    # negative control: the literal (unrepaired) behaviour must violate the invariants -- the invariants are not vacuous
    ces = []
    for c, inv in (("MC_Tune_literal.cfg", "InvRewriteAll"), ("MC_Tune_literal_fs.cfg", "InvFeatureSet")):
        r2 = T.tlc(mod, os.path.join(SPEC, c), workers=2, timeout=1200, env={"PROFILES": pf}, xmx="2g")
        if r2.violated != inv:
            die_broken("%s (Dev* = TRUE) did not produce the %s counterexample: the invariant does not bind (%s %s)" % (c, inv, r2.violated, r2.error))
        ces.append(inv)
    ev.cov["literal_model_counterexamples"] = ces


def _t(what, t0):
    if os.environ.get("VERIF_C11_DEBUG"):
        sys.stderr.write("c11: %-12s %.1fs\n" % (what, time.time() - t0))


def run(tier):
    ev = Evidence(PID, tier, "model_checking")
    vd = Verdict(PID, ev)
    kf = os.path.join(VERIF, "fixes", "C11_known_findings.txt")
    if os.path.exists(kf):
        for ln in open(kf):
            ln = ln.strip()
            if ln.startswith("{"):
                d = json.loads(ln)
                if d.get("property") == PID:
                    vd.known[d["key"]] = d
    work = fast_tmp()
    try:
        try:
            b = build.build()
        except RuntimeError as e:
            die_broken(str(e))
        basedir, meta = mkbase.base_images(b)
        profiles = sorted(p for p, i in meta.items() if i.get("ok"))
        if len(profiles) < 10:
            die_broken("only %d usable base images: %s" % (len(profiles), {p: i.get("fsck_out", i.get("mke2fs_err", ""))[-200:] for p, i in meta.items() if not i.get("ok")}))
        allops, structural, pair, triples, cat = load_universe(work)
        basedir, content, params = rich_universe(b, basedir, profiles, cat, tier)       # from here on: the enriched copies
        with cf.ThreadPoolExecutor(max_workers=2) as bg:
            mc = bg.submit(model_check, tier, ev, vd, basedir, profiles, work, content)
            rng = random.Random(seed())
            variants = sorted(set(content) - set(profiles))
            seqs = sequences(tier, profiles, allops, structural, pair, triples, rng, variants, params)
            digs = {}
            for p in sorted({q for q, _ in seqs}):
                dg, n, err = tree_digest(b, os.path.join(basedir, p + ".img"), work, "base_" + p)
                if err:
                    die_broken("tree digest of base image %s failed: %s" % (p, err))
                digs[p] = dg
            t_run = time.time()
            listed = {(p, tuple(op_key(o) for o in ops)) for p, ops in seqs}
            with cf.ThreadPoolExecutor(max_workers=(JOBS if tier == 'quick' else JOBS_THOROUGH)) as ex:
                res = list(ex.map(run_sequence, [(b, basedir, p, ops, work, i, digs[p], (p, tuple(op_key(o) for o in ops[1:])) in listed)
                                                 for i, (p, ops) in enumerate(seqs)]))
            _t("tool runs", t_run)
            mc.result()
            _t("+ model", t_run)
        lines = [l for r in res for l in r]
        sig = [l for l in lines if l["sig"]]
        jl = [json.dumps({k: l[k] for k in TRACE_KEYS}, sort_keys=True) for l in lines]
        t_val = time.time()
        out = validate_lines(jl, os.path.join(SPEC, "Trace_Tune.cfg"), work)
        _t("trace TLC", t_val)
        if out["broken"]:
            die_broken("TLC failed on a trace chunk: %s\n%s" % (out["broken"][0]["error"], out["broken"][0]["tail"][-1500:]))
        if out["unobs"]:
            u = lines[out["unobs"][0]]
            die_broken("%d line(s) lack the independent observation Trace_Tune!ObsDue requires, first: %s / %s (%s)"
                       % (len(out["unobs"]), u["profile"], u["cmd"], u.get("obs_err", "observation rule of checks/c11.py too narrow")))
        ev.cov["states"] += out["distinct"]; ev.cov["transitions"] += out["generated"]
        bad = set(out["bad"])
        # confirmation: re-run every behaviour that contains a rejected line and validate the re-runs again (one TLC batch)
        confirmed = []
        if bad:
            t_conf = time.time()
            order = sorted(bad)
            with cf.ThreadPoolExecutor(max_workers=(JOBS if tier == 'quick' else JOBS_THOROUGH)) as ex:
                agains = list(ex.map(run_sequence, [(b, basedir, seqs[lines[bi]["seq"]][0], seqs[lines[bi]["seq"]][1], work, 900000 + bi,
                                                      digs[seqs[lines[bi]["seq"]][0]]) for bi in order]))
            flat, pos = [], {}
            for bi, again in zip(order, agains):
                a2 = [x for x in again if x["step"] == lines[bi]["step"]]
                if not a2:
                    die_broken("rejected line %s / %s did not reproduce (sequence ended earlier on the re-run)" % (lines[bi]["profile"], lines[bi]["cmd"]))
                pos[bi] = len(flat) + again.index(a2[0])
                flat += again
            o2 = validate_lines([json.dumps({k: x[k] for k in TRACE_KEYS}, sort_keys=True) for x in flat], os.path.join(SPEC, "Trace_Tune.cfg"), work, tag="conf")
            if o2["broken"]:
                die_broken("TLC failed while confirming: %s" % o2["broken"][0]["error"])
            for bi in order:
                if pos[bi] not in o2["bad"]:
                    die_broken("rejected line %s / %s was accepted on the re-run (non-deterministic observation)" % (lines[bi]["profile"], lines[bi]["cmd"]))
                confirmed.append((bi, flat[pos[bi]]))
            _t("confirm", t_conf)
        for bi, l in confirmed:
            p, ops = seqs[lines[bi]["seq"]]
            hist = [op_key(o) for o in ops[:l["step"] + 1]]
            key = "%s|%s" % (p, " ; ".join(hist))
            vd.violation(key, "tune2fs on profile %s: %s -> %s" % (p, " ; ".join(hist), why_bad(l)),
                         {"profile": p, "ops": ops[:l["step"] + 1], "line": {k: l[k] for k in TRACE_KEYS}, "out": l["out"], "fsck_out": l["fsck_out"]})
        for l in sig:
            vd.violation("%s|signal|%s" % (l["profile"], l["cmd"]), "tune2fs died on a signal: %s %s" % (l["profile"], l["cmd"]), {"line": {k: l[k] for k in TRACE_KEYS}})
        acc = [l for l in lines if l["rc"] == 0]
        ev.cov["evaluations"] = len(lines)
        ev.cov["sequences"] = len(seqs)
        ev.cov["accepted_requests"] = len(acc)
        ev.cov["refused_requests"] = len(lines) - len(acc)
        ev.cov["refused_but_image_modified"] = sum(1 for l in lines if l["rc"] != 0 and l.get("restored"))
        ev.cov["asked_for_e2fsck"] = sum(1 for l in acc if l["asked_f"] or l["asked_d"])
        ev.cov["model_divergences_on_acceptance"] = [lines[i]["profile"] + "|" + lines[i]["cmd"] for i in out["div"]][:40]
        ev.cov["traces_validated_against_impl"] = len(seqs) - len({lines[i]["seq"] for i in bad})
        for l in acc:
            if l["nontrivial"]:
                ev.nontrivial((l["profile"], l["cmd"], tuple(l["before"]["feats"]), l["before"]["uuid"], l["before"]["isz"]))
        ev.cov["pairs_reduced_to_singles"] = sum(1 for l in lines if l.get("pruned"))
        ev.cov["independent_observations"] = sum(1 for l in lines if l["obs"] == 1)
        ev.cov["quota_files_compared_with_inode_table"] = sum(len(l["qfile"]) for l in lines if l["obs"] == 1 and l["qobs"] == 1)
        ev.cov["observations_unreadable"] = sorted({l["profile"] + "|" + l["cmd"] + ": " + l["obs_err"] for l in lines if l.get("obs_err")})[:20]
        ev.cov["starting_image_census"] = content
        ev.cov["spec_listed_sequences"] = {k: len(v) for k, v in EXPLICIT.items()}
        ev.cov["starting_image_variants"] = variants
        ev.cov["rule"] = ("universe = Tune!AllOps (%d requests) x %d populated base images enriched with Tune's boundary catalogue (UniverseOK decided by TLC), every ordering of Tune!TripleSeeds (%d sets), ordered pairs over "
                          "Tune!PairOps (%d requests), Tune!FieldPairs (every transition of the journalling-mode / errors / hash fields), Tune!AllocSeqs on the starting images with s_first_ino free and in use, "
                          "Tune!ExtraPairs (quick: structural requests on every profile, tunables on 3 seeded profiles, seeded sample of pairs and "
                          "triples, FieldPairs on 1, a seeded third of AllocSeqs on 1 image with s_first_ino free, ExtraPairs on 1 seeded image); a pair whose first request is refused or changes no byte of the image is the single second request; non-trivial"
                          % (len(allops), len(profiles), len(triples), len(pair)) + " = accepted request that rewrote at least one "
                          "metadata object other than the superblock copies (image bytes differ outside them); distinct by (profile, request, "
                          "feature set before, uuid class, inode size)")
        for l in [x for x in acc if x["nontrivial"]][:4]:
            ev.sample({"profile": l["profile"], "cmd": l["cmd"], "asked": [l["asked_f"], l["asked_d"]], "changed": l["changed"],
                       "features_before": l["before"]["feats"], "features_after": l["after"]["feats"], "fsck_after_rc": l["fsck_after_rc"], "tree_equal": l["tree_equal"]})
        ev.assumptions = [
            "every request runs on an unmounted image that was checked at the fixed fake time (check_fsck_needed preconditions hold unless a previous request of the sequence broke them: -E force_fsck)",
            "starting images = copies of gen/mkbase.py's base images + the catalogue content of Tune.tla (gen/c11_rich.py: owners beyond one quota data block incl. project ids, "
            "extent tree depth 2, directory extent tree depth 1, full dx root; a full dx node is required only where it needs <= Tune!MaxDirEntries names, i.e. 1 KiB blocks)",
            "independent observation (reader checksum recomputation = Ext4Abs!Csums per object class; own quota-tree parser vs Tune!RealUsage) on every accepted request that changes "
            "what checksums are computed from or rewrites metadata while quota files exist (Trace_Tune!ObsDue, enforced by TLC); an image the reader cannot read is unknown, not a violation",
            "directory sizes and unused directory entries (inode 0) are representation, not tree content (a re-index may add an index level / leave an empty leaf)",
            "tree equality observer = scratch-built debugfs (rdump + ls -p + stat + ea_list digest); consistency observer = e2fsck -fn exit 0 (both isolated in one function each, to be swapped for reader/ext4read.py)",
            "requests that enable quota accounting on profile `inline` are not run: e2fsck does not count inline-data symlinks in quota usage (pass1.c), so the interim oracle rejects correct quota files there",
            "a refused request carries no obligation (DESIGN 8 rule 1); the image is restored and the sequence continues; refusals that the model does not predict are listed in coverage.model_divergences_on_acceptance",
            "external journals (-J device=), mounted filesystems, -z undo files, -f (except with -E clear_mmp, which needs it), -E encoding/mmp_update_interval, multiple options in one invocation are outside the universe",
            "the project quota file is created in the lowest free inode >= s_first_ino (ext2fs_new_inode from the root directory's group); `lowfree` of the abstract state is observed by an own inode-bitmap parser and not predicted after a request",
            "the e2fsck run tune2fs asks for may put large_file back (data dependent) and assigns a UUID to a filesystem that has none and no metadata_csum (e2fsck/super.c PR_0_ADD_UUID; reached by `-U clear` followed by a request that asks for e2fsck); otherwise it may touch only state/lastcheck/mount count/free counts/journal backup fields",
        ]
        return vd.finish()
    finally:
        OBSERVERS.close()
        shutil.rmtree(work, ignore_errors=True)


def replay(path):
    d = json.load(open(path))
    rp = d.get("replay", d)
    work = fast_tmp()
    try:
        b = build.build()
        basedir, meta = mkbase.base_images(b)
        cat = load_universe(work)[4]
        p, ops = rp["profile"], rp["ops"]
        names = sorted(q for q, i in meta.items() if i.get("ok"))
        basedir, content, params = rich_universe(b, basedir, names, cat, "quick")
        if p not in content:                               # a catalogue variant that this seed's quick universe did not build
            vi = c11_rich.variant_images(b, basedir, [p])
            if not vi[p].get("ok"):
                die_broken("starting image %s could not be built: %s" % (p, vi[p].get("why")))
        dg, n, err = tree_digest(b, os.path.join(basedir, p + ".img"), work, "base")
        lines = run_sequence((b, basedir, p, ops, work, 0, dg))
        jl = [json.dumps({k: l[k] for k in TRACE_KEYS}, sort_keys=True) for l in lines]
        out = validate_lines(jl, os.path.join(SPEC, "Trace_Tune.cfg"), work)
        for l in lines:
            print("%s  %s: rc=%d asked=%d%d requested-fsck=%d e2fsck-fn=%d tree_equal=%d changed=%s" % (p, l["cmd"], l["rc"], l["asked_f"], l["asked_d"],
                  l["fsck_req_rc"], l["fsck_after_rc"], l["tree_equal"], l["changed"]))
            if l["fsck_out"]:
                print("    " + l["fsck_out"].replace("\n", "\n    ")[-600:])
        if out["broken"]:
            die_broken("TLC failed: %s" % out["broken"][0]["error"])
        print("by hand: cp %s/%s.img x.img; " % (basedir, p) + "; ".join("tune2fs %s x.img" % op_key(o) for o in ops) + "; e2fsck -fn x.img")
        if out["bad"]:
            print("VIOLATION property=%s replay=%s  (%s)" % (PID, path, why_bad(lines[out["bad"][0]])))
            return 1
        print("replay accepted by Trace_Tune")
        return 0
    finally:
        OBSERVERS.close()
        shutil.rmtree(work, ignore_errors=True)
