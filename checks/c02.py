"""C02 -- a clean `e2fsck -fn` verdict implies a consistent filesystem (level: model_checking).

Specification   spec/Ext4Abs.tla  (Consistent = the independent statement of the ext4 invariants),
                spec/Tools.tla    (C02_Holds(exit, consistent) == exit = 0 => consistent),
                spec/Fsck.tla     (tiny design model of passes 1-5; TLC checks FsckN clean <=> Consistent for every state
                                   reachable by <= 2 catalogue corruptions, and that the seeded design mutants break it),
                spec/Corrupt.tla  (the closed universe: corruption catalogue enumerated by TLC).
Conformance     for every universe element (base image of gen/mkbase.py x corruption recipe, concretised by gen/corrupt.py
                through the reader's location map): run the real `e2fsck -fn` on the corrupted copy, project the same bytes
                with the independent reader, and let TLC (spec/Trace_Tools.tla, action TFsckN) evaluate
                FailedConjuncts(st0) and C02_Holds on the logged line.  No verdict is computed in python.
Universe        base images x catalogue (singles, pairs, closed triples) + Corrupt.tla!C02Closed (relocated bitmap pointers, resize-inode
                map, boundary triples) + Corrupt.tla!C02Bounds (the high halves that exist only with 64bit descriptors / in the inode body, and the exact
                boundary values of every block-number, inode-number and per-group-count range test) + the tool-built images of
                gen/c02_extras.py, as built AND under the superblock recipes of Corrupt.tla!ExtraHashRecipes / ExtraSbRecipes (every bit of
                s_flags, every s_def_hash_version, the Superblock table; checksum recomputed; the reader judges the htree with the hash the
                corrupted superblock prescribes).  thorough runs ALL of it; quick = a seeded subset of the singles and pairs + every closed
                triple / C02Closed / C02Bounds element / extra image / hash selector on an extra image (so no seed can select an element
                thorough has not run).
Reader limits   a state the reader cannot produce (exception, timeout, integer beyond TLC's range, certificate rejected by
                CertOK) is `unknown`: counted in the evidence, never a violation.
"""
import os, sys, json, random, shutil, time, re, multiprocessing as mp, concurrent.futures as cf
from common import VERIF, fast_tmp, seed, die_broken, NPROC, tool_env
from common import run as sh
import build, tlc as T, absstate
from evidence import Evidence, Verdict
import mkbase, corrupt, c02_extras

PID = "C02"
SPEC = os.path.join(VERIF, "spec")
JOBS = max(2, min(10, NPROC - 4))
TLC_JOBS = 4
STATE_CHUNK = 40            # FsckN lines with a state per TLC process

QUICK_N = int(os.environ.get("C02_QUICK_N", "240"))
QUICK_PAIRS = int(os.environ.get("C02_QUICK_PAIRS", "24"))
# thorough: every bindable element of the universe is run (singles with recomputed and with stale checksum, pairs, triples);
# the state of FLAGGED stale-checksum singles is projected (evidence only) inside a 1-in-STALE_EVERY subsample
STALE_EVERY = 6
OWNER_EVERY = 8             # quick: uid_hi / gid_hi recipes of C02Bounds outside the quota profile and recipes on a free inode, one in OWNER_EVERY
QUICK_XSB = int(os.environ.get("C02_QUICK_XSB", "36"))     # quick: sampled (extra image, Superblock recipe) elements besides the mandatory hash selectors
# thorough: recipes that e2fsck flags hold trivially; their state is projected (for the evidence: how many of the
# inconsistent states e2fsck flags, reader/e2fsck agreement) for one in FLAGGED_EVERY
FLAGGED_EVERY = 8


# binding demonstration, recorded when the check was built (bin/selftest --patch <fixes + mutant> C02; not re-measured by a normal run)
SELFTEST = {"recorded": "2026-09-28", "tree": "/repo a9b77b7d + fixes/C02_pass0_declined_exit.patch + fixes/C02_extent_node_depth.patch",
            "mutants/C02_extent_dup_unrecorded.patch": "CAUGHT (closed triple file_small.ee_start.alias_other + bitmap + group count: exit 0 with SingleOwner false)",
            "mutants/C02_filetype_ge.patch": "CAUGHT (dirblk_root.dlast_file_type.wrong: exit 0 with Links false)",
            "mutants/C02_free_inodes_hi_ignored.patch": "CAUGHT 2026-09-29 on /repo e1f5d8e7 (C02Bounds gd_mid.bg_free_inodes_hi.max on holes: exit 0 with GroupCounts false)",
            "mutants/C02_process_block_gt.patch": "CAUGHT 2026-09-29 on /repo e1f5d8e7 (C02Closed!BoundTriples file_small.ib0.first_invalid + bitmap + group count on the block-mapped profiles: exit 0 with InRange false; the single-field recipe alone is flagged by pass 5)",
            "seeded C02_1..C02_6": "bin/seedcheck 2026-09-29: all six exit 1 (C02_4: extra:tea_signed + sb.s_flags.tog_unsigned_hash / tog_both_hash, Shapes; "
                                   "C02_5: gd_*.bg_used_dirs_hi.* on the 64bit profiles, GroupCounts; C02_6: <named inode>.file_acl.first_invalid, InRange)",
            "design mutants of Fsck.tla": "MutNoDupCheck violates InvC02, MutPass5NotWritten violates InvC01 (checked by every run)"}


def load_own_findings(vd, pid=PID):
    p = os.path.join(VERIF, "fixes", "%s_known_findings.txt" % pid)
    if os.path.exists(p):
        for l in open(p):
            l = l.strip()
            if l.startswith("{"):
                d = json.loads(l)
                if d.get("property") == pid:
                    for k in [d["key"]] + list(d.get("keys", [])):
                        vd.known.setdefault(k, d)


# ------------------------------------------------------------------------------------------------------------------
# worker side
# ------------------------------------------------------------------------------------------------------------------
_G = {}


def _init(bdir, basedir, work, xpaths=None):
    _G.update(b=bdir, basedir=basedir, work=work, bases={}, env=tool_env(bdir), fsck=os.path.join(bdir, "e2fsck", "e2fsck"),
              xpaths=xpaths or {})


def _base(profile):
    """a base image of gen/mkbase.py, or ("extra:<name>") one of C02's own tool-built images: recipes bind on both"""
    B = _G["bases"].get(profile)
    if B is None:
        B = corrupt.Base(_G["xpaths"][profile] if profile in _G["xpaths"] else os.path.join(_G["basedir"], profile + ".img"))
        _G["bases"][profile] = B
    return B


def _bindable(args):
    profile, recs = args
    B = _base(profile)
    out = []
    for k, r in recs:
        buf = B.raw
        ok = True
        if len(r) == 1:
            ok = B.bind(r[0]) is not None
        else:
            # a pair binds when both halves bind in order on a scratch copy
            tmp = bytearray(B.raw)
            for x in r:
                pt = B.bind(x, tmp)
                if pt is None: ok = False; break
                for o, b in pt: tmp[o:o + len(b)] = b
            ok = ok and tmp != B.raw
        if ok: out.append(k)
    return out


def _case(args):
    """one universe element -> dict(line=<ndjson text>, meta=...)"""
    k, profile, recs, want_state = args
    B = _base(profile)
    img = os.path.join(_G["work"], "c%d_%d.img" % (os.getpid(), k))
    log = img + ".log"
    meta = {"id": k, "profile": profile, "recipe": corrupt.rname(recs)}
    try:
        pt = B.apply(recs, img)
        if pt is None:
            return {"skip": "does not bind", "meta": meta}
        meta["patches"] = [[o, b.hex()] for o, b in pt]
        rc, probs, out = corrupt.run_fsck(_G["fsck"], "-fn", img, _G["env"], log)
        meta["exit"] = rc
        meta["problems"] = [corrupt.sig_of(p) for p in (probs or [])][:12]
        meta["out"] = out[-600:] if rc == 0 else ""
        # superblock-stage problem codes of this run's problem log (the named deviation of Tools.tla is stated over them)
        p0 = [p.get("code", "?") for p in (probs or []) if p.get("kind") == "problem" and p.get("code", "").startswith("0x00")]
        line = {"e": "FsckN", "id": k, "exit": rc, "p0": p0[:30], "has_st": 0, "st": {"none": 1}}
        if rc == 0 or want_state:
            t0 = time.time()
            P, why = corrupt.project_guarded(img)
            meta["reader_s"] = round(time.time() - t0, 2)
            st = None
            if P is not None:
                try:
                    st = absstate.strip(P, keep_tree=False)
                    absstate._check_ints(st)
                except ValueError as ex:
                    st, why = None, "projection not representable in TLC: %s" % ex
            if st is None:
                st = {"reader_err": why}
                meta["reader_err"] = why
            elif "fatal" in st:
                meta["fatal"] = st["fatal"]
            else:
                meta["errs"] = summarize(P)
                add_classes(st)
            line["has_st"] = 1
            line["st"] = st
        txt = json.dumps(line, separators=(",", ":"))
        if line["has_st"]:
            # projected states are large (100-200 KB): they travel through a file, not through the pool's pipe
            lp = os.path.join(_G["work"], "line%d.json" % k)
            with open(lp, "w") as f:
                f.write(txt)
            return {"line": ("file", lp), "meta": meta, "has_st": 1}
        return {"line": txt, "meta": meta, "has_st": 0}
    finally:
        for p in (img, log):
            if os.path.exists(p): os.unlink(p)


def add_classes(st):
    """rule class of every reader rule name (text before the first ':'); the policy over classes is in Trace_Tools.tla"""
    for i in st.get("inodes", ()):
        i["shape_cls"] = [x.split(":", 1)[0] for x in i.get("shape_err", ())]


def summarize(P):
    """the reader's named findings, for triage and evidence only"""
    S = []
    for k in ("sb_err", "gd_err", "inode_err"):
        S += ["%s:%s" % (k, x) for x in P.get(k, [])]
    for i in P.get("inodes", []):
        if i["links"] or i["special"]:
            for x in i["shape_err"] + i["range_err"] + i["csum_err"] + ([] if i["csum_ok"] else ["csum:inode"]):
                S.append("ino%d:%s" % (i["ino"], x))
    for d in P.get("dirs", []):
        S += ["dir%d:%s" % (d["dir"], x) for x in d["err"] + d["csum_err"]]
    for x in P.get("xblocks", []):
        S += ["xblk%d:%s" % (x["blk"], e) for e in x["err"] + ([] if x["csum_ok"] else ["csum"]) + ([] if x["hash_ok"] else ["hash"])]
    for g in P.get("gd", []):
        for f in ("csum_ok", "bbcsum_ok", "ibcsum_ok", "bb_pad_ok"):
            if not g.get(f, True): S.append("gd%d:%s" % (g["g"], f))
    if not P.get("sb", {}).get("csum_ok", True): S.append("sb:csum")
    S += ["journal:%s" % x for x in P.get("journal", {}).get("err", [])]
    if not P.get("journal", {}).get("csum_ok", True): S.append("journal:csum")
    o = P.get("orphans", {})
    S += ["orphans:%s" % x for x in o.get("err", []) + o.get("file", {}).get("err", []) + o.get("file", {}).get("csum_err", [])]
    S += ["free_inode_csum:%s" % x for x in P.get("free_inode_csum_err", [])][:3]
    for q in P.get("quota", []):
        S += ["quota:%s" % x for x in q.get("err", [])]
    return S[:12]


# ------------------------------------------------------------------------------------------------------------------
# TLC side
# ------------------------------------------------------------------------------------------------------------------
_EVAL = re.compile(r'<<\s*"EVAL",\s*(\d+),\s*(-?\d+),\s*(-?\d+),\s*(\d),\s*(<<[^<>]*>>)\s*>>', re.S)      # TLC wraps long tuples


def tlc_lines(lines, work, tag, chunk, timeout=900):
    """validate independent lines with Trace_Tools; -> dict(bad=[idx], undecided=[idx], evals={idx: (unknown, failed)}, claims, distinct, generated)"""
    # Trace_Tools.cfg = repaired behaviour (fixes/C02_pass0_declined_exit.patch applied); VERIF_C02_LITERAL=1 validates against the
    # literal behaviour of the tree before that fix (named deviation DevPass0VerdictForgotten enabled -> KNOWN-FINDING)
    mod = os.path.join(SPEC, "Trace_Tools.tla")
    cfg = os.path.join(SPEC, "Trace_Tools_literal.cfg" if os.environ.get("VERIF_C02_LITERAL") else "Trace_Tools.cfg")
    tasks = []
    for ci, i in enumerate(range(0, len(lines), chunk)):
        p = os.path.join(work, "%s%05d.ndjson" % (tag, ci))
        tasks.append((i, p, lines[i:i + chunk]))

    def one(t):
        base, p, part = t
        with open(p, "w") as f:
            for ln in part:
                if isinstance(ln, tuple):
                    f.write(open(ln[1]).read() + "\n")
                    os.unlink(ln[1])
                else:
                    f.write(ln + "\n")
        r = T.tlc(mod, cfg, workers=1, timeout=timeout, env={"TRACE": p}, xmx="3g")
        os.unlink(p)
        return base, len(part), r
    res = dict(bad=[], undecided=[], outside=[], knowndev={}, evals={}, claims={}, distinct=0, generated=0, broken=[], wall=0.0, runs=0)
    with cf.ThreadPoolExecutor(max_workers=TLC_JOBS) as ex:
        for base, n, r in ex.map(one, tasks):
            res["distinct"] += r.distinct; res["generated"] += r.generated; res["wall"] += r.wall; res["runs"] += 1
            if not (r.rc == 0 and r.violated is None and r.error is None):
                res["broken"].append("%s: %s\n%s" % (r.error or r.violated, r.cmd[-200:], r.out[-1500:]))
                continue
            res["bad"] += [base + int(x) - 1 for x in re.findall(r'<<\s*"BADLINE",\s*(\d+)\s*>>', r.out)]
            res["undecided"] += [base + int(x) - 1 for x in re.findall(r'<<\s*"UNDECIDED",\s*(\d+)\s*>>', r.out)]
            res["outside"] += [base + int(x) - 1 for x in re.findall(r'<<\s*"OUTSIDE",\s*(\d+)\s*>>', r.out)]
            for m in re.finditer(r'<<\s*"KNOWNDEV",\s*(\d+),\s*"(\w+)"\s*>>', r.out):
                res["knowndev"][base + int(m.group(1)) - 1] = m.group(2)
            for m in _EVAL.finditer(r.out):
                res["evals"][base + int(m.group(1)) - 1] = (int(m.group(4)), re.findall(r'"(\w+)"', m.group(5)))
            for m in re.finditer(r'<<\s*"CLAIM",\s*(\d+),\s*(-?\d+),\s*(-?\d+)\s*>>', r.out):
                res["claims"][base + int(m.group(1)) - 1] = int(m.group(3))
    res["bad"] = sorted(set(res["bad"])); res["undecided"] = sorted(set(res["undecided"]))
    return res


def model_check(ev, tier, work):
    """Fsck.tla: design-level model.  Literal design must satisfy both properties; each seeded design mutant must not."""
    mod = os.path.join(SPEC, "Fsck.tla")
    out = {}
    for name, cfg, expect_ok in (("design", "MC_Fsck.cfg" if tier == "quick" else "MC_Fsck_thorough.cfg", True),
                                 ("mutant_pass5_not_written", "MC_Fsck_mut_pass5.cfg", False),
                                 ("mutant_no_dup_check", "MC_Fsck_mut_dup.cfg", False)):
        r = T.tlc(mod, os.path.join(SPEC, cfg), workers=4, timeout=1500, xmx="4g", coverage=(name == "design"))
        if r.error:
            die_broken("TLC failed on Fsck.tla (%s): %s\n%s" % (cfg, r.error, r.out[-1500:]))
        ev.add_tlc(r, "Fsck.tla %s" % name)
        if expect_ok and r.violated:
            die_broken("design model Fsck.tla violates %s -- the model (not e2fsprogs) is wrong\n%s" % (r.violated, r.out[-2500:]))
        if not expect_ok and not r.violated:
            die_broken("design mutant %s is not detected by the model's properties (vacuous model)" % name)
        if name == "design":
            dead = [a for a, (taken, _) in r.coverage.items() if taken == 0 and not a.startswith("Mut")]
            if dead:
                die_broken("Fsck.tla: actions never taken: %s" % dead)
        out[name] = {"distinct": r.distinct, "generated": r.generated, "violated": r.violated, "wall_s": round(r.wall, 1)}
    ev.cov["design_model"] = out


# ------------------------------------------------------------------------------------------------------------------
# universe selection
# ------------------------------------------------------------------------------------------------------------------
def select(tier, U, profiles, pool, rng, quick_n=None, quick_pairs=None, all_stale=False, with_relocs=False):
    """-> list of (profile, [recipes], want_state)"""
    quick_n = QUICK_N if quick_n is None else quick_n
    quick_pairs = QUICK_PAIRS if quick_pairs is None else quick_pairs
    singles = [[r] for r in U["catalogue"]]
    rel = corrupt.relocs(U) if with_relocs else []                   # C02 only: bitmap pointers relocated onto fixed metadata (Corrupt.tla!Relocs)
    bnd = corrupt.bounds(U) if with_relocs else []                   # C02 only: high halves and exact range boundaries (Corrupt.tla!C02Bounds)
    prs = corrupt.pairs(U["pairseeds"]) + corrupt.triples(U) + rel + bnd   # multi-field corruptions: all pairs of the seeds + the closed sets
    ntr = len(corrupt.triples(U)) + len(rel) + len(bnd)              # the closed sets: run by every tier, for every seed
    cases = []
    # which recipes bind on which profile (cheap: no image is written)
    bindmap = {}
    todo = [(p, list(enumerate(singles + prs))) for p in profiles]
    for p, ks in zip(profiles, pool.map(_bindable, todo)):
        bindmap[p] = set(ks)
    ns = len(singles)
    nb0 = len(singles + prs) - len(bnd)
    stats = {"catalogue": len(singles), "pairs": len(prs) - ntr, "triples": ntr - len(rel) - len(bnd), "relocs": len(rel), "bounds": len(bnd),
             "bindable_singles": sum(1 for p in profiles for k in bindmap[p] if k < ns),
             "bindable_pairs": sum(1 for p in profiles for k in bindmap[p] if ns <= k < nb0),
             "bindable_bounds": sum(1 for p in profiles for k in bindmap[p] if k >= nb0)}
    only = os.environ.get("VERIF_ONLY")          # development / triage: restrict the universe to recipes matching a regex
    if only:
        allr = singles + prs
        return [(p, allr[k], True) for p in profiles for k in sorted(bindmap[p]) if re.search(only, corrupt.rname(allr[k]))], stats
    if tier == "quick":
        cand_fix = [(p, k) for p in profiles for k in sorted(bindmap[p]) if k < ns and singles[k][0]["csum"] == "fix"]
        cand_stale = [(p, k) for p in profiles for k in sorted(bindmap[p]) if k < ns and singles[k][0]["csum"] == "stale"]
        cand_pair = [(p, k) for p in profiles for k in sorted(bindmap[p]) if k >= ns]
        # stratified: one seeded (profile, role, value class) for every FIELD of the catalogue, then a seeded fill-up
        byfield = {}
        for p, k in cand_fix:
            byfield.setdefault(singles[k][0]["field"], []).append((p, k))
        pick = [rng.choice(v) for f, v in sorted(byfield.items())]
        picked = set(pick)
        rest = [x for x in cand_fix if x not in picked]
        nfix = max(0, quick_n * 5 // 6 - len(pick))
        pick += rng.sample(rest, min(len(rest), nfix)) + rng.sample(cand_stale, min(len(cand_stale), quick_n // 6)) + \
            rng.sample(cand_pair, min(len(cand_pair), quick_pairs))
        picked = set(pick)
        # the closed sets always, for every seed.  Thinned in the quick tier: what takes part in no listed invariant -- the ownership
        # fields (uid / gid high halves; they matter through the quota files only -> every one of them on the quota profile) and the
        # fields of a FREE inode -- is run for one in OWNER_EVERY
        allr_ = singles + prs
        def thin(p, k):
            if k < nb0: return False
            r = allr_[k][0]
            if not (r["role"] == "free_inode" or (r["field"] in ("uid_hi", "gid_hi") and p != "quota")): return False
            return rng.randrange(OWNER_EVERY) != 0
        pick += [(p, k) for p in profiles for k in sorted(bindmap[p]) if k >= len(singles + prs) - ntr and (p, k) not in picked and not thin(p, k)]
        nrel0 = len(singles + prs) - len(rel) - len(bnd)
        for p, k in pick:
            # the state of every selected element is projected, except for the relocs: e2fsck flags all of them on the unchanged
            # tree (the property holds trivially); their state is projected when e2fsck exits 0
            cases.append((p, (singles + prs)[k], k < nrel0))
    else:
        # the WHOLE universe (closed-universe rule of DESIGN.md section 1: whatever the quick tier can select for any seed
        # has been run here).  Every element gets its e2fsck run, and its state is projected whenever e2fsck exits 0 (the
        # only case in which the property says anything).  Projecting the state of a FLAGGED image serves the evidence only
        # (reader / e2fsck agreement): one in FLAGGED_EVERY, and among the stale-checksum singles (which e2fsck flags almost
        # always, by the checksum alone) only inside a 1-in-STALE_EVERY subsample.
        n = m = 0
        for p in profiles:
            for k in sorted(bindmap[p]):
                r = (singles + prs)[k]
                sample = True
                if k < ns and r[0]["csum"] == "stale" and not all_stale:
                    n += 1
                    sample = (n % STALE_EVERY) == 0
                if sample: m += 1
                cases.append((p, r, sample and (m % FLAGGED_EVERY) == 1))
    return cases, stats


def run(tier):
    ev = Evidence(PID, tier, "model_checking")
    vd = Verdict(PID, ev)
    load_own_findings(vd)
    rng = random.Random(seed())
    work = fast_tmp()
    try:
        b = build.build()
        basedir, info = mkbase.base_images(b)
        profiles = [p for p in mkbase.PROFILES if info.get(p, {}).get("ok")]
        if len(profiles) < len(mkbase.PROFILES):
            ev.assumptions.append("base profiles that do not pass e2fsck -fn are left out: %s" % sorted(set(mkbase.PROFILES) - set(profiles)))
        try:
            U, r = corrupt.universe(os.path.dirname(basedir))
        except RuntimeError as ex:
            die_broken(str(ex))
        if r is not None:
            ev.add_tlc(r, "Emit_Corrupt (catalogue enumeration)")
        model_check(ev, tier, work)

        xdir, xinfo = c02_extras.images(b)
        xpaths = {"extra:" + x["name"]: x["path"] for x in xinfo if x["ok"]}
        pool = mp.Pool(JOBS, initializer=_init, initargs=(b, basedir, work, xpaths))
        try:
            # ---- the base images themselves: e2fsck -fn clean AND Consistent (otherwise they may not enter the universe)
            base_cases = [(-(i + 1), p, [], True) for i, p in enumerate(profiles)]
            base_lines = pool.map(_base_case, base_cases)
            rb = tlc_lines([x["line"] for x in base_lines], work, "base", STATE_CHUNK)
            if rb["broken"]:
                die_broken("TLC failed on the base images: %s" % rb["broken"][0])
            ev.cov["states"] += rb["distinct"]; ev.cov["transitions"] += rb["generated"]
            usable = []
            for i, x in enumerate(base_lines):
                unk, failed = rb["evals"].get(i, (1, ["?"]))
                if x["meta"]["exit"] == 0 and not unk and not failed:
                    usable.append(x["meta"]["profile"])
                else:
                    ev.assumptions.append("base image %s left out: e2fsck -fn exit %s, reader+Consistent: unknown=%s failed=%s %s" %
                                          (x["meta"]["profile"], x["meta"]["exit"], unk, failed, x["meta"].get("errs", "")))
            if not usable:
                die_broken("no base image is clean for both e2fsck -fn and the independent oracle")
            profiles = usable
            # ---- C02's own tool-built images (gen/c02_extras.py): htree directories with names >= 0x80 under every hash version and
            # signedness; the property is evaluated on them as they are (clean verdict => Consistent, judged by TLC)
            xcases = [(-(1000 + i), "extra:" + x["name"], x["path"]) for i, x in enumerate(xinfo) if x["ok"]]
            xres = pool.map(_image_case, xcases)
            rx = tlc_lines([x["line"] for x in xres], work, "extra", STATE_CHUNK)
            if rx["broken"]:
                die_broken("TLC failed on the extra images: %s" % rx["broken"][0])
            ev.cov["states"] += rx["distinct"]; ev.cov["transitions"] += rx["generated"]
            xstat = {}
            xusable = []
            for i, x in enumerate(xres):
                unk, failed = rx["evals"].get(i, (1, ["?"]))
                m = x["meta"]
                if m["exit"] == 0 and not unk and not failed:
                    xusable.append(m["profile"])
                xstat[m["profile"]] = {"e2fsck_fn_exit": m["exit"], "unknown": unk, "failed_conjuncts": failed, "reader_findings": m.get("errs", [])[:4]}
                if i in rx["bad"]:
                    vd.violation("%s|%s" % (m["profile"], ",".join(failed)),
                                 "e2fsck -fn exits 0 on the tool-built image %s (mke2fs -d, debugfs ssv, e2fsck -fyD of the tree under test) but the image violates %s (%s)" % (
                                     m["profile"], ",".join(failed), "; ".join(m.get("errs", [])[:4])),
                                 {"image": m["profile"], "built_by": "gen/c02_extras.py", "failed": failed, "reader_findings": m.get("errs")})
            for x in xinfo:
                if not x["ok"]:
                    xstat["extra:" + x["name"]] = {"not_built": {k: v for k, v in x.items() if k.endswith("_rc") or k == "err"}}
            ev.cov["extra_images"] = xstat
            n_extra = len(xres)
            cases, ustats = select(tier, U, profiles, pool, rng, with_relocs=True)
            # ---- superblock recipes bound on the tool-built htree images that are clean and Consistent as built (Corrupt.tla!ExtraHashRecipes
            # on every one by every tier; ExtraSbRecipes: thorough all, quick a seeded sample).  The state is projected when e2fsck exits 0.
            ximgs, xmand, xrest = corrupt.extra_recipes(U)
            xprof = [p for p in ("extra:" + n for n in ximgs) if p in xusable]
            xrec = xmand + xrest
            xbind = dict(zip(xprof, pool.map(_bindable, [(p, list(enumerate(xrec))) for p in xprof])))
            xm = [(p, xrec[k], False) for p in xprof for k in sorted(xbind[p]) if k < len(xmand)]
            xr = [(p, xrec[k], False) for p in xprof for k in sorted(xbind[p]) if k >= len(xmand)]
            only = os.environ.get("VERIF_ONLY")
            if only:
                xsel = [c for c in xm + xr if re.search(only, c[0] + "+" + corrupt.rname(c[1]))]
            elif tier == "quick":
                xsel = xm + rng.sample(xr, min(len(xr), QUICK_XSB))
            else:
                xsel = xm + xr
            cases += xsel
            ev.cov["universe"] = dict(ustats, profiles=profiles, selected=len(cases), extra_images_bound=xprof,
                                      extra_hash_recipes=len(xm), extra_sb_recipes=len(xr), extra_selected=len(xsel))
            t0 = time.time()
            jobs = [(k, p, recs, ws) for k, (p, recs, ws) in enumerate(cases)]
            results = pool.map(_case, jobs, chunksize=4)
            ev.cov["tool_phase_s"] = round(time.time() - t0, 1)
        finally:
            pool.close(); pool.join()
        done = [x for x in results if "line" in x]
        nskip = len(results) - len(done)
        with_state = [x for x in done if x["has_st"]]
        without = [x for x in done if not x["has_st"]]
        # ---- TLC decides every line
        t0 = time.time()
        res_s = tlc_lines([x["line"] for x in with_state], work, "st", STATE_CHUNK)
        res_n = tlc_lines([x["line"] for x in without], work, "ns", 3000) if without else dict(bad=[], undecided=[], outside=[], knowndev={}, evals={}, distinct=0, generated=0, broken=[], runs=0, wall=0)
        ev.cov["tlc_phase_s"] = round(time.time() - t0, 1)
        for res in (res_s, res_n):
            if res["broken"]:
                die_broken("TLC failed on Trace_Tools: %s" % res["broken"][0])
            ev.cov["states"] += res["distinct"]; ev.cov["transitions"] += res["generated"]
        if res_n["bad"] or res_n["undecided"] or res_s["undecided"]:
            die_broken("a line with exit 0 reached TLC without a projected state (harness error)")
        if len(res_s["evals"]) != len(with_state):
            die_broken("TLC evaluated %d of %d states" % (len(res_s["evals"]), len(with_state)))
        ev.cov["traces_validated_against_impl"] = len(done) + n_extra
        ev.cov["evaluations"] = len(with_state) + n_extra
        ev.cov["not_bound_at_run_time"] = nskip

        # ---- statistics and verdicts
        st = dict(clean_consistent=0, clean_inconsistent=0, flagged_consistent=0, flagged_inconsistent=0, unknown=0, clean_unknown=0,
                  flagged_without_state=len(without))
        conj = {}
        unknown_why = {}
        for i, x in enumerate(with_state):
            m = x["meta"]
            unk, failed = res_s["evals"][i]
            clean = m["exit"] == 0
            if unk or "reader_err" in m:
                st["unknown"] += 1
                if clean: st["clean_unknown"] += 1
                w = m.get("reader_err", "certificate rejected (CertOK)")[:60]
                unknown_why[w] = unknown_why.get(w, 0) + 1
                continue
            if failed:
                ev.nontrivial((m["profile"], m["recipe"]))
                for c in failed:
                    conj.setdefault(c, [0, 0]); conj[c][0 if clean else 1] += 1
                st["clean_inconsistent" if clean else "flagged_inconsistent"] += 1
            else:
                st["clean_consistent" if clean else "flagged_consistent"] += 1
            if failed and not clean and len(ev.cov["samples"]) < 3:
                ev.sample({"profile": m["profile"], "recipe": m["recipe"], "exit": m["exit"], "failed_conjuncts": failed, "e2fsck_problems": m["problems"][:4]})
        bad = set(res_s["bad"])
        # re-run before reporting (DESIGN.md section 8 rule 5): a failing element is executed and judged by TLC once more
        flaky = confirm(b, basedir, work, [(with_state[i]["meta"]["id"], i) for i in sorted(bad)][:80], jobs, _case, lambda j: (j[0], j[1], j[2], True))
        if flaky:
            ev.cov["not_reproduced_on_rerun"] = len(flaky)
            st["unknown"] += len(flaky)
            bad -= flaky
            res_s["bad"] = sorted(bad)
            st["clean_inconsistent"] -= len(flaky)
        for i in sorted(bad):
            m = with_state[i]["meta"]
            unk, failed = res_s["evals"][i]
            key = "%s|%s" % (strip_csum(m["recipe"]), ",".join(failed))
            if m["profile"].startswith("extra:"):
                key = m["profile"] + "+" + key
            what = "e2fsck -fn exits 0 on %s + %s but the image violates %s (%s)" % (m["profile"], m["recipe"], ",".join(failed), "; ".join(m.get("errs", [])[:4]) or m.get("fatal", ""))
            vd.violation(key, what, {"profile": m["profile"], "recipes": m["recipe"], "patches": m.get("patches"), "failed": failed,
                                      "reader_findings": m.get("errs"), "e2fsck_out": m.get("out", "")[-400:]})
        devs = {}
        for i, name in sorted(res_s["knowndev"].items()):
            m = with_state[i]["meta"]
            unk, failed = res_s["evals"][i]
            devs.setdefault(name, []).append("%s+%s" % (m["profile"], m["recipe"]))
            vd.violation(name, "e2fsck -fn reports superblock-stage problems %s on %s + %s, leaves them unfixed and exits 0; the image violates %s" % (
                m["problems"][:3], m["profile"], m["recipe"], ",".join(failed)), {"profile": m["profile"], "recipes": m["recipe"], "patches": m.get("patches"), "failed": failed})
        ev.cov["named_deviations_taken"] = {k: {"elements": len(v), "examples": v[:5]} for k, v in devs.items()}
        st["clean_inconsistent_named_deviation"] = len(res_s["knowndev"])
        outside = {}
        for i in sorted(set(res_s["outside"])):
            m = with_state[i]["meta"]
            k = "%s|%s" % (strip_csum(m["recipe"]), ";".join(sorted(set(re.sub(r"^(ino|dir|xblk|gd)\d+:", "", e).split("@")[0] for e in m.get("errs", [])))))
            outside.setdefault(k, []).append(m["profile"])
        ev.cov["outside_listed_invariants"] = {k: sorted(set(v)) for k, v in sorted(outside.items())}
        st["clean_inconsistent_listed"] = len(bad)
        st["clean_inconsistent_outside_list"] = len(set(res_s["outside"]))
        if os.environ.get("C02_PROPOSE"):       # development aid: dump every clean-but-inconsistent element for triage
            with open(os.environ["C02_PROPOSE"], "w") as f:
                json.dump([dict(with_state[i]["meta"], failed=res_s["evals"][i][1], listed=(i in bad)) for i in sorted(bad | set(res_s["outside"]))], f)
        if len(bad) + len(set(res_s["outside"])) + len(res_s["knowndev"]) != st["clean_inconsistent"]:
            die_broken("TLC BADLINE+OUTSIDE+KNOWNDEV count %d differs from EVAL statistics %d" % (len(bad) + len(set(res_s["outside"])) + len(res_s["knowndev"]), st["clean_inconsistent"]))
        ev.cov["verdicts"] = st
        ev.cov["failed_conjuncts"] = {k: {"e2fsck_clean": v[0], "e2fsck_flagged": v[1]} for k, v in sorted(conj.items())}
        ev.cov["unknown_reasons"] = unknown_why
        ev.cov["rule"] = ("distinct_nontrivial = universe elements (profile, recipe) whose corrupted image violates at least one conjunct of "
                          "Ext4Abs!Consistent as evaluated by TLC (the corruption really broke an invariant); evaluations = lines whose projected state TLC evaluated")
        ev.cov["tlc_trace_runs"] = res_s["runs"] + res_n["runs"]
        ev.cov["selftest"] = SELFTEST
        ev.assumptions += [
            "e2fsck is run as the suite runs it (tests/test_config environment: E2FSCK_CONFIG=/dev/null, fixed E2FSCK_TIME)",
            "the reader's byte-level findings (shape_err, csum_err, ...) are trusted as named facts; set-theoretic conjuncts are computed by TLC from raw facts; "
            "base images enter the universe only if e2fsck -fn AND Consistent accept them",
            "states the reader cannot produce or whose certificates CertOK rejects are 'unknown' and not counted (%d this run)" % st["unknown"],
            "global superblock free counts and the other PR_NO_OK tolerances of DESIGN.md section 5 C02 are not part of Consistent",
            "besides the catalogue x base images, both tiers run every bindable element of Corrupt.tla!C02Closed (bitmap pointers of unread groups relocated onto every kind of "
            "fixed metadata of group 0 / an earlier / a later group with the bookkeeping fixed up; entries of the resize inode's reserved-GDT map; BoundTriples: a data pointer "
            "set to blocks_count - 1 / blocks_count / first_data_block / first_data_block - 1 with the released block's bitmap bit and group count fixed up) and evaluate the property on "
            "C02's own tool-built images (gen/c02_extras.py: htree directories with names >= 0x80 under legacy / half_md4 / tea x signed / unsigned, a detached directory cycle)",
            "both tiers run every bindable element of Corrupt.tla!C02Bounds on every base image (high halves *_hi of the group descriptor and of the inode; block numbers "
            "blocks_count - 1 / blocks_count / first_data_block / first_data_block - 1, inode numbers inodes_count / inodes_count + 1 / first_ino - 1, per-group counts "
            "maximum / maximum + 1; checksum recomputed); the state is projected when e2fsck -fn exits 0.  quick thins only what is part of no listed invariant: the uid / gid high halves (they matter "
            "through the quota files: all of them on the quota profile) and the fields of a free inode -- one in %d of those" % OWNER_EVERY,
            "superblock recipes are bound on the tool-built htree images that are clean and Consistent as built: the hash selectors (each bit of s_flags, both hash bits, every "
            "s_def_hash_version) on every image by both tiers, the rest of the Superblock table in full by thorough and as a seeded sample of %d by quick" % QUICK_XSB,
            "thorough runs every bindable universe element; the state of an image is projected whenever e2fsck -fn exits 0; states of FLAGGED images (the property holds "
            "trivially) are projected for the evidence only: 1 in %d, stale-checksum singles 1 in %d of those" % (FLAGGED_EVERY, STALE_EVERY),
        ]
        return vd.finish()
    finally:
        shutil.rmtree(work, ignore_errors=True)


def confirm(b, basedir, work, items, jobs, casefn, mkjob):
    """items = [(job id, index)]: run those universe elements again in this process and let TLC judge the new lines;
    -> set of indices whose failure did NOT repeat"""
    if not items:
        return set()
    if not _G:
        xdir, xinfo = c02_extras.images(b)
        _init(b, basedir, work, {"extra:" + x["name"]: x["path"] for x in xinfo if x["ok"]})
    jmap = {j[0]: j for j in jobs}
    lines, idx = [], []
    for jid, i in items:
        x = casefn(mkjob(jmap[jid]))
        if "line" in x:
            lines.append(x["line"]); idx.append(i)
    res = tlc_lines(lines, work, "cf", STATE_CHUNK)
    if res["broken"]:
        die_broken("TLC failed while confirming: %s" % res["broken"][0])
    still = set(idx[k] for k in res["bad"]) | set(idx[k] for k in res["knowndev"])
    return set(idx) - still


def strip_csum(name):
    return "+".join(x.rsplit(".", 1)[0] for x in name.split("+"))


def _image_case(args):
    """an image that is checked as it is: (id, label, path)"""
    k, label, path = args
    return _base_case((k, label, [], True), img=path)


def _base_case(args, img=None):
    k, profile, recs, ws = args
    img = img or os.path.join(_G["basedir"], profile + ".img")
    log = os.path.join(_G["work"], "b%d.log" % os.getpid())
    rc, probs, out = corrupt.run_fsck(_G["fsck"], "-fn", img, _G["env"], log)
    if os.path.exists(log): os.unlink(log)
    P, why = corrupt.project_guarded(img)
    meta = {"id": k, "profile": profile, "recipe": "", "exit": rc}
    if P is None:
        st = {"reader_err": why}
    else:
        st = absstate.strip(P, keep_tree=False)
        absstate._check_ints(st)
        add_classes(st)
        meta["errs"] = summarize(P)
    return {"line": json.dumps({"e": "FsckN", "id": k, "exit": rc, "p0": [], "has_st": 1, "st": st}, separators=(",", ":")), "meta": meta}


def replay(path):
    """re-run one saved universe element: prints e2fsck's verdict and the oracle's"""
    d = json.load(open(path))
    rp = d.get("replay", d)
    b = build.build()
    basedir, info = mkbase.base_images(b)
    work = fast_tmp()
    try:
        xdir, xinfo = c02_extras.images(b)
        _init(b, basedir, work, {"extra:" + x["name"]: x["path"] for x in xinfo if x["ok"]})
        img = os.path.join(work, "replay.img")
        if rp.get("image"):          # one of C02's own tool-built images: built again by the tree under test, checked as it is
            src = [x["path"] for x in xinfo if "extra:" + x["name"] == rp["image"] and x["ok"]]
            if not src:
                die_broken("extra image %s could not be built" % rp["image"])
            shutil.copy(src[0], img)
        else:
            B = _base(rp["profile"])
            buf = bytearray(B.raw)
            for o, hx in rp["patches"]:
                bts = bytes.fromhex(hx); buf[o:o + len(bts)] = bts
            open(img, "wb").write(buf)
        rc, probs, out = corrupt.run_fsck(_G["fsck"], "-fn", img, _G["env"], img + ".log")
        P, why = corrupt.project_guarded(img)
        st = absstate.strip(P, keep_tree=False) if P else {"reader_err": why}
        add_classes(st)
        p0 = [p.get("code", "?") for p in (probs or []) if p.get("kind") == "problem" and p.get("code", "").startswith("0x00")]
        line = {"e": "FsckN", "id": 0, "exit": rc, "p0": p0[:30], "has_st": 1, "st": st}
        res = tlc_lines([json.dumps(line, separators=(",", ":"))], work, "rp", 1)
        if res["broken"]:
            die_broken(res["broken"][0])
        print("e2fsck -fn exit %d; Consistent: unknown=%s failed=%s" % ((rc,) + tuple(res["evals"].get(0, ("?", "?")))))
        if res["bad"]:
            print("VIOLATION property=%s replay=%s" % (PID, path))
            return 1
        return 0
    finally:
        shutil.rmtree(work, ignore_errors=True)
