"""C15 -- extended attributes read back exactly as set (inode body / xattr block / ea_inode value inodes).

(1) TLC model-checks spec/XattrPlace.tla (transcription of lib/ext2fs/ext_attr.c: ext2fs_xattr_set ->
    xattr_array_update, ext2fs_xattr_remove, ext2fs_xattrs_write, prep_ea_block_for_write, value inodes) against the
    property-level map of spec/Xattr.tla: Refines (read-back = map), NoOverflow, SortedBlock, DataInIbody,
    BlockIffEntries, EaRefs, EaSizes, PeerIntact, Charge ... exhaustively over all set/remove sequences up to a depth,
    on inode sizes 128/256/1024, ea_inode on/off, inline-data files, plus simulation of longer sequences.
(2) Seeded histories are stepped through the real library by harness/xattrdrv.c (one handle per operation, or one
    persistent handle) and through `debugfs -w` (ea_set / ea_rm / ea_get / ea_list) on copies of filesystems made by
    the built mke2fs.  After EVERY step the image file is parsed by gen/xattrparse.py (no libext2fs: raw inode body,
    xattr block, value inodes, bitmaps; entry/block hashes and the value-inode crc32c recomputed) and the step is
    validated by TLC against spec/Trace_XattrPlace.tla: exact placement, order, sizes, offsets, reference counts,
    free-block / free-inode / i_blocks accounting, and get-of-every-name = the model map; all invariants at every step.
(3) `e2fsck -fn` must be clean at the end of every history (consistent(); to be replaced by the independent reader).
(4) The alphabet contains the operations of the OTHER subsystem that rewrites the attribute area of the same inode,
    inline data (lib/ext2fs/inline_data.c reached through fileio.c / punch.c / mkdir.c + expanddir.c): file writes and
    truncations across the 60-byte i_block limit, the inode-body limit and the block limit (inline -> block
    conversion), direct ext2fs_inline_data_set / _expand, ext2fs_punch, and ext2fs_mkdir in an inline directory until
    it is converted -- interleaved with set/remove of user attributes.  XattrPlace states what each of them does to
    the placement (system.data present iff EXT4_INLINE_DATA_FL: invariant DataIffInline) and the same per-step
    validation applies.  Sizes come from the boundary catalogue fsizes_for() computed from the spec's constants.
    Each step also logs whether the inode and the peer name the same xattr block (acleq: must hold exactly while the
    model says "shared"; this exposes a stale i_file_acl written back after a copy-on-write, fixes/C15_inline_set_stale_inode)
    and the extent index blocks of value inodes (eameta: allocator layout of a > 4-block value file, bounded by the spec)."""
import struct, os, sys, json, random, shutil, subprocess, time, threading, re, hashlib
import concurrent.futures as cf
from common import VERIF, fast_tmp, seed, die_broken, tool_env, run as crun
import build, tlc as T, tracecheck
from evidence import Evidence, Verdict
import xattrparse

PID = "C15"
SPEC = os.path.join(VERIF, "spec")
JOBS = int(os.environ.get("C15_JOBS", "4"))
BS = 1024
TAGS = (1, 2, 3)

# name id -> (full name, e_name_index, short name).  Must equal NameTab of XattrPlace.tla (the reset line carries it
# and Trace_XattrPlace compares).
NAMES = {
    1: ("user.a", 1, b"a"),
    2: ("user.b", 1, b"b"),
    3: ("user.ccccc", 1, b"ccccc"),
    4: ("trusted.t", 4, b"t"),
    5: ("security." + "s" * 30, 6, b"s" * 30),
    6: ("system.s", 7, b"s"),
    7: ("system.data", 7, b"data"),
    8: ("system.posix_acl_access", 2, b""),
    9: ("user.aa", 1, b"aa"),
}
BYKEY = {(v[1], v[2]): k for k, v in NAMES.items()}
DATA = 7


def LEN(n):
    return (n + 16 + 3) // 4 * 4


def ibspace(isz, extra=32):
    return isz - 128 - extra - 8 if isz > 128 else 0


def vlens_for(p, tier="quick"):
    """value-length classes of a profile: 0, 1, 4, fills the body -1/0/+1 (1-byte name), fills the block -1/0/+1,
    beyond one block, and a few medium sizes that make several entries compete for the same area."""
    s = {0, 1, 4, 30, 200, 500, 967, 968, 969, 1025, 2000}
    if p["isz"] > 128:
        f = ibspace(p["isz"]) - LEN(1)
        s |= {f - 1, f, f + 1}
    if p["ea"]:
        s |= {5000}
        if tier == "thorough":
            s |= {65536}          # the largest value the read path accepts (64 KiB)
    return sorted(s)


def SIZE(v):
    return (v + 3) // 4 * 4


def fsizes_for(p, tier="quick"):
    """byte counts of file operations on an inline-data inode: around the i_block limit (60), around the largest
    system.data an otherwise empty inode body holds, around the limit left by one user attribute of some
    (name length, value length) classes, around one block, and beyond."""
    f = ibspace(p["isz"]) - LEN(4)
    s = {1, 10, 59, 60, 61, 100, 60 + f - 1, 60 + f, 60 + f + 1, BS - 1, BS, BS + 1, 3000}
    for nl, v in ((1, 4), (1, 0), (5, 30)) + (((30, 200),) if tier == "thorough" else ()):
        g = f - LEN(nl) - SIZE(v)
        if g > 0:
            s |= {60 + g, 60 + g + 1}
    return sorted(s)


DNAMELENS = [3, 8, 20, 40]          # EXT2_DIR_REC_LEN 12 / 16 / 28 / 48: sums hit the 56-byte inline limit exactly (28+28, 12+16+28) or pass it

PROFILES = {
    "i256":     dict(isz=256, ea=0, csum=0, inline=0, names=[1, 2, 3, 4, 5, 6, 9], raw=0),
    "i128":     dict(isz=128, ea=0, csum=0, inline=0, names=[1, 2, 3, 4, 5, 6, 9], raw=0),
    "i1024":    dict(isz=1024, ea=0, csum=0, inline=0, names=[1, 2, 3, 4, 5, 6, 9], raw=0),
    "i256cs":   dict(isz=256, ea=0, csum=1, inline=0, names=[1, 2, 3, 4, 5, 6, 8], raw=1),
    "i256ea":   dict(isz=256, ea=1, csum=0, inline=0, names=[1, 2, 3, 4, 5, 6, 9], raw=0),
    "i256eacs": dict(isz=256, ea=1, csum=1, inline=0, names=[1, 2, 3, 4, 5, 6, 9], raw=0),
    "i128ea":   dict(isz=128, ea=1, csum=1, inline=0, names=[1, 2, 3, 4, 5, 6], raw=0),
    "i256inl":  dict(isz=256, ea=0, csum=1, inline=1, names=[1, 2, 3, 4, 5, 6, 7], raw=0),
    "i1024inlea": dict(isz=1024, ea=1, csum=0, inline=1, names=[1, 2, 3, 4, 5, 6, 7], raw=0),
    "i256inldir": dict(isz=256, ea=0, csum=1, inline=1, isdir=1, names=[1, 2, 3, 4, 5, 6, 7], raw=0),   # system.data is never set directly on a directory
}
INITSZ = 10          # bytes the inline file under test holds initially ("0123456789")

_pat = {}


def pattern(tag, n):
    k = (tag, n)
    b = _pat.get(k)
    if b is None:
        b = bytes((1 + (tag * 37 + i * 7 + (i >> 8) * 13) % 251) for i in range(n))       # never 0; tags differ at every position
        _pat[k] = b
    return b


def fnv(b):
    h = 2166136261
    for c in b:
        h = ((h ^ c) * 16777619) & 0xFFFFFFFF
    return "%08x" % h


_fnv = {}


def tag_of_digest(n, nz, dg):
    """value of n bytes whose first nz are non-zero and the rest zero, known by its digest: which tag's pattern is it?"""
    if nz < 0 or nz > n:
        return -1
    for t in ((0,) if nz == 0 else TAGS):
        k = (t, n, nz)
        if k not in _fnv:
            _fnv[k] = fnv(pattern(t, nz) + b"\0" * (n - nz))
        if _fnv[k] == dg:
            return t
    return -1


def nzprefix(b):
    k = 0
    while k < len(b) and b[k]:
        k += 1
    return k if not any(b[k:]) else -1


def tag_of_bytes(b):
    """-> (tag, nz): the first nz bytes are the pattern of `tag`, the rest is zero (tag 0 iff nz = 0); (-1, -1) otherwise"""
    if b is None:
        return -1, -1
    nz = nzprefix(b)
    if nz < 0:
        return -1, -1
    if nz == 0:
        return 0, 0
    for t in TAGS:
        if pattern(t, nz) == b[:nz]:
            return t, nz
    return -1, nz


# ---------------------------------------------------------------------------------------------------------------
# base images

def make_base(b, env, work, pname):
    p = PROFILES[pname]
    img = os.path.join(work, "base_%s.img" % pname)
    feats = ["^has_journal", "^resize_inode"]
    feats.append("metadata_csum" if p["csum"] else "^metadata_csum")
    if p["ea"]:
        feats.append("ea_inode")
    if p["inline"]:
        feats.append("inline_data")
    cmd = [b + "/misc/mke2fs", "-q", "-F", "-t", "ext4", "-b", str(BS), "-I", str(p["isz"]), "-N", "64",
           "-O", ",".join(feats), "-E", "lazy_itable_init=0", "-U", "6b33f586-a183-4383-921d-30ab132db9bf", img, "2048"]
    rc, o, e = crun(cmd, env=env, timeout=60)
    if rc != 0:
        die_broken("mke2fs failed for profile %s: %s" % (pname, e.decode()[-400:]))
    small = os.path.join(work, "small.bin")
    with open(small, "wb") as f:
        f.write(b"0123456789"[:INITSZ])
    src = small if p["inline"] else "/dev/null"
    if p.get("isdir"):          # the inode under test is a directory made by ext2fs_mkdir (debugfs mkdir is silent on success)
        rc, o, e = crun([b + "/debugfs/debugfs", "-w", img, "-R", "mkdir f"], env=env, timeout=60)
        if rc == 0 and not [x for x in e.decode().splitlines() if x.startswith(("mkdir", "ext2fs_mkdir", "do_mkdir"))]:
            o += b"Allocated inode"
    else:
        rc, o, e = crun([b + "/debugfs/debugfs", "-w", img, "-R", "write %s f" % src], env=env, timeout=60)
    rc2, o2, e2 = crun([b + "/debugfs/debugfs", "-w", img, "-R", "write /dev/null g"], env=env, timeout=60)
    if rc or rc2 or b"Allocated inode" not in o or b"Allocated inode" not in o2:
        die_broken("debugfs write failed for profile %s: %s %s" % (pname, e.decode()[-300:], e2.decode()[-300:]))
    ok, msg = consistent(b, env, img)
    if not ok:
        die_broken("base image of profile %s is not clean: %s" % (pname, msg))
    return img


def consistent(b, env, img):
    """Consistency oracle (single place): `e2fsck -fn` exits 0.  To be replaced by the independent reader's Consistent."""
    rc, o, e = crun([b + "/e2fsck/e2fsck", "-fn", img], env=env, timeout=120)
    if rc == 0:
        return True, ""
    txt = o.decode("utf8", "replace")
    lines = [x for x in txt.splitlines() if x and not x.startswith("Pass ") and not x.startswith("e2fsck ")]
    return False, "e2fsck -fn exit %d: %s" % (rc, " | ".join(lines[:4])[:400])


# ---------------------------------------------------------------------------------------------------------------
# observation: API results + independent parse -> the "st" record of a trace line

def entry_log(e, why):
    n = BYKEY.get((e["idx"], e["name"]), 0)
    tag, nz = tag_of_bytes(e["val"])
    ok = 1
    if not e["hash_ok"]:
        ok = 0; why.append("entry hash of %r" % e["name"])
    ref = 0
    if e["ea"]:
        a = e["ea"]
        ref = a["ref"] if a["ref"] < 1000 else 999
        conds = [("EA_INODE_FL", a["flags"] & xattrparse.EA_INODE_FL), ("in bitmap", a["in_use"]), ("i_links 1", a["links"] == 1),
                 ("crc32c = stored hash", a["crc_ok"]), ("i_size = e_value_size", a["size"] == e["vlen"]),
                 ("blocks in bitmap", a["blocks_in_use"]), ("i_blocks", a["sectors"] == a["nphys"] * (BS // 512)),
                 ("regular file", (a["mode"] & 0o170000) == 0o100000)]
        for what, c in conds:
            if not c:
                ok = 0; why.append("value inode %d: %s" % (a["ino"], what))
    return [n, e["vlen"], tag, 1 if e["inum"] else 0, e["off"], ref, ok, nz]


def gets_log(g):
    return [[x[0], tag_of_digest(x[0], x[2], x[1]), x[2]] if x[0] >= 0 else [x[0], 0, 0] for x in g]


def observe(img, d, ino=None):
    """d: driver line (or a dict with gets/pgets/peer/fb/fi built from debugfs output)."""
    r = xattrparse.parse(img, ino or d["ino"])
    why = []
    st = {}
    st["ibody"] = [entry_log(e, why) for e in r["ibody"]]
    st["block"] = [entry_log(e, why) for e in r["block"]]
    st["hasblk"] = 1 if r["file_acl"] else 0
    st["magic"] = 1 if r["has_magic"] else 0
    st["refc"] = r["refcount"] if r["file_acl"] else 0
    hok = 1
    for k in ("ibody_layout_ok", "block_layout_ok", "block_magic_ok", "bhash_ok", "block_in_use"):
        if not r[k]:
            hok = 0; why.append(k)
    if r["h_blocks"] != 1:
        hok = 0; why.append("h_blocks")
    st["hok"] = hok
    st["sorted"] = 1 if r["sorted_ok"] else 0
    st["extra"] = r["extra"]
    st["fb"] = r["free_blocks"]; st["fi"] = r["free_inodes"]
    gd = (not r["uninit"] and r["free_blocks"] == r["gd_free_blocks"] and r["free_inodes"] == r["gd_free_inodes"]
          and d.get("fb", r["free_blocks"]) == r["free_blocks"] and d.get("fi", r["free_inodes"]) == r["free_inodes"])
    if not gd:
        why.append("free counts: bitmaps %d/%d descriptors %d/%d superblock %s/%s" % (
            r["free_blocks"], r["free_inodes"], r["gd_free_blocks"], r["gd_free_inodes"], d.get("fb"), d.get("fi")))
    st["gdok"] = 1 if gd else 0
    st["iblk"] = r["iblocks"]
    # extent index blocks of the value inodes (a 64-block value written into fragmented free space needs one): layout of
    # the value file, not of the attributes; the trace spec allows at most one per value inode of more than 4 blocks
    metas = {}
    for e in r["ibody"] + r["block"]:
        if e["ea"]:
            metas[e["ea"]["ino"]] = e["ea"]["meta"]
    st["eameta"] = sum(metas.values())
    # does the inode point at the SAME xattr block as the peer inode (shared), or at one of its own?
    pa = 0
    if d.get("peerino"):
        im = xattrparse.Img(img)
        try:
            raw = im.raw_inode(d["peerino"])
            pa = struct.unpack_from("<I", raw, 104)[0] | (struct.unpack_from("<H", raw, 118)[0] << 32)
        finally:
            im.close()
    st["acleq"] = 1 if (r["file_acl"] and pa == r["file_acl"]) else 0
    st["inl"] = 1 if r["i_flags"] & xattrparse.INLINE_DATA_FL else 0
    st["isize"] = r["i_size"]
    st["ilen"] = d["ilen"]
    st["gets"] = gets_log(d["gets"])
    st["pgets"] = gets_log(d["pgets"])
    st["peer"] = gets_log(d["peer"])
    return st, why


# ---------------------------------------------------------------------------------------------------------------
# history generation (seeded; inside the closed universe names x vlens x tags of the profile)

def file_op(rng, p, front, ct, tier):
    """one operation of the inline-data subsystem on the inode under test (sizes from the boundary catalogue)"""
    if p.get("isdir"):
        if front == "debugfs":      # debugfs mkdir, or debugfs write of an empty file into the directory (ext2fs_new_inode + ext2fs_link)
            return [rng.choice(["mkdirin", "writein"]), rng.choice(DNAMELENS)]
        return ["mkdirin", rng.choice(DNAMELENS)] if rng.random() < 0.92 else ["iexp"]
    if front == "debugfs":
        return ["punch"]
    fs = fsizes_for(p, tier)
    k = rng.random()
    if k < 0.55:
        return ["write", rng.choice(fs), ct]
    if k < 0.80:
        return ["trunc", rng.choice([0] + fs)]
    if k < 0.90:
        return ["iset", rng.choice([0] + fs), ct]
    return ["iexp"] if k < 0.95 else ["punch"]


def gen_history(rng, pname, nops, front, tier="quick"):
    p = PROFILES[pname]
    names = [n for n in p["names"] if not (p.get("isdir") and n == DATA)]
    vl = vlens_for(p, tier)
    edge = [v for v in vl if v > 4]
    ops = []
    present = set([DATA] if p["inline"] else [])
    shared = False
    # inline-data inodes: a share of the histories interleaves the other subsystem's operations; those write ONE
    # content pattern (ct) into the inline area (precondition of PWrite: the area never mixes two patterns)
    ct = rng.choice(TAGS)
    pf = 0.0 if not p["inline"] else (0.35 if rng.random() < 0.7 else 0.0)
    if p.get("isdir"):
        pf = 0.45
    for _ in range(nops):
        if pf and rng.random() < pf:
            ops.append(file_op(rng, p, front, ct, tier))
            continue
        k = rng.random()
        if k < 0.70 or not present:
            n = rng.choice(names)
            v = rng.choice(edge) if rng.random() < 0.8 else rng.choice(vl)
            if n == DATA:
                v = rng.choice([0, 1, 4, 30, ibspace(p["isz"]) - LEN(4) - 1, ibspace(p["isz"]) - LEN(4), ibspace(p["isz"]) - LEN(4) + 1])
            ops.append(["set", n, v, ct if (pf and n == DATA) else rng.choice(TAGS)])
            present.add(n)
        elif k < 0.92:
            c = [n for n in names if n != DATA]
            pr = [n for n in c if n in present]
            n = rng.choice(pr) if pr and rng.random() < 0.85 else rng.choice(c)
            ops.append(["rm", n]); present.discard(n)
        elif k < 0.96 and front == "lib":
            ops.append(["reopen"])
        elif front == "lib" and not p["ea"] and not shared:      # shared block + value inodes: known finding DevCowNoEaRef, probed separately
            ops.append(["share"]); shared = True
        else:
            ops.append(["rm", rng.choice([n for n in names if n != DATA])])
    return ops


# ---------------------------------------------------------------------------------------------------------------
# execution through the library driver

class Driver:
    def __init__(self, drv, env):
        self.p = subprocess.Popen([drv], stdin=subprocess.PIPE, stdout=subprocess.PIPE, stderr=subprocess.PIPE, env=env, text=True, bufsize=1)

    def send(self, c, reply=True):
        self.p.stdin.write(c + "\n"); self.p.stdin.flush()
        if not reply:
            return None
        ln = self.p.stdout.readline()
        if not ln:
            rc = self.p.wait()
            raise RuntimeError("xattrdrv died (exit %s) on '%s': %s" % (rc, c, self.p.stderr.read()[-400:]))
        return json.loads(ln)

    def close(self):
        try:
            self.p.stdin.close(); self.p.wait(timeout=10)
        except Exception:
            self.p.kill()


def reset_line(p, st):
    return {"e": "reset", "isz": p["isz"], "bs": BS, "eainode": p["ea"], "inline": p["inline"], "isdir": p.get("isdir", 0),
            "names": [[NAMES[i][1], list(NAMES[i][2])] for i in sorted(NAMES)], "st": st}


def run_lib(drvbin, b, env, base, img, pname, beh):
    """one behaviour through xattrdrv; returns (trace lines, problems) -- problems are (key, what) pairs found outside TLC."""
    p = PROFILES[pname]
    shutil.copyfile(base, img)
    d = Driver(drvbin, env)
    lines, probs = [], []
    try:
        d.send("raw %d" % p["raw"], False)
        d.send("persist %d" % beh["persist"], False)
        d.send("names " + " ".join(NAMES[i][0] for i in sorted(NAMES)), False)
        o = d.send("open %s f g" % img)
        st, why = observe(img, o)
        lines.append(dict(reset_line(p, st), why=why))
        for op in beh["ops"]:
            if op[0] == "set":
                o = d.send("set %s %d %d" % (NAMES[op[1]][0], op[2], op[3]))
                ln = {"e": "set", "n": op[1], "v": op[2], "t": op[3], "ret": o["ret"]}
            elif op[0] == "rm":
                o = d.send("rm %s" % NAMES[op[1]][0])
                ln = {"e": "rm", "n": op[1], "ret": o["ret"]}
            elif op[0] in ("write", "iset"):
                o = d.send("%s %d %d" % (op[0], op[1], op[2]))
                ln = {"e": op[0], "v": op[1], "t": op[2], "ret": o["ret"]}
            elif op[0] in ("trunc", "mkdirin"):
                o = d.send("%s %d" % (op[0], op[1]))
                ln = {"e": op[0], "v": op[1], "ret": o["ret"]}
            else:
                o = d.send(op[0])
                ln = {"e": op[0], "ret": o["ret"]}
            if o["e"] == "skip":            # the driver did not issue it: the inode on disk is not an inline-data inode
                ln = {"e": "skip", "ret": o["ret"]}
            if o["ret"] == 2 or "flusherr" in o:
                ln["err"] = o.get("err", "") + o.get("flusherr", "")
            st, why = observe(img, o)
            ln["st"] = st; ln["why"] = why
            lines.append(ln)
        d.send("close")
    except RuntimeError as e:
        probs.append(("crash", str(e)))
    except (struct.error, IndexError, KeyError, ValueError, ZeroDivisionError, OverflowError) as e:
        # the independent parser cannot make sense of what the step left on disk: the code under test wrote garbage
        probs.append(("unparseable", "the image is not parseable after step %d of the history (%s: %s)" % (len(lines), type(e).__name__, e)))
    finally:
        d.close()
    if not probs and not beh.get("nofsck"):
        ok, msg = consistent(b, env, img)
        if not ok:
            probs.append(("inconsistent", msg))
    return lines, probs


# ---------------------------------------------------------------------------------------------------------------
# execution through debugfs (front end): one debugfs process per step

NOSPACE = "Insufficient space to store extended attribute data"


def debugfs_step(b, env, img, work, cmd):
    """run one modifying command, then ea_list + ea_get of every name in the same debugfs process."""
    script = os.path.join(work, "dbg.cmd")
    outs = {}
    with open(script, "w") as f:
        if cmd:
            f.write(cmd + "\n")
        f.write("stat f\n")
        f.write("ea_list f\n")
        for i in sorted(NAMES):
            outs[i] = os.path.join(work, "get%d.bin" % i)
            if os.path.exists(outs[i]):
                os.unlink(outs[i])
            f.write("ea_get -r -f %s f %s\n" % (outs[i], NAMES[i][0]))
        f.write("ea_list g\n")
        for i in sorted(NAMES):
            f.write("ea_get -r -f %s.peer g %s\n" % (outs[i], NAMES[i][0]))
    rc, o, e = crun([b + "/debugfs/debugfs", "-w", "-f", script, img], env=env, timeout=60)
    if rc < 0 or rc == 124:
        raise RuntimeError("debugfs killed (rc %s) on '%s': %s" % (rc, cmd, e.decode()[-300:]))
    out = o.decode("utf8", "replace"); err = e.decode("utf8", "replace")
    # split the output per command
    sect = re.split(r"^debugfs: ", out, flags=re.M)
    ret = 0
    first = [x for x in err.splitlines() if x.startswith(("ea_set:", "ea_rm:", "punch:", "mkdir:", "do_mkdir_internal:", "ext2fs_mkdir:", "write:", "do_write_internal:", "ext2fs_link:", "ext2fs_new_inode:"))]
    if first:
        ret = 1 if NOSPACE in first[0] else 2

    def listing(name):
        res = {}
        for s in sect:
            if s.startswith("ea_list %s" % name):
                for m in re.finditer(r"^  (\S+) \((\d+)\)", s, flags=re.M):
                    res[m.group(1)] = int(m.group(2))
        return res
    lf, lg = listing("f"), listing("g")

    def gets(lst, suffix):
        g = []
        for i in sorted(NAMES):
            nm = NAMES[i][0]
            if nm not in lst:
                g.append([-1, "", 0])
                continue
            try:
                data = open(outs[i] + suffix, "rb").read()
            except OSError:
                data = None
            if data is None or len(data) != lst[nm]:
                g.append([-2, "ea_get/ea_list disagree", 0])
            else:
                g.append([len(data), fnv(data), nzprefix(data)])
        return g
    ilen = -1           # what `stat` reports through ext2fs_inline_data_size
    for s_ in sect:
        if s_.startswith("stat f"):
            m = re.search(r"^Size of inline data: (\d+)", s_, flags=re.M)
            if m:
                ilen = int(m.group(1))
    return ret, dict(gets=gets(lf, ""), pgets=[], peer=gets(lg, ".peer"), ilen=ilen, peerino=13), (first[0] if first else "")


def run_debugfs(b, env, base, img, work, pname, beh):
    p = PROFILES[pname]
    shutil.copyfile(base, img)
    lines, probs = [], []
    ino = 12
    try:
        ret, o, _ = debugfs_step(b, env, img, work, "")
        st, why = observe(img, o, ino)
        lines.append(dict(reset_line(p, st), why=why))
        nsub = 0
        for k, op in enumerate(beh["ops"]):
            if op[0] == "set" and op[1] == DATA and not (xattrparse.parse(img, ino)["i_flags"] & xattrparse.INLINE_DATA_FL):
                ret, o, msg = debugfs_step(b, env, img, work, "")      # precondition of PSet(system.data) does not hold on disk
                ln = {"e": "skip", "ret": 5}
            elif op[0] == "set":
                vf = os.path.join(work, "val.bin")
                with open(vf, "wb") as f:
                    f.write(pattern(op[3], op[2]))
                ret, o, msg = debugfs_step(b, env, img, work, "ea_set %s-f %s f %s" % ("-r " if p["raw"] else "", vf, NAMES[op[1]][0]))
                ln = {"e": "set", "n": op[1], "v": op[2], "t": op[3], "ret": ret}
            elif op[0] == "rm":
                ret, o, msg = debugfs_step(b, env, img, work, "ea_rm f %s" % NAMES[op[1]][0])
                ln = {"e": "rm", "n": op[1], "ret": ret}
            elif op[0] == "punch":
                ret, o, msg = debugfs_step(b, env, img, work, "punch f 0")
                ln = {"e": "punch", "ret": ret}
            elif op[0] in ("mkdirin", "writein"):
                nsub += 1
                ret, o, msg = debugfs_step(b, env, img, work, "%s f/%s" % ("mkdir" if op[0] == "mkdirin" else "write /dev/null", ("n%02d" % nsub).ljust(op[1], "x")))
                ln = {"e": "mkdirin", "v": op[1], "ret": ret}
            else:
                continue
            if ret == 2:
                ln["err"] = msg
            st, why = observe(img, o, ino)
            ln["st"] = st; ln["why"] = why
            lines.append(ln)
    except RuntimeError as e:
        probs.append(("crash", str(e)))
    except (struct.error, IndexError, KeyError, ValueError, ZeroDivisionError, OverflowError) as e:
        probs.append(("unparseable", "the image is not parseable after step %d of the history (%s: %s)" % (len(lines), type(e).__name__, e)))
    if not probs:
        ok, msg = consistent(b, env, img)
        if not ok:
            probs.append(("inconsistent", msg))
    return lines, probs


# ---------------------------------------------------------------------------------------------------------------
# TLC side

DEVS = dict(DevKeepEmptyBlock="FALSE", DevNoEaCharge="FALSE", DevCowNoEaRef="FALSE")
INVS = ["Refines", "NoDup", "NoOverflow", "SortedBlock", "DataInIbody", "BlockIffEntries", "Shared", "EaRefs",
        "EaSizes", "PeerIntact", "EaOnlyWithFeature", "Charge", "DataIffInline", "ValueShapes"]


def tla_set(xs):
    return "{" + ", ".join(str(x) for x in xs) + "}"


def constants_for(pname, mc=None):
    p = PROFILES[pname]
    c = dict(Names=tla_set(p["names"]), VLens="0..70000", Tags=tla_set(TAGS), ISZ=p["isz"], EXTRA=32, BS=BS,
             EAINODE="TRUE" if p["ea"] else "FALSE", INLINE="TRUE" if p["inline"] else "FALSE", WithPeer="TRUE",
             ISDIR="TRUE" if p.get("isdir") else "FALSE", INITSZ=INITSZ, FSizes="{}", DNameLens="{}",
             MaxOps=1000000, MaxEa=2 * len(p["names"]) + 2)
    c.update(DEVS)
    if mc:
        c.update(mc)
    return c


def trace_cfg(work, pname, over=None, suffix=""):
    path = os.path.join(work, "Trace_%s%s.cfg" % (pname, suffix))
    T.write_cfg(path, spec="TraceSpec", constants=constants_for(pname, over), invariants=["I_" + i for i in INVS],
                postcondition="TraceAccepted")
    txt = open(path).read().replace("VLens = 0..70000", "VLens <- TraceVLens")     # an interval needs a definition override
    with open(path, "w") as f:
        f.write(txt)
    return path


MC_RUNS = {
    # (profile, names, vlens, tags, depth, with peer)
    "quick": [("i256", [1, 2, 3, 4, 5, 6], [0, 4, 67, 68, 69, 500, 968, 969], [1, 2], 3, False),
              ("i256ea", [1, 2, 3, 4], [0, 4, 68, 69, 500, 968, 969, 2000], [1, 2], 3, True),
              ("i128", [1, 2, 3, 4, 5], [0, 4, 500, 967, 968, 969], [1], 4, True),
              ("i256inl", [1, 2, 4, 7], [0, 4, 44, 48, 49, 68, 500, 968], [1, 2], 3, False),
              # the inline-data subsystem interleaved: file sizes around 60, around the body limit alone (128) and next
              # to user.a = 4 bytes (104), around one block; an inline directory filled by sub-directories
              ("i256inl", [1, 4, 7], [0, 4, 44, 68, 500], [1, 2], 3, True,
               dict(FSizes=[1, 60, 61, 104, 105, 128, 129, 1024, 1025, 3000])),
              ("i256inldir", [1, 4, 7], [0, 4, 68, 69, 500], [1], 4, True, dict(DNameLens=[3, 20, 40]))],
}
MC_RUNS["thorough"] = [
    # (value-length sets trimmed to the boundary triples: measured 62 min for the tier on a loaded machine with 11 lengths)
    ("i256", [1, 2, 3, 4, 5], [0, 4, 67, 68, 69, 500, 968, 969], [1, 2], 4, False),
    ("i256", [1, 2, 3, 4], [4, 68, 69, 500, 968], [1], 5, True),
    ("i128", [1, 2, 3, 4, 5, 6], [0, 1, 4, 500, 967, 968, 969, 2000], [1, 2], 4, True),
    ("i1024", [1, 2, 3, 4, 5, 6], [0, 4, 500, 835, 836, 837, 968, 969], [1], 4, False),
    ("i256ea", [1, 2, 3, 4, 5], [0, 4, 68, 69, 500, 968, 969, 2000], [1], 4, False),
    ("i256ea", [1, 2, 3, 4], [68, 69, 500, 968, 969, 2000], [1, 2], 4, True),
    ("i128ea", [1, 2, 3, 4], [4, 500, 968, 969, 2000], [1], 5, True),
    ("i256inl", [1, 2, 4, 7], [0, 4, 44, 48, 49, 68, 500], [1, 2], 4, False),
    ("i1024inlea", [1, 2, 4, 7], [4, 500, 816, 817, 836, 968, 969, 2000], [1], 4, True),
    ("i256inl", [1, 4, 7], [0, 4, 44, 68, 500], [1, 2], 4, True,
     dict(FSizes=[1, 60, 61, 104, 105, 128, 129, 1024, 1025, 3000])),
    ("i1024inlea", [1, 4, 7], [4, 500, 836, 2000], [1], 4, True,
     dict(FSizes=[1, 60, 61, 100, 895, 896, 897, 1024, 1025, 3000])),
    ("i256inldir", [1, 2, 4, 7], [0, 4, 68, 69, 500, 968], [1], 5, True, dict(DNameLens=[3, 8, 20, 40])),
]


def model_check(ev, vd, tier, work):
    """exhaustive BFS over all set/remove(/share) sequences up to a depth + simulation of longer ones."""
    for k, run_ in enumerate(MC_RUNS[tier]):
        pname, names, vlens, tags, depth, peer = run_[:6]
        more = run_[6] if len(run_) > 6 else {}
        cfg = os.path.join(work, "MC_%d.cfg" % k)
        consts = constants_for(pname, dict(Names=tla_set(names), VLens=tla_set(vlens), Tags=tla_set(tags), MaxOps=depth,
                                           WithPeer="TRUE" if peer else "FALSE", MaxEa=2 * len(names) + 2))
        consts.update({c: tla_set(v) for c, v in more.items()})
        T.write_cfg(cfg, spec="Spec", constants=consts, invariants=["TypeOK"] + INVS)
        label = "XattrPlace %s names=%d vlens=%d tags=%d peer=%s%s: all sequences <= %d" % (
            pname, len(names), len(vlens), len(tags), peer, "".join(" %s=%d" % (c, len(v)) for c, v in more.items()), depth)
        r = T.tlc(os.path.join(SPEC, "XattrPlace.tla"), cfg, workers=JOBS, timeout=2400, xmx="4g")
        ev.add_tlc(r, label)
        if r.violated:
            vd.violation("model:" + str(r.violated), "invariant %s violated in XattrPlace (%s)" % (r.violated, label), {"tlc": r.out[-4000:]})
            continue
        if not r.ok:
            die_broken("TLC failed on XattrPlace (%s): %s\n%s" % (label, r.error, r.out[-1500:]))
        # simulation: longer sequences over the same alphabet
        cfg2 = os.path.join(work, "SIM_%d.cfg" % k)
        consts["MaxOps"] = 12
        T.write_cfg(cfg2, spec="Spec", constants=consts, invariants=["TypeOK"] + INVS)
        nsim = 200 if tier == "quick" else 1500
        r = T.tlc(os.path.join(SPEC, "XattrPlace.tla"), cfg2, workers=JOBS, timeout=600, xmx="4g", simulate=nsim, depth=13)
        if r.violated:
            vd.violation("model:" + str(r.violated), "invariant %s violated in XattrPlace simulation (%s)" % (r.violated, label), {"tlc": r.out[-4000:]})
        elif r.rc != 0 and r.error:
            die_broken("TLC simulation failed on XattrPlace (%s): %s\n%s" % (label, r.error, r.out[-1500:]))
        ev.cov.setdefault("simulated_behaviours", 0)
        ev.cov["simulated_behaviours"] += nsim
    ev.cov["exhaustive"] = True


# ---------------------------------------------------------------------------------------------------------------

def strip(lines):
    return [json.dumps({k: v for k, v in ln.items() if k not in ("why", "err")}, separators=(",", ":")) for ln in lines]


def moves(lines):
    """the kinds of relocation a behaviour exercises: 'i>b' = an attribute moves from the inode body to the block, 'b>i',
    '*>ea' into a value inode, 'ea>*' out of one."""
    where = {}
    kinds = set()
    inl = None
    for ln in lines:
        st = ln["st"]
        if inl == 1 and st["inl"] == 0:
            kinds.add("inline>block")          # the inode stops being an inline-data inode: system.data must go
        if st["inl"] and any(e[0] == DATA and e[1] > 0 for e in st["ibody"]):
            kinds.add("i_block>system.data")   # the inline data crossed the 60-byte limit
        inl = st["inl"]
        cur = {}
        for e in st["ibody"]:
            cur[e[0]] = ("ea", "i") if e[3] else ("i", "i")
        for e in st["block"]:
            cur[e[0]] = ("ea", "b") if e[3] else ("b", "b")
        for n, (w, area) in cur.items():
            if n in where and where[n] != (w, area):
                ow, oarea = where[n]
                if oarea != area:
                    kinds.add("%s>%s" % (oarea, area))
                if ow != "ea" and w == "ea":
                    kinds.add("*>ea")
                if ow == "ea" and w != "ea":
                    kinds.add("ea>*")
        where = cur
    return kinds


def nontrivial(lines):
    """a behaviour is non-trivial when an attribute MOVES between inode body, block and value inode."""
    return bool(moves(lines))


def execute(b, drvbin, env, work, behs, bases):
    """run every behaviour; returns list of (lines, probs) in order.  JOBS worker threads, one image each."""
    res = [None] * len(behs)
    tl = threading.local()
    cnt = [0]
    lock = threading.Lock()

    def one(i):
        if not hasattr(tl, "dir"):
            with lock:
                cnt[0] += 1
                tl.dir = os.path.join(work, "t%d" % cnt[0])
            os.makedirs(tl.dir, exist_ok=True)
        beh = behs[i]
        img = os.path.join(tl.dir, "w.img")
        if beh["front"] == "lib":
            res[i] = run_lib(drvbin, b, env, bases[beh["profile"]], img, beh["profile"], beh)
        else:
            res[i] = run_debugfs(b, env, bases[beh["profile"]], img, tl.dir, beh["profile"], beh)
    with cf.ThreadPoolExecutor(max_workers=JOBS) as ex:
        list(ex.map(one, range(len(behs))))
    return res


def describe(beh, k):
    op = beh["ops"][k] if 0 <= k < len(beh["ops"]) else None
    if not op:
        return "(reset)"
    if op[0] == "set":
        return "set %s len=%d tag=%d" % (NAMES[op[1]][0], op[2], op[3])
    if op[0] == "rm":
        return "rm %s" % NAMES[op[1]][0]
    if op[0] in ("write", "iset"):
        return "%s %d bytes tag=%d" % (op[0], op[1], op[2])
    if op[0] in ("trunc", "mkdirin", "writein"):
        return "%s %d" % (op[0], op[1])
    return op[0]


CHUNK = 1500
MAX_REPORT = 3          # confirmed rejections reported per profile


def chunks_of(tb, chunk_lines):
    """the greedy chunking tracecheck.validate applies (needed to find the behaviours hidden behind a rejected one)."""
    chunks, cur, curlen = [], [], 0
    for bi, bl in enumerate(tb):
        if cur and curlen + len(bl) > chunk_lines:
            chunks.append(cur); cur = []; curlen = 0
        cur.append(bi); curlen += len(bl)
    if cur:
        chunks.append(cur)
    return chunks


def validate_profile(work, pname, idxs, behs, results):
    """TLC trace validation of the behaviours `idxs` of one profile.  Chunks of behaviours, one TLC process each.  A chunk
    stops at its first rejected behaviour: that one is confirmed alone and reported, and the behaviours behind it go
    back into the queue as ONE chunk, so a tree on which very many behaviours fail costs a bounded number of TLC runs.
    Returns dict(bad=[(key, what, replay)], unchecked, distinct, generated, broken)."""
    mod = os.path.join(SPEC, "Trace_XattrPlace.tla")
    out = dict(bad=[], unchecked=0, distinct=0, generated=0, broken=None)
    cfg = trace_cfg(work, pname)
    tb = [strip(results[i][0]) for i in idxs]
    wd = os.path.join(work, "tv_" + pname)
    os.makedirs(wd, exist_ok=True)
    pending = chunks_of(tb, CHUNK)
    rnd = 0
    while pending and len(out["bad"]) < MAX_REPORT:
        rnd += 1
        nxt = []
        for ci, ch in enumerate(pending):
            path = os.path.join(wd, "chunk_r%d_%03d.ndjson" % (rnd, ci))
            with open(path, "w") as f:
                for j in ch:
                    f.write("\n".join(tb[j]) + "\n")
            r = tracecheck._run_chunk((mod, cfg, path, sum(len(tb[j]) for j in ch), 1200, False))
            out["distinct"] += r["distinct"]; out["generated"] += r["generated"]
            if r["accepted"]:
                continue
            if r["error"] and r["violated"] is None:
                out["broken"] = "TLC failed on a trace chunk (%s): %s\n%s" % (pname, r["error"], r["out_tail"][-1500:])
                return out
            m = r["matched"] if r["matched"] is not None else 0
            pos, hit = 0, len(ch) - 1
            for q, j in enumerate(ch):
                if m < pos + len(tb[j]):
                    hit = q; break
                pos += len(tb[j])
            if ch[hit + 1:]:
                nxt.append(ch[hit + 1:])
            if len(out["bad"]) >= MAX_REPORT:
                nxt.append([ch[hit]]); continue
            rej, matched, inv, tail, _ = tracecheck.confirm(tb[ch[hit]], mod, cfg, wd)      # re-run alone before reporting
            if rej:
                i = idxs[ch[hit]]
                k = matched if matched is not None else 0
                ln = results[i][0][k] if k < len(results[i][0]) else {}
                what = ("invariant %s violated" % inv[2:] if inv else "step is not a step of XattrPlace")
                key = "%s@%s" % (inv[2:] if inv else "rejected", ln.get("e", "?"))
                out["bad"].append((key, "%s: profile %s front %s, step %d (%s) %s" % (
                    what, pname, behs[i]["front"], k, describe(behs[i], k - 1), "; ".join(ln.get("why", []))[:200]),
                    {"behaviour": behs[i], "first_unmatched_line": k, "line": ln, "tlc_tail": tail[-1200:]}))
        pending = nxt
    out["unchecked"] = sum(len(ch) for ch in pending)
    return out


def validate(vd, ev, work, behs, results):
    """TLC trace validation, the profiles in parallel; returns the number of behaviours accepted."""
    accepted = 0
    byp = {}
    for i, beh in enumerate(behs):
        if results[i][0] and not any(k in ("crash", "unparseable") for k, _ in results[i][1]):
            byp.setdefault(beh["profile"], []).append(i)
    names = sorted(byp, key=lambda pn: -sum(len(results[i][0]) for i in byp[pn]))          # longest first
    with cf.ThreadPoolExecutor(max_workers=JOBS) as ex:
        outs = list(ex.map(lambda pn: validate_profile(work, pn, byp[pn], behs, results), names))
    for pn, o in zip(names, outs):
        if o["broken"]:
            die_broken(o["broken"])
    for pn, o in zip(names, outs):
        ev.cov["states"] += o["distinct"]; ev.cov["transitions"] += o["generated"]
        for key, what, rep_ in o["bad"]:
            vd.violation(key, what, rep_)
        accepted += len(byp[pn]) - len(o["bad"]) - o["unchecked"]
        if o["unchecked"]:
            ev.cov.setdefault("not_validated_after_violations", 0)
            ev.cov["not_validated_after_violations"] += o["unchecked"]
    return accepted


def load_own_findings(vd):
    """lib/evidence.py reads /verif/known_findings.txt; until this property's section is merged there, its lines live
    in fixes/C15_known_findings.txt (same format)."""
    p = os.path.join(VERIF, "fixes", "C15_known_findings.txt")
    if os.path.exists(p):
        for l in open(p):
            l = l.strip()
            if l.startswith("{"):
                d = json.loads(l)
                if d.get("property") == PID:
                    vd.known.setdefault(d["key"], d)


# Named deviation DevCowNoEaRef (known finding): copy-on-write of a SHARED xattr block whose entries name value inodes
# does not take references on those inodes.  Random histories never share a block on ea_inode profiles; these fixed
# histories take the deviation on purpose and are validated against the LITERAL model (DevCowNoEaRef = TRUE).
COW_PROBES = [
    dict(profile="i128ea", front="lib", persist=0, nofsck=1, ops=[["set", 1, 2000, 1], ["share"], ["set", 2, 4, 1]]),
    dict(profile="i128ea", front="lib", persist=1, nofsck=1, ops=[["set", 1, 2000, 1], ["set", 2, 4, 1], ["share"], ["rm", 2]]),
]


def probe_cow(vd, ev, b, drvbin, env, work, bases):
    mod = os.path.join(SPEC, "Trace_XattrPlace.tla")
    res = execute(b, drvbin, env, work, COW_PROBES, bases)
    n = 0
    for beh, (lines, probs) in zip(COW_PROBES, res):
        if probs:
            vd.violation(probs[0][0], "%s (copy-on-write probe %s)" % (probs[0][1], beh["ops"]), {"behaviour": beh}); continue
        tl = strip(lines)
        rej, matched, inv, tail, _ = tracecheck.confirm(tl, mod, trace_cfg(work, beh["profile"]), work)
        if not rej:
            n += 1          # the code follows the repaired model: nothing to report
            continue
        lit = trace_cfg(work, beh["profile"], dict(DevCowNoEaRef="TRUE"), "lit")
        rej2, matched2, inv2, tail2, _ = tracecheck.confirm(tl, mod, lit, work)
        if rej2 and inv2 in ("I_EaRefs", "I_PeerIntact"):
            n += 1          # every step is the literal model's step; only the property-level invariant fails
            vd.violation("DevCowNoEaRef", "copy-on-write of a shared xattr block does not reference the value inodes it names (%s violated at step %s of %s)" % (
                inv2[2:], matched2, [describe(beh, k) for k in range(len(beh["ops"]))]), {"behaviour": beh})
        else:
            k = matched if matched is not None else 0
            vd.violation("rejected@cowprobe", "copy-on-write probe is neither the repaired nor the literal model's behaviour at step %d (%s)" % (k, describe(beh, k - 1)),
                         {"behaviour": beh, "line": lines[k] if k < len(lines) else {}, "tlc_tail": tail[-1200:], "tlc_tail_literal": tail2[-1200:]})
    return n


def inline_catalogue(pname, tier):
    """enumerated part of the inline-data universe: every pair (preparation, growth / shrink operation) and
    (file operation, attribute operation) over the boundary catalogue of the profile -- the state the second
    operation meets is inline with system.data empty / non-empty / next to a user attribute, or already converted."""
    p = PROFILES[pname]
    if p.get("isdir"):
        seqs = []
        for pre in ([], [["set", 1, 4, 1]], [["set", 4, 500, 1]]):
            for fill in ([20, 20], [3, 8, 20], [3, 3, 8, 8], [20, 8, 3], [40]):          # exactly 56 bytes of entries (48 for [40])
                for last in DNAMELENS:
                    seqs.append(pre + [["mkdirin", x] for x in fill] + [["mkdirin", last], ["set", 2, 4, 2], ["rm", 1]])
        return seqs
    fs = fsizes_for(p, tier)
    f = ibspace(p["isz"]) - LEN(4)
    g = f - LEN(1) - 4
    xops = [["set", 1, 4, 2], ["set", 1, ibspace(p["isz"]) - LEN(4) - LEN(1), 2], ["set", 4, 500, 2], ["set", DATA, 30, 1], ["rm", 1]]
    if tier == "quick":         # the limits only: i_block, the body alone and next to user.a = 4 bytes, one block
        fs = [x for x in fs if x in (60, 61, 60 + f, 60 + f + 1, 60 + g, 60 + g + 1, BS, BS + 1)]
        writes = [["write", x, 1] for x in fs]
        fileops = writes + [["trunc", x] for x in (0, 30, 61)] + [["iset", x, 1] for x in (61, 60 + f + 1)] + [["iexp"], ["punch"]]
        xops = xops[:4]
        second = fileops if p["isz"] == 256 else writes        # the large-inode profile repeats the growth half only
        return [[a, c] for a in xops + fileops for c in second] + [[a, c] for a in writes for c in xops]
    fileops = ([["write", x, 1] for x in fs] + [["trunc", x] for x in (0, 30, 61, 100)] + [["iset", x, 1] for x in (30, 61, 60 + f, 60 + f + 1)]
               + [["iexp"], ["punch"]])
    return [[a, c] for a in xops + fileops for c in fileops] + [[a, c] for a in fileops for c in xops]


def plan(tier, rng):
    behs = []
    if tier == "quick":
        n_lib, n_dbg, nops = 70, 8, 9
    else:
        n_lib, n_dbg, nops = 700, 100, 12
    for pname in PROFILES:
        for i in range(n_lib):
            behs.append(dict(profile=pname, front="lib", persist=i % 2, ops=gen_history(rng, pname, nops if i % 3 else 5, "lib", tier)))
        if tier == "thorough":
            # exhaustive part: every pair of operations over 3 names x the boundary value lengths of the profile (1 tag)
            p = PROFILES[pname]
            nm = [1, 2, 4] if not p["inline"] or p.get("isdir") else [1, 4, DATA]      # system.data is never set directly on a directory
            vs = [v for v in vlens_for(p, "quick") if v not in (1, 30, 200, 1025)]
            alpha = [["set", n, v, 1] for n in nm for v in vs if n != DATA or v <= ibspace(p["isz"])] + [["rm", n] for n in nm if n != DATA]
            for a in alpha:
                for c in alpha:
                    behs.append(dict(profile=pname, front="lib", persist=0, ops=[a, c]))
        if PROFILES[pname]["inline"]:
            for k, ops in enumerate(inline_catalogue(pname, tier)):
                behs.append(dict(profile=pname, front="lib", persist=k % 2, ops=ops))
        for i in range(n_dbg):
            behs.append(dict(profile=pname, front="debugfs", persist=0, ops=gen_history(rng, pname, 6, "debugfs", tier)))
    return behs


def run(tier):
    ev = Evidence(PID, tier, "model_checking")
    vd = Verdict(PID, ev)
    load_own_findings(vd)
    work = fast_tmp()
    try:
        try:
            b = build.build()
            drvbin = build.driver(b, "xattrdrv")
        except RuntimeError as e:
            die_broken(str(e))
        env = tool_env(b)
        t0 = time.time()
        model_check(ev, vd, tier, work)
        ev.cov["model_checking_wall_s"] = round(time.time() - t0, 1)
        bases = {p: make_base(b, env, work, p) for p in PROFILES}
        rng = random.Random(seed())
        behs = plan(tier, rng)
        t1 = time.time()
        results = execute(b, drvbin, env, work, behs, bases)
        ev.cov["execution_wall_s"] = round(time.time() - t1, 1)
        nlines = 0
        nprob = {}
        for beh, (lines, probs) in zip(behs, results):
            nlines += len(lines)
            for key, what in probs:
                nprob[key] = nprob.get(key, 0) + 1
                if nprob[key] <= 5:
                    vd.violation(key, "%s: profile %s front %s ops %s" % (what, beh["profile"], beh["front"], [describe(beh, k) for k in range(len(beh["ops"]))][:14]),
                                 {"behaviour": beh, "problem": what})
            if len(lines) != 1 + len([o for o in beh["ops"] if beh["front"] == "lib" or o[0] in ("set", "rm", "punch", "mkdirin", "writein")]) and not probs:
                die_broken("instrumentation incomplete: %d lines for %d operations" % (len(lines), len(beh["ops"])))
        t2 = time.time()
        acc = validate(vd, ev, work, behs, results)
        acc += probe_cow(vd, ev, b, drvbin, env, work, bases)
        ev.cov["validation_wall_s"] = round(time.time() - t2, 1)
        ev.cov["trace_lines_validated"] = nlines
        ev.cov["traces_validated_against_impl"] = acc
        ev.cov["evaluations"] = len(behs)
        ev.cov["problems_outside_tlc"] = nprob
        mv = {}
        for beh, (lines, probs) in zip(behs, results):
            for k in moves(lines):
                mv[k] = mv.get(k, 0) + 1
        ev.cov["behaviours_by_relocation_kind"] = mv
        if not all(mv.get(k) for k in ("i>b", "b>i", "*>ea", "ea>*", "inline>block", "i_block>system.data")) and not vd.viol:
            # (a tree that already produced violations may well never reach some kind: that is a verdict, not a broken check)
            die_broken("vacuous run: some relocation kind was never exercised: %s" % mv)
        for beh, (lines, probs) in zip(behs, results):
            if lines and nontrivial(lines):
                ev.nontrivial(hashlib.sha1(json.dumps([beh["profile"], beh["front"], beh["ops"]]).encode()).hexdigest())
        ev.cov["rule"] = ("seeded histories of set/remove(/share/reopen) over the profile's closed universe (names x value-length classes x tags) on "
                          "%d profiles (inode 128/256/1024, ea_inode, metadata_csum, inline data) through libext2fs (fresh or persistent handle) and debugfs; "
                          "inline-data inodes also get file writes / truncations / ext2fs_inline_data_* / punch / mkdir-in-directory from the boundary catalogue (random and all pairs); "
                          "non-trivial = some attribute moves between inode body, xattr block and value inode, or the inline data crosses the i_block limit / is converted to a block, during the history; "
                          "distinct by (profile, front end, operations)" % len(PROFILES))
        for i in (0, 1, len(behs) - 1):
            ev.sample({"behaviour": behs[i], "first_lines": [{k: v for k, v in x.items()} for x in results[i][0][:2]]})
        ev.cov["checker_cmd"] = ("TRACE=<chunk> tlc -workers 1 -config <Trace_<profile>.cfg> spec/Trace_XattrPlace.tla (POSTCONDITION TraceAccepted, INVARIANT I_* = "
                                 + ", ".join(INVS) + ")")
        ev.assumptions = [
            "names are drawn from a closed universe of 9 (index 1/2/4/6/7, short-name lengths 0/1/2/5/30, system.data); values are (length, tag) with bytes derived from the tag",
            "system.data is set only on inline-data files and never removed through the xattr interface (what lib/ext2fs/inline_data.c does)",
            "system.posix_acl_access is written through a RAW handle (the cooked path converts ACL encodings and is not modelled)",
            "the filesystem has free blocks and inodes for every value inode (allocation failure paths are not explored)",
            "the peer inode's reference to the block is created with the public API (h_refcount + 1, i_file_acl, i_blocks), the state the kernel's mbcache produces",
            "consistency oracle = `e2fsck -fn` exit 0 at the end of each history",
            "inline data: no xattr handle is kept open across an operation of the inline-data subsystem (no in-tree caller does); ext2fs_inline_data_set and set(system.data) are issued only on inodes that have EXT4_INLINE_DATA_FL (the driver skips them otherwise and the model must agree); "
            "one history writes one content pattern into the inline area (the model's value abstraction is pattern prefix + zero tail); files are written at offset 0; a directory under test stays within one block after its conversion",
        ]
        return vd.finish()
    finally:
        shutil.rmtree(work, ignore_errors=True)


def replay(path):
    d = json.load(open(path))
    beh = d["replay"]["behaviour"]
    work = fast_tmp()
    try:
        b = build.build(); drvbin = build.driver(b, "xattrdrv")
        env = tool_env(b)
        base = make_base(b, env, work, beh["profile"])
        res = execute(b, drvbin, env, work, [beh], {beh["profile"]: base})
        lines, probs = res[0]
        rc = 0
        for key, what in probs:
            print("%s: %s" % (key, what)); rc = 1
        if lines:
            rej, matched, inv, tail, _ = tracecheck.confirm(strip(lines), os.path.join(SPEC, "Trace_XattrPlace.tla"), trace_cfg(work, beh["profile"]), work)
            if rej:
                k = matched if matched is not None else 0
                print("first unmatched line %s (%s): %s" % (k, describe(beh, k - 1), json.dumps(lines[k] if k < len(lines) else {})[:1500]))
                if inv:
                    print("invariant %s violated" % inv)
                print(tail[-800:])
                rc = 1
        if rc:
            print("VIOLATION property=%s replay=%s" % (PID, path))
        else:
            print("replay accepted")
        return rc
    finally:
        shutil.rmtree(work, ignore_errors=True)
