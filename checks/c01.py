"""C01 -- e2fsck repairs converge: `e2fsck -fy` claims success => the following `e2fsck -fn` reports nothing and exits 0
(level: model_checking).

Specification   spec/Tools.tla   (Success(exit), FsckNClean(exit, problems), C01_Holds),
                spec/Fsck.tla    (tiny design model of passes 1-5: TLC checks that one repair run over every state reachable
                                  by <= 2 catalogue corruptions ends in a state the read-only run accepts, and that the seeded
                                  design mutant "pass 5 repairs the bitmap in memory but does not write it" is caught),
                spec/Corrupt.tla (closed universe, enumerated by TLC).
Conformance     for every universe element: corrupted copy of a base image; real `e2fsck -fy -E problem_log=..` then real
                `e2fsck -fn -E problem_log=..`; one ndjson line {exit1, nfixed, exit2, problems2}; TLC (Trace_Tools.tla, action
                TFsckYN) evaluates C01_Holds on every line.  The second run's problem records are the failure signature of a
                finding (DESIGN.md section 5, C01).  A known finding is keyed by  profile | recipe class (role.field of every
                recipe) | ordered problem codes with inode numbers of the second run  -- physical block and group numbers are
                left out, so the key does not move with the allocation layout of the base images (signature()).
Closed universe both tiers draw from the same set: every (profile, recipe) of the catalogue (recomputed and stale checksum), every
                pair of the pair seeds and the closed triples that binds on the base image.  thorough runs ALL of it (48 141
                elements on the 15 profiles, ~13-17 min on the loaded 16-core machine); quick is a seeded subset of it.
Boundary images the base images are 8-32 MiB: one meta group, two htree levels, extents far below the format's length limits.
                Corrupt.tla!StartImages states starting images AT those limits from the format constants (meta_bg with >= 3 meta
                groups and 32- / 64-byte descriptors; written / unwritten extents at EXT_INIT_MAX_LEN / EXT_UNINIT_MAX_LEN and
                adjacent runs one block beyond, in trees of depth 0/1/2; large_dir directories whose index needs DxCap1, DxCap1+1,
                DxCap2, DxCap2+1, DxTwoSecond leaves, linear and indexed), TLC enumerates them with the recipes that run on each
                kind (ImageRecipes: the image as built, the boundary roles -- descriptors / bitmaps of the first, a middle and
                the last meta group, inode / leaf / index block of every long-extent file, second- and third-level index blocks --
                and the catalogue roles that bind) and gen/c01_extras.py builds them with the tools of the tree under test
                (profile "x:<name>").  quick runs Mandatory(kind) + a seeded sample on each image (the DxCap2 directories are
                thorough-only), thorough every recipe that binds.  The
                known list (fixes/C01_known_findings.txt = the C01 lines of known_findings.txt) is regenerated from a full
                thorough run on the unchanged tree with `python3 checks/c01.py mkknown` (bottom of this file).
"""
import os, sys, json, random, shutil, time, re, multiprocessing as mp
for _d in ("lib", "checks", "reader", "gen"):       # only needed for `python3 checks/c01.py mkknown ...`; bin/check has set the path already
    _p = os.path.join(os.path.dirname(os.path.dirname(os.path.abspath(__file__))), _d)
    if _p not in sys.path:
        sys.path.insert(0, _p)
from common import VERIF, fast_tmp, seed, die_broken, NPROC, tool_env
import build, tlc as T
from evidence import Evidence, Verdict
import mkbase, corrupt, c01_extras
import c02 as H          # shared harness: worker pool, binding map, TLC line validation

PID = "C01"
QUICK_N = int(os.environ.get("C01_QUICK_N", "1500"))
QUICK_PAIRS = int(os.environ.get("C01_QUICK_PAIRS", "200"))
# boundary images (Corrupt.tla!StartImages, gen/c01_extras.py): quick = Mandatory(kind) + a seeded sample of ImageRecipes(kind) of this
# size per image (an element on the 16 000-block directories costs ~1 s of e2fsck, on the others ~30 ms)
QUICK_X = {"metabg": int(os.environ.get("C01_QUICK_X_METABG", "150")), "longext": int(os.environ.get("C01_QUICK_X_LONGEXT", "150")),
           "bigdir": int(os.environ.get("C01_QUICK_X_BIGDIR", "60")), "bigdir_large": int(os.environ.get("C01_QUICK_X_BIGDIR_LARGE", "6"))}

_X = {"images": {}, "bases": {}}          # boundary images of this run; filled before the pool forks


def _base(profile):
    """base image of gen/mkbase.py, or ("x:<name>") a boundary image of gen/c01_extras.py"""
    if not profile.startswith("x:"):
        return H._base(profile)
    B = _X["bases"].get(profile)
    if B is None:
        B = c01_extras.XBase(_X["images"][profile[2:]], None)
        _X["bases"][profile] = B
    return B


def _xbindable(args):
    profile, recs = args
    B = _base(profile)
    return [k for k, r in recs if B.bind(r) is not None]


def select_boundary(tier, U, pool, rng):
    """universe elements on the boundary images: -> [(profile, [recipe], False)], stats.  thorough: every recipe of
    Corrupt.tla!ImageRecipes(kind) that binds; quick: Mandatory(kind) + a seeded sample of the rest."""
    bd = U["boundary"]
    names = [n for n, i in sorted(_X["images"].items()) if i.get("built")]
    rec = {k: sorted(v, key=corrupt.rkey) for k, v in bd["recipes"].items()}
    kinds = {n: _X["images"][n]["kind"] for n in names}
    binds = pool.map(_xbindable, [("x:" + n, list(enumerate(rec[kinds[n]]))) for n in names], chunksize=1)
    cases, stats = [], {}
    # vacuity guard: on images that came out as the catalogue names them, every boundary role binds somewhere
    for kind in sorted(set(kinds.values())):
        imgs = [n for n in names if kinds[n] == kind]
        if all(_X["images"][n].get("ok") for n in imgs):
            bound = set(rec[kind][k]["role"] for n, ks in zip(names, binds) if kinds[n] == kind for k in ks)
            dead = sorted(set(bd["roles"][kind]) - bound)
            if dead:
                die_broken("boundary roles %s bind on no %s image (gen/c01_extras.py and spec/Corrupt.tla disagree)" % (dead, kind))
    for n, ks in zip(names, binds):
        kind = kinds[n]
        R = rec[kind]
        mand = set(corrupt.rname(r) for r in bd["mandatory"][kind])
        if tier == "quick":
            must = [k for k in ks if corrupt.rname(R[k]) in mand]
            rest = [k for k in ks if corrupt.rname(R[k]) not in mand]
            large = kind == "bigdir" and _X["images"][n]["spec"]["leaves"] > 1000
            pick = must + sorted(rng.sample(rest, min(len(rest), QUICK_X["bigdir_large" if large else kind])))
        else:
            must = [k for k in ks if corrupt.rname(R[k]) in mand]
            pick = ks
        only = os.environ.get("VERIF_ONLY")
        if only:
            pick = [k for k in ks if re.search(only, corrupt.rname(R[k]))]
        stats[n] = {"recipes": len(R), "bindable": len(ks), "mandatory_bound": len(must), "selected": len(pick)}
        cases += [("x:" + n, [R[k]], False) for k in pick]
    return cases, stats


def _case(args):
    k, profile, recs = args
    G = H._G
    B = _base(profile)
    img = os.path.join(G["work"], "y%d_%d.img" % (os.getpid(), k))
    log = img + ".log"
    meta = {"id": k, "profile": profile, "recipe": corrupt.rname(recs)}
    try:
        pt = B.apply(recs, img)
        if pt is None:
            return {"skip": 1, "meta": meta}
        meta["patches"] = [[o, b.hex()] for o, b in pt]
        rc1, p1, out1 = corrupt.run_fsck(G["fsck"], "-fy", img, G["env"], log)
        fixed = [p for p in (p1 or []) if p.get("fixed") == "1"]
        rc2, p2, out2 = corrupt.run_fsck(G["fsck"], "-fn", img, G["env"], log)
        if p1 is None or p2 is None:
            # no problem log was written: the run died before opening it (usage error / cannot open) -- logged as such
            meta["nolog"] = 1
        sigs = [corrupt.sig_of(p) for p in (p2 or [])]
        meta.update(exit1=rc1, exit2=rc2, nfixed=len(fixed), codes1=sorted(set(p.get("code", "?") for p in fixed))[:20], sig2=sigs[:40],
                    codes2=layout_free(sigs))
        if rc2 != 0 or sigs:
            meta["out2"] = out2[-1200:]
        line = {"e": "FsckYN", "id": k, "exit1": rc1, "nfixed": len(fixed), "exit2": rc2, "problems2": sigs[:40]}
        return {"line": json.dumps(line, separators=(",", ":")), "meta": meta}
    finally:
        for p in (img, log):
            if os.path.exists(p): os.unlink(p)


def layout_free(sigs):
    """the second run's problem records without what depends on the allocation layout of the base image: code + inode number,
    physical block and group numbers dropped, runs of the same record (one per block of a range) collapsed; first 40"""
    out = []
    for s in sigs:
        s = re.sub(r":[bg]\d+", "", s)
        if not out or out[-1] != s:
            out.append(s)
    return out[:40]


def recipe_class(name):
    """role.field of every recipe of the element (value class and checksum variant dropped)"""
    return "+".join(".".join(x.split(".")[:2]) for x in name.split("+"))


def parse_recipes(name):
    out = []
    for x in name.split("+"):
        role, field, vc, cs = x.split(".")
        out.append({"role": role, "field": field, "vc": vc, "csum": cs})
    return out


def signature(m):
    """key of a known finding: profile | recipe class | ordered problem codes (with inode numbers) of the second run"""
    return "%s|%s|%s" % (m["profile"], recipe_class(m["recipe"]), " ".join(m["codes2"]) if m["codes2"] else "exit%d" % m["exit2"])


def run(tier):
    ev = Evidence(PID, tier, "model_checking")
    vd = Verdict(PID, ev)
    H.load_own_findings(vd, PID)
    rng = random.Random(seed() * 7919 + 1)
    work = fast_tmp()
    try:
        b = build.build()
        basedir, info = mkbase.base_images(b)
        profiles = [p for p in mkbase.PROFILES if info.get(p, {}).get("ok")]
        try:
            U, r = corrupt.universe(os.path.dirname(basedir))
        except RuntimeError as ex:
            die_broken(str(ex))
        if r is not None:
            ev.add_tlc(r, "Emit_Corrupt (catalogue enumeration)")
        H.model_check(ev, tier, work)
        # the in-memory containers the passes rely on (ea_refcount, icount, dblist, badblocks, region): spec/Cont*.tla
        import c01_containers
        ncont = c01_containers.run(b, ev, vd, tier, work, random.Random(seed() * 7919 + 5))
        # the boundary images (Corrupt.tla!StartImages), built by the tools of the tree under test
        t0 = time.time()
        try:
            ximgs = c01_extras.images(b, U, tier, os.path.join(basedir, "tree"), build.driver(b, "c01mk"))
        except RuntimeError as ex:
            die_broken(str(ex))
        _X["images"] = {i["name"]: i for i in ximgs}
        _X["bases"] = {}
        ev.cov["boundary_images"] = {i["name"]: {k: i.get(k) for k in ("kind", "built", "ok", "fsck_fn_rc", "geo", "dir", "shapes", "err") if i.get(k) is not None}
                                     for i in ximgs}
        ev.cov["boundary_build_s"] = round(time.time() - t0, 1)
        pool = mp.Pool(H.JOBS, initializer=H._init, initargs=(b, basedir, work))
        try:
            cases, ustats = H.select(tier, U, profiles, pool, rng, quick_n=QUICK_N, quick_pairs=QUICK_PAIRS, all_stale=True)
            xcases, xstats = select_boundary(tier, U, pool, random.Random(seed() * 7919 + 11))
            if os.environ.get("VERIF_ONLY_BOUNDARY"):
                cases = []
            cases = cases + xcases
            for n, x in xstats.items():
                ev.cov["boundary_images"][n].update(x)
            ev.cov["universe"] = dict(ustats, profiles=profiles, selected=len(cases), boundary_selected=len(xcases))
            t0 = time.time()
            results = pool.map(_case, [(k, p, recs) for k, (p, recs, _) in enumerate(cases)], chunksize=8)
            ev.cov["tool_phase_s"] = round(time.time() - t0, 1)
        finally:
            pool.close(); pool.join()
        done = [x for x in results if "line" in x]
        t0 = time.time()
        res = H.tlc_lines([x["line"] for x in done], work, "yn", 2500)
        ev.cov["tlc_phase_s"] = round(time.time() - t0, 1)
        if res["broken"]:
            die_broken("TLC failed on Trace_Tools: %s" % res["broken"][0])
        ev.cov["states"] += res["distinct"]; ev.cov["transitions"] += res["generated"]
        ev.cov["traces_validated_against_impl"] = len(done)
        ev.cov["evaluations"] = len(done) + ncont
        st = dict(claimed_success=0, claimed_and_fixed=0, not_claimed=0, undamaged=0, killed_or_timeout=0, not_converged=0)
        for i, x in enumerate(done):
            m = x["meta"]
            if m["exit1"] < 0: st["killed_or_timeout"] += 1
            if i in res["claims"]:
                st["claimed_success"] += 1
                if m["nfixed"] > 0:
                    st["claimed_and_fixed"] += 1
                    ev.nontrivial((m["profile"], m["recipe"]))
                    if len(ev.cov["samples"]) < 3 and m["nfixed"] > 2:
                        ev.sample({"profile": m["profile"], "recipe": m["recipe"], "exit1": m["exit1"], "fixed_codes": m["codes1"][:6], "exit2": m["exit2"]})
                else:
                    st["undamaged"] += 1
            else:
                st["not_claimed"] += 1
        jobs = [(k, p, recs) for k, (p, recs, _) in enumerate(cases)]
        flaky = H.confirm(b, basedir, work, [(done[i]["meta"]["id"], i) for i in res["bad"]][:80], jobs, _case, lambda j: j)
        if flaky:
            ev.cov["not_reproduced_on_rerun"] = len(flaky)
            res["bad"] = [i for i in res["bad"] if i not in flaky]
        clusters = {}
        for i in res["bad"]:
            m = done[i]["meta"]
            st["not_converged"] += 1
            key = signature(m)
            clusters.setdefault(key, []).append(m)
        for key, ms in sorted(clusters.items()):
            m = ms[0]
            what = "e2fsck -fy exit %d claims success on %s + %s, but the following e2fsck -fn exits %d and reports [%s] (%d recipes with this signature)" % (
                m["exit1"], m["profile"], m["recipe"], m["exit2"], " ".join(m["sig2"][:6]), len(ms))
            vd.violation(key, what, {"profile": m["profile"], "recipes": m["recipe"], "patches": m["patches"], "signature": m["sig2"],
                                      "exit1": m["exit1"], "exit2": m["exit2"], "fixed_codes_run1": m["codes1"], "out2": m.get("out2", ""),
                                      "all_recipes": [x["recipe"] for x in ms][:60]})
        if os.environ.get("C01_PROPOSE"):       # development aid: dump every non-convergent element for triage (never read back by the check)
            with open(os.environ["C01_PROPOSE"], "w") as f:
                json.dump([dict(done[i]["meta"], key=signature(done[i]["meta"])) for i in res["bad"]], f)
        ev.cov["selftest"] = {"recorded": "2026-09-28", "tree": "/repo a9b77b7d + fixes/C02_pass0_declined_exit.patch + fixes/C02_extent_node_depth.patch",
                              "mutants/C01_pass5_bb_not_dirty.patch": "CAUGHT (second run repeats the block bitmap differences)",
                              "mutants/C01_pass4_nlink_not_stored.patch": "CAUGHT (second run repeats PR_4_BAD_REF_COUNT)",
                              "mutants/C01_extent_split_lblk_not_advanced.patch": "CAUGHT 2026-09-29 on /repo 885045a6 (x:longext: every element whose run rebuilds the trees of the "
                                                                                  "wover files; second run reports the overlapping / lost extent)",
                              "seeded": "bin/seedcheck C01_1..C01_6 C01 all exit 1 on 2026-09-29 (C01_4 on x:bigdir_*_twosecond, C01_5 on x:longext, C01_6 on x:metabg32/64)",
                              "note": "recorded when the check was built with bin/selftest --patch <fixes + mutant> C01; not re-measured by a normal run"}
        ev.cov["verdicts"] = st
        ev.cov["failure_signatures"] = {k: len(v) for k, v in sorted(clusters.items())}
        ev.cov["rule"] = ("distinct_nontrivial = universe elements (profile, recipe) for which the repairing run fixed at least one problem and claimed success; "
                          "evaluations = lines on which TLC evaluated C01_Holds")
        ev.assumptions += [
            "e2fsck is run as the suite runs it (tests/test_config environment); 'reports no problem' = the second run's -E problem_log has no <problem>/<suppressed> record (pass headers are not problems)",
            "a run killed by a signal or by the 60 s timeout claims nothing (exit -1); such runs are counted (killed_or_timeout) and belong to C06",
            "universe = base images of gen/mkbase.py x Corrupt.tla catalogue (singles with recomputed and stale checksums, all pairs of the pair seeds, closed triples); "
            "thorough runs every bindable element, quick a seeded subset of the same set",
            "plus the boundary catalogue of Corrupt.tla (StartImages x ImageRecipes): meta_bg filesystems with >= 3 meta groups (32- and 64-byte descriptors; "
            "descriptor / bitmap roles bound in the first, a middle and the last meta group), one sparse filesystem with written / unwritten extents at "
            "EXT_INIT_MAX_LEN / EXT_UNINIT_MAX_LEN and adjacent runs one block beyond, in trees of depth 0 / 1 / 2, and large_dir directories whose index needs "
            "DxCap1, DxCap1+1, DxTwoSecond (quick and thorough), DxCap2, DxCap2+1 (thorough) leaves, as a linear file and indexed; built by the tools of the tree "
            "under test (gen/c01_extras.py, harness/c01mk.c); a boundary image enters whatever e2fsck -fn says about it as built (the property quantifies over "
            "every image); quick runs Mandatory(kind) + a seeded sample on each, thorough every recipe of ImageRecipes(kind) that binds; C02 does not run them "
            "(the reader's projection of the 450 MiB / 48 000-entry images is not handed to TLC)",
            "known findings are matched by profile | role.field of the recipes | second run's ordered problem codes with inode numbers (no block / group numbers)",
        ]
        return vd.finish()
    finally:
        shutil.rmtree(work, ignore_errors=True)


def replay(path):
    d = json.load(open(path))
    if str(d.get("key", "")).startswith("cont:"):
        import c01_containers
        return c01_containers.replay(path)
    rp = d.get("replay", d)
    b = build.build()
    basedir, info = mkbase.base_images(b)
    work = fast_tmp()
    try:
        H._init(b, basedir, work)
        if rp["profile"].startswith("x:"):
            U, _ = corrupt.universe(os.path.dirname(basedir))
            ximgs = c01_extras.images(b, U, "thorough", os.path.join(basedir, "tree"), build.driver(b, "c01mk"), only=rp["profile"][2:])
            _X["images"] = {i["name"]: i for i in ximgs}
            if not _X["images"].get(rp["profile"][2:], {}).get("built"):
                die_broken("boundary image %s could not be built" % rp["profile"])
        B = _base(rp["profile"])
        img = os.path.join(work, "replay.img")
        # the recipe is bound again on the base image of THIS tree (byte offsets saved in "patches" belong to the base image of the
        # tree the replay was recorded on; they are used only when the replay names no recipe)
        pt = B.apply(parse_recipes(rp["recipes"]), img) if rp.get("recipes") else None
        if pt is None:
            if rp.get("recipes"):
                print("recipe %s does not bind on the %s base image of this tree; applying the recorded byte patches" % (rp["recipes"], rp["profile"]))
            c01_extras.sparse_copy(B.path, img)
            with open(img, "r+b") as f:
                for o, hx in rp["patches"]:
                    f.seek(o); f.write(bytes.fromhex(hx))
        rc1, p1, out1 = corrupt.run_fsck(H._G["fsck"], "-fy", img, H._G["env"], img + ".log")
        rc2, p2, out2 = corrupt.run_fsck(H._G["fsck"], "-fn", img, H._G["env"], img + ".log")
        sigs = [corrupt.sig_of(p) for p in (p2 or [])]
        line = {"e": "FsckYN", "id": 0, "exit1": rc1, "nfixed": 0, "exit2": rc2, "problems2": sigs[:40]}
        res = H.tlc_lines([json.dumps(line)], work, "rp", 10)
        if res["broken"]:
            die_broken(res["broken"][0])
        print("e2fsck -fy exit %d; e2fsck -fn exit %d problems %s" % (rc1, rc2, sigs[:8]))
        print(out2[-800:])
        if res["bad"]:
            print("VIOLATION property=%s replay=%s" % (PID, path))
            return 1
        return 0
    finally:
        shutil.rmtree(work, ignore_errors=True)


# ------------------------------------------------------------------------------------------------------------------
# maintenance: regenerate the known-finding list of C01 from a full thorough run on the unchanged tree
#   C01_PROPOSE=/path/propose.json bin/check C01 --tier thorough          (dumps every non-convergent universe element)
#   python3 checks/c01.py mkknown /path/propose.json "<tree description>" [/path/propose_with_fix.json fixes/C01_x.patch ...]
# One entry per cluster (cluster = ordered problem codes of the second run, inode numbers dropped); "key"/"keys" = the
# exact keys signature() produces for the elements of the cluster; rewrites fixes/C01_known_findings.txt, the C01 lines
# of known_findings.txt and replays/C01/known_NNN.json.  Never called by a check run.
# ------------------------------------------------------------------------------------------------------------------
def _cluster_codes(m):
    out = []
    for x in m["codes2"]:
        c = re.sub(r":i\d+", "", x)
        if not out or out[-1] != c:
            out.append(c)
    return " ".join(out) if out else "exit%d" % m["exit2"]


def make_known(propose, tree, fixed_runs=()):
    from common import REPO
    names = dict((("0x%06x" % int(v, 16)), k) for k, v in re.findall(r"#define\s+(PR_\w+)\s+(0x[0-9A-Fa-f]{6})\b", open(os.path.join(REPO, "e2fsck", "problem.h")).read()))
    P = json.load(open(propose))
    still = []          # [(patch name, set of (profile, recipe) still non-convergent with the patch applied)]
    for path, patch in fixed_runs:
        still.append((patch, set((m["profile"], m["recipe"]) for m in json.load(open(path)))))
    cl = {}
    for m in P:
        cl.setdefault(_cluster_codes(m), []).append(m)
    order = sorted(cl.items(), key=lambda kv: (-len(kv[1]), kv[0]))
    rdir = os.path.join(VERIF, "replays", PID)
    for f in os.listdir(rdir):
        if re.match(r"known_\d+\.json$", f):
            os.unlink(os.path.join(rdir, f))
    lines = []
    for n, (codes, ms) in enumerate(order):
        ms.sort(key=lambda m: (m["profile"], m["recipe"]))
        keys = sorted(set(signature(m) for m in ms))
        m0 = min(ms, key=lambda m: (len(m["recipe"]), m["recipe"].endswith(".stale"), m["profile"], m["recipe"]))
        profs = sorted(set(m["profile"] for m in ms))
        recs = sorted(set(m["recipe"] for m in ms))
        cn = [c for c in codes.split()]
        what = ("e2fsck -fy claims success but the following e2fsck -fn is not clean; second run reports [%s]; %d universe elements (%d recipes on profiles %s), e.g. %s on %s" % (
            ", ".join("%s %s" % (c, names.get(c, "?")) for c in cn[:6]), len(ms), len(recs), ",".join(profs), m0["recipe"], m0["profile"]))
        d = {"property": PID, "key": signature(m0), "keys": [k for k in keys if k != signature(m0)], "what": what,
             "replay": "replays/%s/known_%03d.json" % (PID, n), "codes": codes, "elements": len(ms)}
        for patch, st in still:
            left = sum(1 for m in ms if (m["profile"], m["recipe"]) in st)
            if left < len(ms):
                d.setdefault("repaired_by", {})[patch] = "%d of %d elements converge with the patch applied" % (len(ms) - left, len(ms))
        with open(os.path.join(rdir, "known_%03d.json" % n), "w") as f:
            json.dump({"property": PID, "key": d["key"], "what": "cluster " + codes,
                       "replay": {"profile": m0["profile"], "recipes": m0["recipe"], "patches": m0["patches"], "signature": m0["sig2"], "codes2": m0["codes2"],
                                  "exit1": m0["exit1"], "exit2": m0["exit2"], "fixed_codes_run1": m0["codes1"], "out2": m0.get("out2", ""),
                                  "all_elements": ["%s+%s" % (m["profile"], m["recipe"]) for m in ms][:200]}}, f, indent=1)
        lines.append(json.dumps(d))
    hdr = ["# C01 section of /verif/known_findings.txt (DESIGN.md 3.5); checks/c01.py reads this copy as well.",
           "# One entry per cluster of non-convergent universe elements (cluster = ordered problem codes of the second run).  key/keys = failure signatures",
           "# \"<profile>|<recipe class = role.field of every recipe>|<problem records of the e2fsck -fn that follows the repairing run: code:inode, runs collapsed>\"",
           "# -- no physical block or group numbers, so the keys survive a shift of the allocation layout of the base images.",
           "# Generated by `python3 checks/c01.py mkknown` from the whole universe (thorough tier: %d non-convergent elements, %d clusters, %d keys) on %s." % (
               len(P), len(order), len(set(signature(m) for m in P)), tree)]
    with open(os.path.join(VERIF, "fixes", "%s_known_findings.txt" % PID), "w") as f:
        f.write("\n".join(hdr + lines) + "\n")
    kf = os.path.join(VERIF, "known_findings.txt")
    old = open(kf).read().split("\n")
    out, done = [], False
    for l in old:
        if l.startswith("{") and json.loads(l).get("property") == PID:
            if not done:
                out += lines; done = True
            continue
        out.append(l)
    if not done:
        out = [x for x in out if x] + lines + [""]
    with open(kf, "w") as f:
        f.write("\n".join(out))
    print("%d elements, %d clusters, %d keys" % (len(P), len(order), len(set(signature(m) for m in P))))


if __name__ == "__main__":
    if len(sys.argv) >= 4 and sys.argv[1] == "mkknown":
        rest = sys.argv[4:]
        make_known(sys.argv[2], sys.argv[3], list(zip(rest[0::2], rest[1::2])))
    else:
        print(__doc__)
