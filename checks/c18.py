"""C18 -- populating from a directory tree is exact; extraction returns the same data.

(1) Model checking (spec/TreeGen.tla + MC_TreeGen): the builder of the abstract tree universe, the property-level
    statement Expect(t) and the implementation-shaped models PopModel (misc/create_inode.c:__populate_fs with its hdlinks
    table keyed by (st_dev, st_ino), set_inode_extra, hole-preserving copy) and RdumpModel (debugfs/dump.c).  TLC explores
    every tree of a small configuration (incl. a mount point: two devices with equal inode numbers) and checks
    InvTreeOK, InvPopulateExact, InvRdumpExact with every Dev* constant FALSE, and that each Dev* constant set TRUE
    produces a counterexample (the invariants bind).
(2) Conformance (spec/Emit_TreeGen + gen/tree.py + spec/Trace_TreeGen.tla): TLC simulates the builder with VERIF_SEED and
    prints the finished trees; each is materialised on the host; per feature profile the scratch-built `mke2fs -d` and,
    separately, a `debugfs -w -f` script (mkdir/write/symlink/mknod) populate an image.  Observations: independent reader
    (reader/ext4read.py) listing incl. content digests and mapped ranges, Ext4Abs!Consistent evaluated by TLC (lib/absstate),
    e2fsck -fn, byte comparison of a second identical run, `debugfs rdump` / `dump -p` / `cat` re-read from the host.
    TLC evaluates Trace_TreeGen on one line per case and names the clauses that fail.
    Hard-link groups range over every non-directory file type (LinkKinds): besides the seeded simulations, sub-universe K is
    emitted by TLC in model-checking mode (every link-shape tree of a small configuration, independent of the seed) and
    sub-universe L simulates larger trees with many names per inode; the debugfs front end uses `ln` (+ `sif links_count`)."""
import os, sys, json, re, shutil, stat, hashlib, time, concurrent.futures as cf
from common import VERIF, fast_tmp, seed, die_broken, NPROC, tool_env, SCRATCH
from common import run as sh
import build, tlc as T, absstate
from evidence import Evidence, Verdict
sys.path.insert(0, os.path.join(VERIF, "gen"))
sys.path.insert(0, os.path.join(VERIF, "reader"))
import tree as G
import ext4read

PID = "C18"
SPEC = os.path.join(VERIF, "spec")
JOBS = max(2, min(6, NPROC // 2))
UUID = "11112222-3333-4444-5555-666677778888"
HASH_SEED = "aaaabbbb-cccc-dddd-eeee-ffff00001111"

PROFILES = {
    "ext2_1k":   dict(args="-t ext2 -b 1024 -N 128", bs=1024, kb=8192),
    "ext3_1k":   dict(args="-t ext3 -b 1024 -N 128 -J size=1", bs=1024, kb=8192),
    "ext4_1k":   dict(args="-t ext4 -b 1024 -N 128 -O metadata_csum,64bit -J size=1", bs=1024, kb=8192),
    "ext4_4k":   dict(args="-t ext4 -b 4096 -N 128 -O metadata_csum,64bit -J size=4", bs=4096, kb=32768),
    "ext4_old":  dict(args="-t ext4 -b 1024 -N 128 -J size=1", bs=1024, kb=8192),
    "inline":    dict(args="-t ext4 -b 1024 -N 128 -O inline_data,metadata_csum -J size=1", bs=1024, kb=8192, inline=1),
    "bigalloc":  dict(args="-t ext4 -b 1024 -N 128 -O bigalloc,metadata_csum,^resize_inode -C 4096 -J size=1", bs=1024, kb=16384),
    "ea_inode":  dict(args="-t ext4 -b 1024 -N 128 -O ea_inode,metadata_csum -J size=1", bs=1024, kb=8192, ea_inode=1),
    "quota":     dict(args="-t ext4 -b 1024 -N 128 -O quota,metadata_csum -J size=1", bs=1024, kb=8192, quota=1),
    "ino128":    dict(args="-t ext3 -b 1024 -N 128 -I 128 -J size=1", bs=1024, kb=8192),
    "nojnl_2k":  dict(args="-t ext4 -b 2048 -N 128 -O ^has_journal,metadata_csum", bs=2048, kb=16384),
}
QUICK_PROFILES = ["ext2_1k", "ext4_1k", "ext4_4k", "inline", "ea_inode", "quota"]

# the simulated universe (constants of Emit_TreeGen / Trace_TreeGen)
UNIVERSE = dict(
    MinNodes=4, MaxNodes=12, MaxDepth=3, MaxFan=12, MaxMounts=0,
    NameClasses='{"n1", "n8", "n64", "n255"}',
    SizeClasses='{"z0", "b1", "b59", "b60", "b61", "b160", "b1023", "b1024", "b1025", "b4095", "b4096", "b4097", "b12289", "b49153", "b40000", "b300k", '
                '"sp_head", "sp_mid", "sp_tail", "sp_blk", "sp_multi"}',
    TargetClasses='{"t1", "t59", "t60", "t61", "t255", "t1023", "t1024", "t4095"}',
    DevClasses='{"dev_small", "dev_large", "dev_zero"}',
    ModeClasses='{"m644", "m600", "m0", "m755", "m4755", "m2750", "m1777", "m7777", "m6711"}',
    OwnerClasses='{"root", "user", "big", "mixed"}',
    MtimeClasses='{"t1970", "t2001", "t2020", "t2038"}',
    XattrClasses='{"none", "small", "two", "blk", "near", "ea"}',
)
NONDIR = '{"reg", "lnk", "chr", "blk", "fifo", "sock"}'
DEVS = dict(LinkKinds=NONDIR, PopLinkTypes=NONDIR, DevModeMask777="FALSE", DevHardlinkByInoOnly="FALSE", DevHoleAsZeros="FALSE", DevRdumpDropsTail="FALSE", DevRdumpSymlinkOwner="FALSE")


def load_known(vd):
    p = os.path.join(VERIF, "fixes", PID + "_known_findings.txt")
    if os.path.exists(p):
        for ln in open(p):
            ln = ln.strip()
            if ln.startswith("{"):
                d = json.loads(ln)
                if d.get("property") == PID:
                    for k in [d["key"]] + list(d.get("keys", [])):
                        vd.known[k] = d


# ------------------------------------------------------------------------------------------------------------ model checking
MC_SMALL = dict(MinNodes=0, MaxNodes=3, MaxDepth=2, MaxFan=2, MaxMounts=1, NameClasses='{"n8"}', SizeClasses='{"b1025", "sp_head"}',
                TargetClasses='{"t59"}', DevClasses='{"dev_small"}', ModeClasses='{"m644", "m4755"}', OwnerClasses='{"user"}',
                MtimeClasses='{"t2001"}', XattrClasses='{"none"}')


MC_LINK = dict(MC_SMALL, MaxNodes=6, MaxFan=2, MaxMounts=2, SizeClasses='{"b1025"}', ModeClasses='{"m644"}')


def write_cfg(path, consts, devs, invariants, spec="Spec", kindseq=None, post=None):
    c = dict(DEVS)
    c.update(consts)
    c.update(devs)
    if kindseq:
        c["KindSeq"] = None
    L = ["SPECIFICATION %s" % spec, "CONSTANTS"]
    for k, v in c.items():
        if k == "KindSeq":
            L.append("  KindSeq <- %s" % kindseq)
        else:
            L.append("  %s = %s" % (k, v))
    for i in invariants:
        L.append("INVARIANT %s" % i)
    if post:
        L.append("POSTCONDITION %s" % post)
    L.append("CHECK_DEADLOCK FALSE")
    with open(path, "w") as f:
        f.write("\n".join(L) + "\n")


def model_check(tier, ev, vd, work):
    mod = os.path.join(SPEC, "MC_TreeGen.tla")
    consts = dict(MC_SMALL)
    if tier == "thorough":
        consts.update(MaxNodes=4, MaxFan=3)
    invs = ["InvTreeOK", "InvPopulateExact", "InvRdumpExact"]
    cfg = os.path.join(work, "mc.cfg")
    write_cfg(cfg, consts, {}, invs, kindseq="KindSeqMC")
    r = T.tlc(mod, cfg, workers=4, timeout=2400, xmx="4g")
    ev.add_tlc(r, "MC_TreeGen: every tree of %s; InvTreeOK, InvPopulateExact (PopModel refines Expect), InvRdumpExact" % json.dumps(consts, sort_keys=True))
    cl = os.path.join(work, "mc_link.cfg")
    link = dict(MC_LINK, MaxFan=3) if tier == "thorough" else MC_LINK
    write_cfg(cl, link, {}, invs, kindseq="KindSeqLink")
    rl = T.tlc(mod, cl, workers=4, timeout=2400, xmx="4g")
    ev.add_tlc(rl, "MC_TreeGen, hard links across two mount points: every tree of dir/reg/hard nodes, %s" % json.dumps(link, sort_keys=True))
    if rl.violated:
        vd.violation("model:link:" + rl.violated, "TreeGen model: %s violated with every deviation off" % rl.violated, {"tlc": rl.out[-4000:]})
    elif not rl.ok:
        die_broken("TLC failed on MC_TreeGen (link configuration): %s\n%s" % (rl.error, rl.out[-1500:]))
    if r.violated:
        vd.violation("model:" + r.violated, "TreeGen model: %s violated with every deviation off" % r.violated, {"tlc": r.out[-4000:]})
    elif not r.ok:
        die_broken("TLC failed on MC_TreeGen: %s\n%s" % (r.error, r.out[-1500:]))
    ces = []
    for dev, inv in (("DevModeMask777", "InvPopulateExact"), ("DevHardlinkByInoOnly", "InvPopulateExact"), ("DevHoleAsZeros", "InvPopulateExact"),
                     ("DevRdumpDropsTail", "InvRdumpExact"), ("DevRdumpSymlinkOwner", "InvRdumpExact")):
        c2 = os.path.join(work, "mc_%s.cfg" % dev)
        if dev == "DevHardlinkByInoOnly":
            write_cfg(c2, MC_LINK, {dev: "TRUE"}, invs, kindseq="KindSeqLink")
        else:
            write_cfg(c2, MC_SMALL, {dev: "TRUE"}, invs, kindseq="KindSeqMC")
        r2 = T.tlc(mod, c2, workers=2, timeout=900, xmx="2g")
        if r2.violated != inv:
            die_broken("MC_TreeGen with %s = TRUE did not produce the %s counterexample: the invariant does not bind (%s %s)\n%s" % (dev, inv, r2.violated, r2.error, r2.out[-800:]))
        ces.append(dev)
    # the link-group partition binds for every file type: leaving any one type out of the hdlinks lookup (the pinned create_inode.c
    # leaves symlinks out; a lookup for regular files only is the other extreme) must produce a counterexample
    kinds = json.loads(NONDIR.replace("{", "[").replace("}", "]"))
    for lt in [[k for k in kinds if k != x] for x in kinds] + [["reg"]]:
        tag = "PopLinkTypes=" + "+".join(lt)
        c2 = os.path.join(work, "mc_lt_%s.cfg" % "_".join(lt))
        write_cfg(c2, MC_SMALL, {"PopLinkTypes": "{" + ", ".join('"%s"' % k for k in lt) + "}"}, invs, kindseq="KindSeqMC")
        r2 = T.tlc(mod, c2, workers=2, timeout=900, xmx="2g")
        if r2.violated != "InvPopulateExact":
            die_broken("MC_TreeGen with %s did not produce the InvPopulateExact counterexample: the link-group partition does not bind (%s %s)\n%s"
                       % (tag, r2.violated, r2.error, r2.out[-800:]))
        ces.append(tag)
    ev.cov["deviation_counterexamples"] = ces


# ------------------------------------------------------------------------------------------------------------ universe
def universe(probe):
    """the universe constants on this host: xattr classes the scratch filesystem cannot store are left out (stated in the evidence)"""
    c = dict(UNIVERSE)
    if not probe["user_xattr"]:
        c["XattrClasses"] = '{"none"}'
    elif not probe["big_xattr"]:
        c["XattrClasses"] = c["XattrClasses"].replace(', "ea"', "")
    if not probe["link_symlink"]:
        c["LinkKinds"] = NONDIR.replace('"lnk", ', "")          # the host gives a symlink no second name: no such group in the universe
    return c


def emitted(ev, r, label):
    """simulation runs of the emitter: states generated while simulating are reported apart from the model-checking numbers"""
    ev.cov.setdefault("emit_runs", []).append({"label": "Emit_TreeGen " + label, "states_generated_in_simulation": r.generated, "wall_s": round(r.wall, 1)})


def emit_trees(n, work, sd, probe, mounts=0, tag="emit", consts=None, inv="EmitTree", kindseq="KindSeqSim"):
    """n simulated behaviours of the builder (seed sd); n = None: model-checking mode, every finished tree of the configuration"""
    c = universe(probe)
    c["MaxMounts"] = mounts
    if consts:
        c.update(consts)
    cfg = os.path.join(work, tag + ".cfg")
    write_cfg(cfg, c, {}, [inv], kindseq=kindseq)
    out = os.path.join(work, tag + "_cat.json")
    if n is None:
        r = T.tlc(os.path.join(SPEC, "Emit_TreeGen.tla"), cfg, workers=1, timeout=1800, xmx="2g", env={"OUT": out})
    else:
        r = T.tlc(os.path.join(SPEC, "Emit_TreeGen.tla"), cfg, workers=1, timeout=1800, xmx="2g", simulate=n, depth=6 * c["MaxNodes"] + 10,
                  env={"OUT": out}, seedval=sd)
    if not r.ok or not os.path.exists(out):
        die_broken("TLC failed on Emit_TreeGen: %s\n%s" % (r.error or r.violated, r.out[-1500:]))
    cat = json.load(open(out))
    trees = []
    seen = set()
    for m in re.finditer(r'<<"TREE", (".*")>>', r.out):
        js = json.loads(m.group(1))
        if js in seen:
            continue
        seen.add(js)
        trees.append(json.loads(js))
    return trees, cat, r


# ------------------------------------------------------------------------------------------------------------ one case
def image_kb(prof, conc):
    total = sum(c["size"] for c in conc)
    kb = prof["kb"]
    while kb * 1024 < 3 * total + 4 * 1024 * 1024:
        kb *= 2
    return kb


def mkfs_cmd(b, prof, img, tree_root=None):
    cmd = [os.path.join(b, "misc", "mke2fs"), "-q", "-F", "-U", UUID, "-E", "hash_seed=" + HASH_SEED] + prof["args"].split()
    if tree_root:
        cmd += ["-d", tree_root]
    return cmd + [img]


def populate(b, prof, frontend, img, kb, root, script):
    """returns (rc, stderr text)"""
    env = tool_env(b)
    if os.path.exists(img):
        os.unlink(img)
    with open(img, "wb") as f:
        f.truncate(kb * 1024)
    if frontend == "mke2fs":
        rc, out, err = sh(mkfs_cmd(b, prof, img, root), env=env, timeout=300)
        return rc, err.decode("utf8", "replace")[-600:]
    rc, out, err = sh(mkfs_cmd(b, prof, img), env=env, timeout=300)
    if rc != 0:
        return rc, "mke2fs: " + err.decode("utf8", "replace")[-600:]
    rc, out, err = sh([os.path.join(b, "debugfs", "debugfs"), "-w", "-f", script, img], env=env, timeout=300)
    txt = (out + err).decode("utf8", "replace")
    FULL = "No free space in the directory"
    lns, sifs = json.load(open(script + ".links")) if os.path.exists(script + ".links") else ([], [])
    if rc == 0 and lns:
        # `ln` does not grow a full directory (ext2fs_link returns EXT2_ET_DIR_NO_SPACE; write / mkdir / symlink / mknod expand and
        # retry by themselves).  What the user of debugfs does: look which names are missing (messages go to stderr and cannot be
        # attributed to a command, so a read-only session asks for every name), repeat those after `expand_dir`, store the link counts
        dfs = os.path.join(b, "debugfs", "debugfs")
        full = [l for l in txt.splitlines() if l.startswith("make_link:") and FULL in l]
        again = []
        if full:
            probe = "".join("imap %s/%s\n" % (x["dir"].rstrip("/"), x["name"]) for x in lns)
            rcp, outp, errp = sh([dfs, "-f", "-", img], env=env, timeout=300, input=probe.encode())
            found, k = [False] * len(lns), -1
            for l in outp.decode("utf8", "replace").splitlines():
                if l.startswith("debugfs: imap "):
                    k += 1
                elif 0 <= k < len(lns) and l.startswith("Inode "):
                    found[k] = True
            again = [x for x, f in zip(lns, found) if not f]
            if rcp != 0 or k != len(lns) - 1 or len(again) != len(full):
                return 1, "ln: %d requests answered '%s', %d names missing" % (len(full), FULL, len(again))
        s2 = "".join("cd %s\nexpand_dir %s\nln %s %s\n" % (x["dir"], x["dir"], x["src"], x["name"]) for x in again) + "".join(x + "\n" for x in sifs)
        with open(script + ".2", "w") as f:
            f.write(s2)
        rc, out, err = sh([dfs, "-w", "-f", script + ".2", img], env=env, timeout=300)
        txt = "\n".join(l for l in txt.splitlines() if l not in full) + "\n" + (out + err).decode("utf8", "replace")
    # debugfs exits 0 whatever its commands report: a command that printed an error is a failed request
    bad = [l for l in txt.splitlines() if not l.startswith("debugfs: ")          # echo of the script line
           and re.search(r"^(\w+): .*(while|Invalid|No space|No free space|not found|exists|denied)|Usage:|Unknown request", l)]
    if rc == 0 and bad:
        rc = 1
    return rc, "\n".join(bad)[-600:] if bad else txt[-300:]


def kind_of(tree, n):
    """the file type of a name: that of the node a "hard" node names (TreeGen!TypeOfNode)"""
    return next(m for m in tree if m["id"] == n["link"])["kind"] if n["kind"] == "hard" else n["kind"]


def image_listing(st, bs):
    runs = {i["ino"]: i["runs"] for i in st.get("inodes", ())}
    out = []
    for t in st.get("tree", ()):
        sz = t["size"]
        rec = {"path": t["path"], "ino": t["ino"], "type": t["type"], "size": sz[1] if sz[0] == 0 else G.M31, "mode": t.get("mode", -1),
               "uid": t.get("uid", -1), "gid": t.get("gid", -1), "nlink": t.get("nlink", -1),
               "mtime": (t["mtime"][1] if t["mtime"][0] == 0 else G.M31) if "mtime" in t else -1,
               "digest": t.get("digest", ""), "target": t.get("target", ""), "rdev": list(t.get("rdev", [0, 0])),
               "xattrs": sorted([k, v] for k, v in t.get("xattrs", {}).items() if not k.startswith("system.")),
               "mapped": sorted([r[0] * bs, (r[0] + r[1]) * bs] for r in runs.get(t["ino"], ()) if (r[0] + r[1]) * bs < (1 << 31))}
        out.append(rec)
    return out


def run_case(a):
    """one (tree, profile, front end) case; executed in a worker process"""
    b, tid, tree, conc, root, pname, frontend, work, probe, want_state = a
    prof = PROFILES[pname]
    env = tool_env(b)
    wd = os.path.join(work, "c_%s_%s_%s" % (tid, pname, frontend))
    os.makedirs(wd, exist_ok=True)
    img, img2 = os.path.join(wd, "a.img"), os.path.join(wd, "b.img")
    script = os.path.join(wd, "script")
    if frontend == "debugfs":
        with open(script, "w") as f:
            f.write(G.debugfs_script(tree, conc, root))
        with open(script + ".links", "w") as f:
            json.dump(G.debugfs_links(tree, conc), f)
    kb = image_kb(prof, conc)
    line = {"e": "case", "key": "%s/%s/%s" % (tid, pname, frontend), "tid": tid, "profile": pname, "frontend": frontend,
            "cfg": {"bs": prof["bs"], "ea_inode": prof.get("ea_inode", 0), "inline": prof.get("inline", 0), "quota": prof.get("quota", 0),
                    "holes": 1 if probe["seek_hole"] else 0, "xattr": 1 if probe["user_xattr"] else 0},
            "tree": tree, "conc": conc, "rc": 0, "img": [], "abs_failed": [], "fsck_rc": -1, "repro": -1, "rdump_run": 0, "rdump_rc": 0,
            "rdump": [], "dump": []}
    info = {"key": line["key"], "err": "", "fsck_out": "", "state": None, "fatal": ""}
    try:
        rc, err = populate(b, prof, frontend, img, kb, root, script)
        line["rc"] = rc if rc >= 0 else 128 - rc
        info["err"] = err
        if rc < 0 or rc >= 124:
            info["fatal"] = "population died: rc %d %s" % (rc, err)
        if rc != 0:
            return line, info
        st = ext4read.project(img)
        if "fatal" in st:
            line["abs_failed"] = ["reader:" + str(st["fatal"])[:80]]
        else:
            line["img"] = image_listing(st, prof["bs"])
            if want_state:
                info["state"] = absstate.strip(st, keep_tree=False)
        rc, out, e2 = sh([os.path.join(b, "e2fsck", "e2fsck"), "-fn", img], env=env, timeout=300)
        line["fsck_rc"] = rc
        if rc != 0:
            info["fsck_out"] = out.decode("utf8", "replace")[-800:]
        rc2, err2 = populate(b, prof, frontend, img2, kb, root, script)
        if rc2 == 0:
            line["repro"] = 1 if sh(["cmp", "-s", img, img2])[0] == 0 else 0
        else:
            line["repro"] = 0
        if frontend == "mke2fs":
            out_dir = os.path.join(wd, "out")
            os.makedirs(out_dir)
            dfs = os.path.join(b, "debugfs", "debugfs")
            rc, out, e3 = sh([dfs, "-R", "rdump / %s" % out_dir, img], env=env, timeout=300)
            txt = (out + e3).decode("utf8", "replace")
            msgs = [l for l in txt.splitlines() if l.startswith(("rdump:", "dump_file:")) or "while" in l]
            line["rdump_run"] = 1
            line["rdump_rc"] = rc if rc != 0 else (1 if msgs else 0)
            info["rdump_out"] = "\n".join(msgs)[-600:]
            line["rdump"] = [{k: r[k] for k in ("path", "type", "size", "digest", "target", "perm", "uid", "gid")} for r in G.listing(out_dir)]
            # dump -p of every regular file in one session, cat of the first three
            regs = [c for n, c in zip(tree, conc) if kind_of(tree, n) == "reg"]
            if regs:
                dd = os.path.join(wd, "dump")
                os.makedirs(dd)
                cmds = "".join("dump -p %s %s/d%d\n" % (c["path"], dd, c["id"]) for c in regs)
                sh([dfs, "-f", "-", img], env=env, timeout=300, input=cmds.encode())
                for c in regs:
                    p = os.path.join(dd, "d%d" % c["id"])
                    data = open(p, "rb").read() if os.path.exists(p) else b"\0missing"
                    stp = os.lstat(p) if os.path.exists(p) else None
                    line["dump"].append({"id": c["id"], "how": "dump", "size": len(data), "digest": G.sha(data),
                                         "perm": stat.S_IMODE(stp.st_mode) & 0o777 if stp else -1, "uid": stp.st_uid if stp else -1, "gid": stp.st_gid if stp else -1})
                for c in regs[:3]:
                    rc, out, e4 = sh([dfs, "-R", "cat %s" % c["path"], img], env=env, timeout=300)
                    line["dump"].append({"id": c["id"], "how": "cat", "size": len(out), "digest": G.sha(out), "perm": -1, "uid": -1, "gid": -1})
            G.cleanup(out_dir)
    except Exception as ex:       # the case could not be observed: broken check, never a violation
        info["fatal"] = "%s: %s" % (type(ex).__name__, ex)
    finally:
        for p in (img, img2):
            if os.path.exists(p) and not os.environ.get("VERIF_C18_KEEP"):
                os.unlink(p)
    return line, info


# ------------------------------------------------------------------------------------------------------------ TLC on the lines
def _run_lines(a):
    cfg, path = a
    r = T.tlc(os.path.join(SPEC, "Trace_TreeGen.tla"), cfg, workers=1, timeout=1500, env={"TRACE": path}, xmx="3g")
    bad = {int(m.group(1)): re.findall(r'"(\w+)"', m.group(2)) for m in re.finditer(r'<<"BADLINE", (\d+), <<(.*?)>>>>', r.out)}
    broken = [int(x) for x in re.findall(r'<<"BROKENLINE", (\d+)>>', r.out)]
    refused = [int(x) for x in re.findall(r'<<"REFUSED", (\d+)>>', r.out)]
    div = [int(x) for x in re.findall(r'<<"DIVERGE", (\d+)>>', r.out)]
    complete = (r.rc == 0 and r.violated is None and r.error is None)
    return dict(bad=bad, brokenlines=broken, refused=refused, div=div, complete=complete, error=r.error or r.violated, tail=r.out[-2500:],
                distinct=r.distinct, generated=r.generated)


def validate_lines(lines, work, tag="l", chunk=24, devs=None):
    cfg = os.path.join(work, tag + "_trace.cfg")
    write_cfg(cfg, dict(UNIVERSE, MaxMounts=4, MaxNodes=64, MaxFan=64), devs or {}, [], spec="TraceSpec", kindseq="KindSeqAll", post="TraceAccepted")
    tasks, spans = [], []
    for ci, i in enumerate(range(0, len(lines), chunk)):
        p = os.path.join(work, "%s%05d.ndjson" % (tag, ci))
        with open(p, "w") as f:
            for ln in lines[i:i + chunk]:
                f.write(json.dumps(ln, sort_keys=True, separators=(",", ":")) + "\n")
        tasks.append((cfg, p)); spans.append(i)
    with cf.ThreadPoolExecutor(max_workers=6) as ex:
        res = list(ex.map(_run_lines, tasks))
    out = dict(bad={}, brokenlines=[], refused=[], div=[], broken=[], distinct=0, generated=0)
    for base, r in zip(spans, res):
        out["distinct"] += r["distinct"]; out["generated"] += r["generated"]
        if not r["complete"]:
            out["broken"].append(r); continue
        for k, v in r["bad"].items():
            out["bad"][base + k - 1] = v
        for nm in ("brokenlines", "refused", "div"):
            out[nm] += [base + k - 1 for k in r[nm]]
    return out


TRACE_KEYS = ("e", "key", "frontend", "cfg", "tree", "conc", "rc", "img", "abs_failed", "fsck_rc", "repro", "rdump_run", "rdump_rc", "rdump", "dump")


def add_consistent(lines, infos):
    idx = [k for k, i in enumerate(infos) if i["state"] is not None]
    if not idx:
        return
    try:
        res = absstate.evaluate([infos[k]["state"] for k in idx], chunk=24, jobs=4)
    except (absstate.AbsStateError, ValueError) as ex:
        die_broken("Ext4Abs evaluation failed: %s" % str(ex)[-1500:])
    for k, v in zip(idx, res):
        lines[k]["abs_failed"] = list(v["failed"])
        infos[k]["state"] = None


def canaries(lines, cat):
    """Binding of the oracle itself: copies of ACCEPTED lines with one recorded field corrupted; TLC must name exactly the clause
    that field belongs to.  Returns [(line, expected clause)]."""
    import copy
    out = []
    done = set()

    def add(clause, l, fn):
        if clause in done:
            return
        c = copy.deepcopy(l)
        if fn(c) is not False:
            done.add(clause)
            c["key"] = "canary:" + clause
            out.append((c, clause))

    def img_of(c, pred):
        ids = {n["id"] for n in c["tree"] if pred(n)}
        paths = {x["path"] for x in c["conc"] if x["id"] in ids}
        r = [x for x in c["img"] if x["path"] in paths]
        return r[0] if r else None

    def mut(pred, field, f, where="img"):
        def fn(c):
            x = img_of(c, pred) if where == "img" else None
            if where == "rdump":
                ids = {n["id"] for n in c["tree"] if pred(n)}
                paths = {y["path"] for y in c["conc"] if y["id"] in ids}
                r = [y for y in c["rdump"] if y["path"] in paths]
                x = r[0] if r else None
            if x is None:
                return False
            x[field] = f(x[field])
        return fn
    for l in lines:
        if l["rc"] != 0 or l["frontend"] != "mke2fs" or not l["rdump_run"]:
            continue
        anyn = lambda n: n["kind"] not in ("hard",)
        reg = lambda n: n["kind"] == "reg"
        add("Mode", l, mut(reg, "mode", lambda v: v ^ 0o4000))
        add("Owner", l, mut(anyn, "uid", lambda v: v + 1))
        add("Mtime", l, mut(anyn, "mtime", lambda v: v - 1))
        add("Content", l, mut(reg, "digest", lambda v: v[:-1] + ("0" if v[-1] != "0" else "1")))
        add("Types", l, mut(lambda n: n["kind"] == "fifo", "type", lambda v: "sock"))
        add("Symlinks", l, mut(lambda n: n["kind"] == "lnk", "target", lambda v: v + "x"))
        add("Rdev", l, mut(lambda n: n["kind"] in ("chr", "blk"), "rdev", lambda v: [v[0], v[1] + 1]))
        add("Xattrs", l, mut(lambda n: n["xattr"] != "none", "xattrs", lambda v: v[:-1]))
        # (a further name of a regular file: a two-name symlink group torn apart is, by design, reported as DevSymlinkLinksSplit)
        add("HardLinks", l, mut(lambda n, t_=l["tree"]: n["kind"] == "hard" and kind_of(t_, n) == "reg", "ino", lambda v: v + 1000))
        def holes(c):
            for n in c["tree"]:
                if n["kind"] == "reg" and cat["sizes"][n["content"]]["holes"]:
                    path = [x["path"] for x in c["conc"] if x["id"] == n["id"]][0]
                    lo = cat["sizes"][n["content"]]["holes"][0][0]
                    for x in c["img"]:
                        if x["path"] == path:
                            x["mapped"] = sorted(x["mapped"] + [[lo, lo + 1024]])
                            return None
            return False
        add("Holes", l, holes)
        add("Names", l, lambda c: c["img"].pop() and None)
        add("Consistent", l, lambda c: c["abs_failed"].append("Canary") )
        add("Fsck", l, lambda c: c.__setitem__("fsck_rc", 4))
        add("Reproducible", l, lambda c: c.__setitem__("repro", 0))
        add("RdBytes", l, mut(reg, "size", lambda v: v + 1, where="rdump"))
        add("RdPerms", l, mut(reg, "perm", lambda v: v ^ 0o100, where="rdump"))
        add("RdOwners", l, mut(lambda n: n["kind"] == "lnk", "gid", lambda v: v + 1, where="rdump"))
        add("RdTargets", l, mut(lambda n: n["kind"] == "lnk", "target", lambda v: v + "y", where="rdump"))
        add("RdNames", l, lambda c: (c["rdump"].pop() and None) if c["rdump"] else False)
        add("DumpCat", l, lambda c: c["dump"][0].__setitem__("digest", "sha256:0") if c["dump"] else False)
        add("DumpPerms", l, lambda c: c["dump"][0].__setitem__("uid", c["dump"][0]["uid"] + 1) if c["dump"] else False)
    return out


def nontrivial_tree(t, cat):
    kinds = {n["kind"] for n in t}
    sparse = any(n["kind"] == "reg" and cat["sizes"][n["content"]]["holes"] for n in t)
    return "hard" in kinds and sparse and bool(kinds & {"chr", "blk", "fifo", "sock"})


def explain(line, info, clauses):
    w = ["clauses %s" % ",".join(clauses)]
    if line["rc"] != 0:
        w.append("population failed rc=%d: %s" % (line["rc"], info["err"][-300:]))
    if "Fsck" in clauses:
        w.append("e2fsck -fn exit %d: %s" % (line["fsck_rc"], info["fsck_out"][-300:].replace("\n", " | ")))
    if "Consistent" in clauses:
        w.append("Ext4Abs conjuncts false: %s" % line["abs_failed"])
    return "; ".join(w)[:900]


def stale_mounts():
    """tmpfs instances a killed run of this check left mounted under the scratch work directory (label c18tree / c18probe);
    mounts below the work directory of a run that is still alive (pid file) are left alone"""
    base = os.path.join(os.environ.get("VERIF_FAST_TMP", SCRATCH), "verif-work") + "/"
    try:
        for ln in open("/proc/self/mounts"):
            f = ln.split()
            mp = f[1].replace("\\040", " ")
            if f[0] in ("c18tree", "c18probe") and mp.startswith(base):
                wd = base + mp[len(base):].split("/")[0]
                try:
                    pid = int(open(os.path.join(wd, ".c18pid")).read())
                    os.kill(pid, 0)
                    continue
                except (OSError, ValueError):
                    pass
                sh(["umount", "-l", mp])
    except OSError:
        pass


# ------------------------------------------------------------------------------------------------------------ entry points
def run(tier):
    import signal
    try:
        signal.signal(signal.SIGTERM, lambda *a: sys.exit(143))        # so that the finally clause unmounts and removes the work directory
    except ValueError:
        pass
    ev = Evidence(PID, tier, "model_checking")
    vd = Verdict(PID, ev)
    load_known(vd)
    work = fast_tmp()
    roots = []
    try:
        with open(os.path.join(work, ".c18pid"), "w") as f:
            f.write(str(os.getpid()))
        stale_mounts()
        try:
            b = build.build()
        except RuntimeError as e:
            die_broken(str(e))
        probe = G.probe_host(os.path.join(work, "probe"))
        if not (probe["mknod"] and probe["sock"] and probe["chown"]):
            die_broken("the scratch filesystem / this user cannot mknod or chown: the tree universe cannot be materialised (%s)" % probe)
        # three sub-universes, so that refusals (symlink target >= block size, xattr value that needs ea_inode) do not eat the coverage:
        #   A  what every profile stores          -> profiles without ea_inode and with blocks < 4 KiB
        #   B  A + the large xattr value class    -> profile ea_inode
        #   C  everything                         -> the 4 KiB profile, and one 1 KiB profile (there most trees of C are refused, as modelled)
        nA, nB, nC, nW, nL = (32, 8, 8, 2, 6) if tier == "quick" else (200, 60, 60, 12, 40)
        profiles = QUICK_PROFILES if tier == "quick" else list(PROFILES)
        profA = [p for p in profiles if not PROFILES[p].get("ea_inode") and PROFILES[p]["bs"] < 4096]
        small = dict(TargetClasses='{"t1", "t59", "t60", "t61", "t255", "t1023"}')
        with cf.ThreadPoolExecutor(max_workers=1) as bg:
            mc = bg.submit(model_check, tier, ev, vd, work)
            uni = universe(probe)
            # the sub-universes are emitted by independent TLC simulations (run side by side)
            jobs = [("A", dict(n=nA, tag="emitA", consts=dict(small, XattrClasses=uni["XattrClasses"].replace(', "ea"', "")))),
                    ("B", dict(n=nB, tag="emitB", consts=small)),
                    ("C", dict(n=nC, tag="emitC", consts={})),
                    # W: wide directories (40..60 entries with long names: several directory blocks, inline directories that outgrow the inode)
                    ("W", dict(n=nW, tag="emitW", kindseq="KindSeqWide",
                               consts=dict(small, MinNodes=40, MaxNodes=60, MaxFan=60, MaxDepth=2, NameClasses='{"n64", "n255"}',
                                           SizeClasses='{"z0", "b1", "b61", "b1025"}', XattrClasses='{"none", "small"}')))]
            # K: the link-shape trees, emitted in model-checking mode (every tree of the configuration, whatever the seed): for every
            #    linkable file type a group of two or three names inside one directory, across directories, above / below its first name
            jobs.append(("K", dict(n=None, tag="emitK", inv="EmitLinkShapes", kindseq="KindSeqShapes",
                                   consts=dict(MinNodes=2, MaxNodes=3, MaxDepth=2, MaxFan=3, NameClasses='{"n8"}', SizeClasses='{"b1025"}',
                                               TargetClasses='{"t61"}', DevClasses='{"dev_small"}', ModeClasses='{"m4755"}', OwnerClasses='{"user"}',
                                               MtimeClasses='{"t2001"}', XattrClasses='{"none"}'))))
            # L: larger trees made of link groups of every file type (many names per inode, all attribute classes)
            jobs.append(("L", dict(n=nL, tag="emitL", kindseq="KindSeqLinks",
                                   consts=dict(small, MinNodes=10, MaxNodes=18, MaxDepth=3, MaxFan=12, SizeClasses='{"z0", "b61", "b1025", "sp_blk"}',
                                               XattrClasses='{"none", "small"}'))))
            if probe["tmpfs"]:
                # X: trees spanning mount points (fresh tmpfs instances number their inodes alike) on which the device half of the
                #    hard-link key matters; TLC keeps only those (Emit_TreeGen!EmitSensitive)
                jobs.append(("X", dict(n=1500 if tier == "quick" else 8000, mounts=2, tag="emitX", inv="EmitSensitive", kindseq="KindSeqLink",
                                       consts=dict(MinNodes=6, MaxNodes=8, MaxDepth=2, MaxFan=4, SizeClasses='{"z0", "b1025"}', XattrClasses='{"none"}'))))
            with cf.ThreadPoolExecutor(max_workers=3) as ex:
                outs = list(ex.map(lambda j: emit_trees(j[1].pop("n"), work, seed(), probe, **j[1]), [(t_, dict(d_)) for t_, d_ in jobs]))
            sets = []
            for (tag, d_), (ts, cat_, r) in zip(jobs, outs):
                if tag == "X":
                    ts = ts[:3 if tier == "quick" else 40]
                if tag == "C":
                    sets_cat = (ts, cat_, r)
                emitted(ev, r, ("sub-universe %s: every finished tree of the configuration (model-checking mode), %d trees" % (tag, len(ts))) if d_["n"] is None else
                        "sub-universe %s: %d simulated behaviours of the tree builder (seed %d), %d distinct finished trees used" % (tag, d_["n"], seed(), len(ts)))
                sets.append((tag, ts))
            ev.cov["cross_device_trees"] = len(sets[-1][1]) if sets[-1][0] == "X" else 0
            # guard on the universe (not a verdict): the link-shape trees cover every linkable type, inside one directory and across
            kinds = set(json.loads(uni.get("LinkKinds", NONDIR).replace("{", "[").replace("}", "]")))
            shapes = set()
            for t in dict(sets)["K"]:
                for n in t:
                    if n["kind"] == "hard":
                        first = next(m for m in t if m["id"] == n["link"])
                        shapes.add((first["kind"], "within" if first["parent"] == n["parent"] else "across"))
            if shapes != {(k_, w_) for k_ in kinds for w_ in ("within", "across")}:
                die_broken("the link-shape sub-universe does not cover every linkable type inside one directory and across directories: %s" % sorted(shapes))
            ev.cov["link_shapes"] = sorted("%s/%s" % x for x in shapes)
            ev.cov["link_kinds"] = sorted(kinds)
            ev.cov["trees_per_sub_universe"] = {t_: len(x_) for t_, x_ in sets}
            ts, cat, r = sets_cat
            trees, concs, cases, tags = [], [], [], []
            for tag, ts in sets:
                for t in ts:
                    k = len(trees)
                    root = os.path.join(work, "t%04d" % k)
                    roots.append(root)
                    try:
                        conc = G.materialise(t, cat, root, probe)
                    except RuntimeError as ex:
                        die_broken("tree %d could not be materialised: %s" % (k, ex))
                    trees.append(t); concs.append(conc); tags.append(tag)
                    if tag in ("A", "W"):
                        ps = profA if tier != "quick" else list(dict.fromkeys([profA[(k + seed()) % len(profA)], profA[(k * 3 + 1 + seed()) % len(profA)]]))
                    elif tag == "B":
                        ps = ["ea_inode"]
                    elif tag == "X":
                        ps = ["ext4_1k"]
                    elif tag == "K":
                        ps = profA + ["ext4_4k"] if tier != "quick" else [profA[(k + seed()) % len(profA)]]
                    elif tag == "L":
                        ps = profA if tier != "quick" else list(dict.fromkeys([profA[(k + seed()) % len(profA)], "ext4_4k"]))
                    else:
                        ps = ["ext4_4k", profA[(k + seed()) % len(profA)]]
                    for p in ps:
                        for fe in (("mke2fs",) if tag == "X" else ("mke2fs", "debugfs")):
                            cases.append((b, "t%04d" % k, t, conc, root, p, fe, work, probe, True))
            t0 = time.time()
            with cf.ProcessPoolExecutor(max_workers=JOBS) as ex:
                res = list(ex.map(run_case, cases, chunksize=2))
            ev.cov["tool_wall_s"] = round(time.time() - t0, 1)
            lines = [r_[0] for r_ in res]
            infos = [r_[1] for r_ in res]
            fatal = [i for i in infos if i["fatal"]]
            if fatal:
                die_broken("case %s could not be observed: %s" % (fatal[0]["key"], fatal[0]["fatal"]))
            t0 = time.time()
            add_consistent(lines, infos)
            ev.cov["consistent_wall_s"] = round(time.time() - t0, 1)
            mc.result()
        t0 = time.time()
        out = validate_lines([{k: l[k] for k in TRACE_KEYS} for l in lines], work)
        ev.cov["trace_wall_s"] = round(time.time() - t0, 1)
        if out["broken"]:
            die_broken("TLC failed on a trace chunk: %s\n%s" % (out["broken"][0]["error"], out["broken"][0]["tail"][-1500:]))
        if out["brokenlines"]:
            k = out["brokenlines"][0]
            die_broken("the concretisation of case %s is not the abstract tree (ConcOK / InUniverse false)" % lines[k]["key"])
        ev.cov["states"] += out["distinct"]; ev.cov["transitions"] += out["generated"]
        bad = out["bad"]
        # the oracle binds: one corrupted field per clause on copies of accepted lines; TLC must reject each and name the clause
        can = canaries([l for k, l in enumerate(lines) if k not in bad], cat)
        oc = validate_lines([{k: c[k] for k in TRACE_KEYS} for c, _ in can], work, tag="canary")
        if oc["broken"] or oc["brokenlines"]:
            die_broken("TLC failed on the corrupted-trace lines: %s" % (oc["broken"][0]["tail"][-800:] if oc["broken"] else "broken line"))
        missed = [cl for k, (c, cl) in enumerate(can) if cl not in oc["bad"].get(k, [])]
        if missed:
            die_broken("corrupted trace lines were not rejected by Trace_TreeGen (clauses %s): the oracle does not bind" % missed)
        ev.cov["corrupted_trace_lines_rejected"] = sorted(cl for _, cl in can)
        if os.environ.get("VERIF_C18_DEBUG"):
            for k in sorted(bad):
                sys.stderr.write("c18: BAD %s %s | %s | %s\n" % (lines[k]["key"], bad[k], infos[k]["err"][-200:], infos[k]["fsck_out"][-300:]))
            sys.stderr.write("c18: refused %s\n" % [lines[k]["key"] for k in out["refused"]])
        # confirmation: re-run each rejected case from scratch and let TLC decide again
        confirmed = {}
        if bad:
            # violations are reported once per (front end, profile, clause): three rejected cases of each are re-run, the rest adds nothing
            per_key, order = {}, []
            for k in sorted(bad):
                ks = [(lines[k]["frontend"], lines[k]["profile"], c) for c in bad[k]]
                if any(per_key.get(x, 0) < 3 for x in ks):
                    order.append(k)
                    for x in ks:
                        per_key[x] = per_key.get(x, 0) + 1
            ev.cov["rejected_cases"] = len(bad)
            ev.cov["rejected_cases_rerun"] = len(order)
            with cf.ProcessPoolExecutor(max_workers=JOBS) as ex:
                again = list(ex.map(run_case, [cases[k][:7] + (os.path.join(work, "again"), probe, True) for k in order]))
            l2 = [a[0] for a in again]; i2 = [a[1] for a in again]
            if any(i["fatal"] for i in i2):
                die_broken("re-run of a rejected case could not be observed: %s" % [i["fatal"] for i in i2 if i["fatal"]][0])
            add_consistent(l2, i2)
            o2 = validate_lines([{k: l[k] for k in TRACE_KEYS} for l in l2], work, tag="conf")
            if os.environ.get("VERIF_C18_DEBUG"):
                sys.stderr.write("c18: confirm %s\n" % o2["bad"])
            if o2["broken"] or o2["brokenlines"]:
                die_broken("TLC failed while confirming: %s" % (o2["broken"][0]["error"] if o2["broken"] else "broken line"))
            for pos, k in enumerate(order):
                if pos not in o2["bad"]:
                    die_broken("rejected case %s was accepted on the re-run (non-deterministic observation)" % lines[k]["key"])
                confirmed[k] = (sorted(set(bad[k]) & set(o2["bad"][pos])), l2[pos], i2[pos])
                if not confirmed[k][0]:
                    die_broken("case %s failed different clauses on the re-run: %s vs %s" % (lines[k]["key"], bad[k], o2["bad"][pos]))
        reported = set()
        for k in sorted(confirmed):
            clauses, l, i = confirmed[k]
            for c in clauses:
                key = c if c.startswith("Dev") else "%s/%s/%s" % (l["frontend"], l["profile"], c)     # a named deviation is its own key
                if key in reported:
                    continue
                reported.add(key)
                vd.violation(key, "%s on profile %s, tree %s: %s" % (l["frontend"], l["profile"], l["tid"], explain(l, i, [c])),
                             {"tree": l["tree"], "profile": l["profile"], "frontend": l["frontend"], "clauses": clauses, "catalogue": cat,
                              "err": i["err"], "fsck_out": i["fsck_out"], "abs_failed": l["abs_failed"]})
        ok_cases = [l for l in lines if l["rc"] == 0]
        ev.cov["evaluations"] = len(lines)
        ev.cov["trees"] = len(trees)
        ev.cov["nodes"] = sum(len(t) for t in trees)
        ev.cov["profiles"] = profiles
        ev.cov["populated"] = len(ok_cases)
        ev.cov["refused_as_modelled"] = len(out["refused"])
        ev.cov["accepted_although_model_refuses"] = [lines[k]["key"] for k in out["div"]][:40]
        ev.cov["rdump_listings"] = sum(1 for l in lines if l["rdump_run"])
        ev.cov["dump_cat_outputs"] = sum(len(l["dump"]) for l in lines)
        ev.cov["consistent_evaluated"] = sum(1 for l in ok_cases if l["img"])
        ev.cov["reproducibility_pairs"] = sum(1 for l in ok_cases if l["repro"] != -1)
        ev.cov["traces_validated_against_impl"] = len(lines) - len(bad)
        ev.cov["host_probe"] = probe
        cls = {}
        for t in trees:
            for n in t:
                for f in ("kind", "content", "mode", "owner", "mtime", "xattr", "nlen"):
                    cls.setdefault(f, set()).add(n[f])
        ev.cov["classes_hit"] = {f: sorted(v) for f, v in cls.items()}
        for k, t in enumerate(trees):
            if nontrivial_tree(t, cat):
                ev.nontrivial(json.dumps(t, sort_keys=True))
        ev.cov["rule"] = ("universe = finished trees of the TreeGen builder (constants %s) simulated by TLC with VERIF_SEED; each tree x profile x "
                          "{mke2fs -d, debugfs script} is one evaluation (quick: two seeded profiles per tree); sub-universe K (link-shape trees, one profile each in quick) "
                          "is enumerated by TLC in model-checking mode and does not depend on the seed; non-trivial = distinct tree holding at "
                          "least one hard-link group, one sparse file and one special file" % json.dumps({k: v for k, v in UNIVERSE.items() if k.startswith(("M",))}, sort_keys=True))
        for l in ok_cases[:3]:
            ev.sample({"case": l["key"], "nodes": [(n["kind"], n["content"], n["mode"], n["owner"], n["mtime"], n["xattr"]) for n in l["tree"]],
                       "fsck_rc": l["fsck_rc"], "consistent": not l["abs_failed"], "repro": l["repro"], "rdump_entries": len(l["rdump"])})
        ev.assumptions = [
            "the oracle of the image is the independent reader (reader/ext4read.py); anything it cannot read is reported as a broken check, never as a violation",
            "holes: one-directional (a host hole must be unmapped in the image; all-zero data blocks may be left unmapped by copy_file); evaluated only "
            "when the scratch filesystem answers SEEK_DATA/SEEK_HOLE (probe: %s) and only for holes the host really reports" % probe["seek_hole"],
            "user xattrs are part of the universe only when the scratch filesystem stores them (probe: %s); symlinks and special files carry none (the kernel refuses user.* there)" % probe["user_xattr"],
            "attributes of the root directory of the source tree are not compared (mke2fs -d copies only its xattrs); /lost+found is expected in every image",
            "debugfs front end = mkdir/write/symlink/mknod/ln issued from the target directory (mknod does not split paths); those commands take no owner, "
            "time, xattr or socket input, so for that front end only names, types, device numbers, content, length, holes, link targets, (write) "
            "permission bits and the hard-link groups are compared",
            "debugfs ln is the raw operation it is documented to be: it adds a name, does not grow a full directory and does not touch i_links_count; "
            "the script does what its user must do -- a request answered 'No free space in the directory' is repeated after expand_dir (which names "
            "are missing is asked in a read-only session), and `sif <first name> links_count <n>` stores the count of every group at the end; the "
            "obligations are the inode each name leads to, the file type of its entry (Consistent / e2fsck) and a consistent filesystem",
            "hard-link groups range over the kinds in LinkKinds = every non-directory type; symlinks are in it only when link(2) on the scratch "
            "filesystem gives a symlink a second name (probe: %s)" % probe["link_symlink"],
            "a request the library refuses (symlink target >= block size; xattr value that needs ea_inode without the feature) carries no obligation; "
            "every other failure to populate is a violation (clause Accepted)",
            "reproducibility: same tree, -U, -E hash_seed, E2FSPROGS_FAKE_TIME, MKE2FS_DETERMINISTIC; two fresh runs compared byte for byte",
            "extraction is observed on the mke2fs -d images (rdump of /, dump -p of every regular file, cat of three); we run as uid 0 so chown in rdump succeeds",
            "sizes stay below 2^31 and times within 1970..2038 (whole seconds), as the property states",
        ]
        return vd.finish()
    finally:
        for r_ in roots:
            G.cleanup(r_)
        G.cleanup(work)


def replay(path):
    d = json.load(open(path))
    rp = d.get("replay", d)
    work = fast_tmp()
    root = os.path.join(work, "tree")
    try:
        b = build.build()
        probe = G.probe_host(os.path.join(work, "probe"))
        tree, cat = rp["tree"], rp["catalogue"]
        conc = G.materialise(tree, cat, root, probe)
        line, info = run_case((b, "replay", tree, conc, root, rp["profile"], rp["frontend"], work, probe, True))
        if info["fatal"]:
            die_broken(info["fatal"])
        add_consistent([line], [info])
        out = validate_lines([{k: line[k] for k in TRACE_KEYS}], work)
        if out["broken"] or out["brokenlines"]:
            die_broken("TLC failed: %s" % (out["broken"][0]["tail"][-800:] if out["broken"] else "concretisation mismatch"))
        print("case %s/%s: rc=%d fsck=%d consistent=%s repro=%d" % (rp["profile"], rp["frontend"], line["rc"], line["fsck_rc"], not line["abs_failed"], line["repro"]))
        print("by hand: materialise the tree (gen/tree.py), then: %s" % " ".join(mkfs_cmd(b, PROFILES[rp["profile"]], "x.img", "TREE" if rp["frontend"] == "mke2fs" else None)))
        if out["bad"]:
            print("VIOLATION property=%s replay=%s  (%s)" % (PID, path, explain(line, info, out["bad"][0])))
            return 1
        print("replay accepted by Trace_TreeGen")
        return 0
    finally:
        G.cleanup(work)
