"""C12 -- an undo file restores the exact previous bytes.

(1) TLC model-checks spec/UndoIo.tla (transcription of lib/ext2fs/undo_io.c and misc/e2undo.c on a device of
    granules): U1 write-ahead / exactly once, U2 e2undo restores the original device over its original length (an
    unfinished record too, and is reported), U3 every key in the unit the header announces, R1/R2 damaged files are
    refused without a write and -n never writes, Layout (writer and reader agree on the file layout), AppendPos (the
    writer -- a reopened one too -- appends behind everything its reader finds in the file).
(2) API level: operation histories run through undo_io_manager over unix_io by harness/undodrv.c, then the real e2undo;
    every call is one line (undo file as found on disk by the driver's own reader of the format), validated by TLC
    against spec/Trace_UndoIo.tla.  The conformance model is UndoIo with the two unrepaired deviations switched on; EVERY
    line of EVERY history must be a step of it (key positions, key block positions, data tags, header, device), the hard
    invariants R1 R2 Layout AppendPos QuietOk stop TLC, the property invariants U1-U3 are evaluated after every line and
    reported (PROPFAIL) without stopping: a history is the known finding showing only if the literal model explained every
    line of it and a deviation was active (QuietOk).  Universe: device sizes of every residue modulo the undo block size
    (a device that ends in a partial undo block), chains of up to three runs, offsets, block size changes; the histories
    that reach each element of the boundary catalogue of Trace_UndoIo (Catalogue) are enumerated over the constants
    (directed_api), TLC reports which elements were reached (CAT) and the check is BROKEN, not passed, if one is missing.
(3) Tool level: every tool with -z (mke2fs, tune2fs, resize2fs, e2fsck, debugfs -w, e2undo -z), single runs and
    chains into ONE undo file, under harness/iotrace.so on the device and the undo file; the system calls are validated
    by TLC against spec/Trace_UndoRun.tla (write-ahead order, exactly once, unit), then e2undo must make the device
    byte-identical to its pre-run copy over the original length (unfinished record: plus the needs-check mark).
    Universe = the hand-written list (offsets, mixed block sizes, undo of the undo, unfinished records) + the product
    operation x base image x image state (journal that needs recovery, orphan list, damage that makes e2fsck restart)
    x device tail (device length not a multiple of the undo block size) enumerated by TLC from spec/UndoRunUniv.tla; an
    enumerated element counts only if its run reached what UndoRunUniv!Expect says (journal replayed, restarted, a later
    run appended behind a key that ends in a short block, ...).
(4) Damage sweep: single bit flips over the checksummed bytes of the undo file (this module's own python reader of the
    format says which bytes those are): plain e2undo must exit non-zero with zero write-class calls on the device;
    -n never writes."""
import os, sys, re, json, random, threading, shutil, subprocess, time, struct, hashlib, ctypes, concurrent.futures as cf
from common import VERIF, fast_tmp, seed, die_broken, NPROC, tool_env, run as crun
import build, tlc as T, tracecheck
from evidence import Evidence, Verdict

PID = "C12"
SPEC = os.path.join(VERIF, "spec")
G = 1024
IOTRACE = os.path.join(VERIF, "harness", "iotrace.so")
JOBS = max(2, min(12, NPROC - 4))
DEVS = dict(DevByteOffTwice="FALSE", DevAbsTiling="FALSE", DevChanUnits="FALSE", DevReopenFull="FALSE", DevExtendShort="FALSE")

# ---------------------------------------------------------------------------------------------- crc32c (own)
_crc_c = None


def _crc_table():
    t = []
    for i in range(256):
        c = i
        for _ in range(8):
            c = (c >> 1) ^ 0x82F63B78 if c & 1 else c >> 1
        t.append(c)
    return t


_TAB = _crc_table()


def load_crc(work):
    """compile harness/c12crc.c (this check's own crc32c) for speed; pure python otherwise"""
    global _crc_c
    so = os.path.join(work, "c12crc.so")
    rc, o, e = crun(["gcc", "-O2", "-shared", "-fPIC", "-o", so, os.path.join(VERIF, "harness", "c12crc.c")], timeout=60)
    if rc == 0:
        lib = ctypes.CDLL(so)
        lib.c12_crc32c.restype = ctypes.c_uint
        lib.c12_crc32c.argtypes = [ctypes.c_uint, ctypes.c_char_p, ctypes.c_size_t]
        _crc_c = lib.c12_crc32c


def crc32c(crc, data):
    if _crc_c:
        return _crc_c(crc & 0xffffffff, bytes(data), len(data))
    for b in data:
        crc = _TAB[(crc ^ b) & 0xff] ^ (crc >> 8)
    return crc


# ---------------------------------------------------------------------------------------------- undo file reader (own)
class UndoFile:
    """Reader of the E2UNDO02 format written from the format description in undo_io.c's header comment:
    block 0 header (512 bytes checksummed), block super_offset superblock copy (1024 bytes, magic inverted, crc in the
    header), key blocks (magic, crc over the whole block, keys of 16 bytes) each followed by the data of its keys."""

    def __init__(self, raw):
        self.raw = raw
        self.ok = False
        self.why = ""
        self.keys = []          # dict(fsblk, size, crc, fileblk, ok)
        self.keyblocks = []     # (file block, ok)
        self.protected = []     # (lo, hi, kind, file block) byte ranges covered by a checksum / the identity check
        if len(raw) < 512 or raw[:8] != b"E2UNDO02":
            self.why = "magic"; self.hdr_ok = False; return
        (self.nkeys, self.soff, self.koff, self.tdb, self.fsbs, self.sb_crc, self.state, self.compat, self.incompat,
         self.rocompat, _pad, self.foff) = struct.unpack_from("<QQQIIIIIIIIQ", raw, 8)
        self.hdr_crc = struct.unpack_from("<I", raw, 508)[0]
        self.hdr_ok = crc32c(0xffffffff, raw[:508]) == self.hdr_crc
        self.protected.append((0, 512, "hdr", 0))
        self.fs_offset = self.foff if self.compat & 1 else 0
        self.finished = bool(self.state & 1)
        if not self.hdr_ok:
            self.why = "hdr crc"; return
        if not (1024 <= self.tdb <= 1048576) or self.fsbs == 0 or self.incompat or self.rocompat:
            self.why = "hdr fields"; return
        tdb = self.tdb
        self.sb = bytearray(raw[self.soff * tdb: self.soff * tdb + 1024])
        self.protected.append((self.soff * tdb, self.soff * tdb + 1024, "sb", self.soff))
        if len(self.sb) == 1024:
            self.sb[56] ^= 0xff; self.sb[57] ^= 0xff
        self.sb_ok = len(self.sb) == 1024 and crc32c(0xffffffff, self.sb) == self.sb_crc
        kpb = tdb // 16 - 1
        lblk = self.koff
        good = self.sb_ok
        i = 0
        while i < self.nkeys:
            kb = raw[lblk * tdb:(lblk + 1) * tdb]
            self.protected.append((lblk * tdb, (lblk + 1) * tdb, "key", lblk))
            if len(kb) != tdb:
                self.why = "short key block"; return
            magic, crc = struct.unpack_from("<II", kb, 0)
            kok = magic == 0xCADECADE and crc32c(0xffffffff, kb[:4] + b"\0\0\0\0" + kb[8:]) == crc
            self.keyblocks.append((lblk, kok))
            if not kok:
                self.why = "key block %d" % lblk; return
            lblk += 1
            for j in range(min(kpb, self.nkeys - i)):
                fsblk, kcrc, size = struct.unpack_from("<QII", kb, 16 + 16 * j)
                if size > 512 * tdb:
                    self.why = "key too long"; return
                dat = raw[lblk * tdb: lblk * tdb + size]
                dok = len(dat) == size and crc32c(0xffffffff, dat) == kcrc
                self.protected.append((lblk * tdb, lblk * tdb + size, "data", lblk))
                self.keys.append(dict(fsblk=fsblk, size=size, crc=kcrc, fileblk=lblk, ok=dok))
                good = good and dok
                lblk += (size + tdb - 1) // tdb
            i += kpb
        self.ok = good
        if not good and not self.why:
            self.why = "data crc / sb crc"

    def data(self, k):
        return self.raw[k["fileblk"] * self.tdb: k["fileblk"] * self.tdb + k["size"]]

    def announced(self, k):
        """device byte position the key announces"""
        return k["fsblk"] * self.fsbs + self.fs_offset

    def matches_device(self, devbytes):
        off = self.fs_offset + 1024
        return bytes(self.sb) == bytes(devbytes[off:off + 1024])


# ---------------------------------------------------------------------------------------------- (1) model checking
MC_QUICK = dict(N=5, MaxLen=6, TdbSizes="{1, 2, 4}", BlkSizes="{1, 2, 4}", Offsets="{0, 1}", KpbPerG=2, MaxExt=2, MaxOps=2,
                MaxRuns=2, MaxSpan=2)
MC_THOROUGH = dict(N=8, MaxLen=10, TdbSizes="{1, 2, 4}", BlkSizes="{1, 2, 4}", Offsets="{0, 1, 3}", KpbPerG=2, MaxExt=2,
                   MaxOps=2, MaxRuns=2, MaxSpan=3)
MC_SIM = dict(N=16, MaxLen=20, TdbSizes="{1, 2, 4}", BlkSizes="{1, 2, 4}", Offsets="{0, 1, 3}", KpbPerG=2, MaxExt=3, MaxOps=9,
              MaxRuns=3, MaxSpan=5)
INVS = ["TypeOK", "U1", "U2", "U3", "R1", "R2", "Layout", "AppendPos"]


def model_check(ev, tier, work, vd):
    cfg = os.path.join(work, "MC_UndoIo.cfg")
    consts = dict(MC_QUICK if tier == "quick" else MC_THOROUGH); consts.update(DEVS)
    T.write_cfg(cfg, spec="Spec", constants=consts, invariants=INVS)
    r = T.tlc(os.path.join(SPEC, "UndoIo.tla"), cfg, workers=4, timeout=240 if tier == "quick" else 3000, xmx="4g",
              coverage=False)
    ev.add_tlc(r, "UndoIo exhaustive BFS N=%(N)s MaxOps=%(MaxOps)s MaxRuns=%(MaxRuns)s MaxSpan=%(MaxSpan)s offsets %(Offsets)s: " % consts + ", ".join(INVS))
    if r.violated:
        vd.violation("model", "invariant %s of UndoIo violated (design-level counterexample)" % r.violated, {"tlc": r.out[-6000:]})
    elif not r.ok:
        die_broken("TLC failed on UndoIo: %s\n%s" % (r.error, r.out[-2000:]))
    # deep random behaviours on the 16-granule device
    cfg2 = os.path.join(work, "SIM_UndoIo.cfg")
    consts = dict(MC_SIM); consts.update(DEVS)
    T.write_cfg(cfg2, spec="Spec", constants=consts, invariants=INVS)
    n = 60 if tier == "quick" else 1200            # per worker
    r = T.tlc(os.path.join(SPEC, "UndoIo.tla"), cfg2, workers=4, timeout=200 if tier == "quick" else 2400, xmx="4g",
              simulate=n, depth=60)
    import re
    m = re.search(r"Progress: (\d+) states checked, (\d+) traces generated", r.out[::-1][:0] or r.out)
    ms = re.findall(r"Progress: (\d+) states checked, (\d+) traces generated", r.out)
    if ms:
        r.generated = int(ms[-1][0]); ev.cov["simulated_behaviours"] = int(ms[-1][1])
    ev.add_tlc(r, "UndoIo simulation N=16 (16 granules, offsets {0,1,3}, undo block and channel block sizes {1,2,4}), %s behaviours of depth <= 60, up to 3 chained runs, 9 calls" % (ms[-1][1] if ms else "?"))
    if r.violated:
        vd.violation("model", "invariant %s of UndoIo violated in simulation" % r.violated, {"tlc": r.out[-6000:]})
    elif r.rc != 0:
        die_broken("TLC simulation failed on UndoIo: %s\n%s" % (r.error, r.out[-2000:]))
    ev.cov["exhaustive"] = True


# ---------------------------------------------------------------------------------------------- (2) API level
# the constants of the API-level universe (granules of 1 KiB): undo block sizes, channel block sizes, filesystem offsets as in
# MC_* below, and device sizes of every residue modulo the largest undo block size (a device whose length is not a multiple of
# the undo block size ends in a partial undo block, saved as a key with a short last block)
API_TDB = (1, 2, 4)
API_BS = (1, 2, 4)
API_SIZES = (24, 25, 26, 27, 40, 42)


def directed_api():
    """The part of the universe that is enumerated, not sampled: for every element of the boundary catalogue of
    spec/Trace_UndoIo.tla (Catalogue) the histories that reach it, over the constants above.  Which elements a history really
    reaches is decided by TLC (CAT lines); the check does not report 'held' unless every element was reached."""
    out = []
    fin = [("e2undo", "-n"), ("e2undo", "-")]
    # chains over a device that ends in a partial undo block: run 1 writes into the partial block, run 2 appends behind it
    # and writes into the partial block again, run 3 appends once more
    for n in API_SIZES:
        for tdb in API_TDB:
            r = n % tdb
            if r == 0:
                continue
            for bs in API_BS:
                tails = []
                if (n // bs) * bs > n - r:                    # the last whole channel block reaches into the partial undo block
                    tails.append("wblk %d 1" % (n // bs - 1))
                tails.append("wbyte %d %d" % ((n - r) * G, r * G))
                tails.append("wblk %d %d" % (((n - r) * G) // (bs * G), -(r * G)) if ((n - r) % bs == 0) else None)
                for tail in [t for t in tails if t]:
                    for runs in (2, 3):
                        cmds = ["open 0 %d" % (tdb * G), "blk %d" % (bs * G), "wblk 0 1", tail, "close 1",
                                "open 0 0", "blk %d" % (bs * G), "wblk %d 1" % (8 // bs), tail, "wblk %d 1" % (12 // bs), "close 1"]
                        if runs == 3:
                            cmds += ["open 0 0", "blk %d" % (bs * G), tail, "wblk %d 2" % (16 // bs), "close %d" % (0 if bs == 2 else 1)]
                        out.append((n, cmds, list(fin)))
    # chains over a file whose last key block is exactly full / one short of full / one over (63 keys per 1 KiB key block)
    for cnt in (62, 63, 64):
        blocks = list(range(2, 2 + 2 * cnt, 2))
        cmds = ["open 0 0", "blk %d" % G] + ["wblk %d 1" % b for b in blocks] + ["close 1",
                "open 0 0", "blk %d" % G, "wblk 3 1", "wblk 2 1", "wblk 5 1", "close 1"]
        out.append((160, cmds, list(fin)))
    # one history per remaining catalogue element
    out.append((24, ["open 0 0", "blk %d" % G, "wblk 4 2", "wblk 4 1", "wblk 6 3", "close 1"], list(fin)))                 # first write wins, extension
    out.append((24, ["open 0 0", "blk %d" % G, "wblk 22 4", "wblk 27 2", "wbyte %d %d" % (30 * G, G), "close 1"], list(fin)))   # past the end, refused
    out.append((24, ["open 0 %d" % (2 * G), "blk %d" % (4 * G), "wblk 1 1", "blk %d" % G, "wblk 9 1", "close 1"], list(fin)))     # units
    for off in (1, 3):
        out.append((24, ["open %d 0" % (off * G), "blk %d" % (2 * G), "wblk 2 2", "close 1", "open %d 0" % (off * G)], list(fin)))
    out.append((24, ["open 0 0", "blk %d" % G, "wblk 4 2", "close 0"], list(fin)))                                           # unfinished
    out.append((24, ["open 0 0", "blk %d" % G, "wblk 4 2", "close 1"], [("tamper",), ("e2undo", "-n"), ("e2undo", "-")]))
    out.append((24, ["open 0 0", "blk %d" % G, "wblk 4 2", "close 1"],
                [("flip", "key", 0, 77), ("e2undo", "-"), ("unflip",), ("flip", "data", 0, 5), ("e2undo", "-n"), ("e2undo", "-"), ("unflip",), ("e2undo", "-")]))
    return out


def gen_api(rng, big=False):
    """one behaviour: list of driver commands (after the reset line) and the device size in granules"""
    if big:
        n = 160
    else:
        n = rng.choice(API_SIZES)
    cmds = []
    off = rng.choice([0, 0, 0, 0, 1, 3, 5]) * G if not big else 0
    nruns = rng.choice([1, 1, 2, 3]) if off == 0 else 1
    refused_reopen = off != 0 and rng.random() < 0.3      # a second run on a filesystem at an offset is refused
    hot = None
    maxlen = n + 8
    fsg = n - off // G            # granules of the "filesystem" on the original device

    def pos(limit):
        nonlocal hot
        if hot is None or rng.random() < 0.3:
            hot = rng.randrange(0, limit)
        return min(max(hot + rng.randint(-4, 4), 0), limit - 1)

    bs = 1
    for r in range(nruns):
        topt = rng.choice([0, 0, 0, 1, 2, 4]) * G
        if big:
            topt = 0
        cmds.append("open %d %d" % (off, topt))
        bs = 1 if big else rng.choice([1, 2, 4])
        cmds.append("blk %d" % (bs * G))
        if big:
            # many single-block keys: key block rollover (63 keys per 1 KiB key block), with the boundary cases
            cnt = rng.choice([61, 62, 63, 64, 65, 70]) if r == 0 else rng.randint(1, 6)
            start = 2 + (r * 140)
            blocks = [b for b in range(2, 158, 2)]
            rng.shuffle(blocks)
            used = blocks[:cnt] if r == 0 else [b + 1 for b in blocks[:cnt]]
            for b in used:
                cmds.append("wblk %d 1" % b)
        else:
            for _ in range(rng.randint(2, 7)):
                k = rng.random()
                if k < 0.12:
                    bs = rng.choice([1, 2, 4]); cmds.append("blk %d" % (bs * G)); continue
                fsblocks = (maxlen - off // G) // bs       # blocks addressable below MaxLen
                if fsblocks < 2:
                    continue
                if k < 0.42:
                    b = pos(fsblocks); c = rng.choice([1, 1, 1, 2, 3, 5, 6])
                    c = min(c, fsblocks - b)
                    cmds.append("wblk %d %d" % (b, c))
                elif k < 0.58:
                    b = pos(fsblocks)
                    room = (fsblocks - b) * bs * G
                    sz = rng.choice([G, 2 * G, 3 * G, 5 * G, 512, 1040, 48, 2 * G + 16, bs * G + 16])
                    sz = min(sz, room)
                    if sz % G and off + b * bs * G + sz > n * G:
                        sz = G * ((sz + G - 1) // G)          # ragged sizes only inside the original device
                        if sz > room:
                            continue
                    cmds.append("wblk %d %d" % (b, -sz))
                elif k < 0.78:
                    lim = (maxlen * G - off)
                    o = rng.choice([pos(lim // G) * G, pos(lim // G) * G + rng.choice([16, 512, 1008])])
                    sz = rng.choice([16, 100 * 16, G, G + 32, 2 * G, 3 * G + 512])
                    sz = min(sz, lim - o)
                    if sz <= 0:
                        continue
                    if (o + sz) % G and off + o + sz > n * G:
                        continue
                    cmds.append("wbyte %d %d" % (o, sz))
                elif refused_reopen:
                    continue
                elif k < 0.9:
                    b = pos(fsblocks); c = min(rng.choice([1, 2, 3]), fsblocks - b)
                    cmds.append("zero %d %d" % (b, c))
                else:
                    lim = fsg // bs
                    if lim < 2:
                        continue
                    b = pos(lim); c = min(rng.choice([1, 2]), lim - b)
                    cmds.append("disc %d %d" % (b, c))
        last = (r == nruns - 1)
        fin = 0 if rng.random() < (0.25 if last else 0.15) else 1
        cmds.append("close %d" % fin)
    if refused_reopen:
        cmds.append("open %d 0" % off)        # compares byte 1024 of the device with the superblock copy: refused
    # e2undo: sometimes damaged first (expected refusals), a dry run, then the real thing
    tail = []
    x = rng.random()
    if x < 0.35:
        for _ in range(rng.randint(1, 3)):
            kind = rng.choice(["hdr", "sb", "key", "data", "data"])
            tail.append(("flip", kind, rng.randrange(0, 1 << 20), rng.randrange(0, 1 << 30)))
            tail.append(("e2undo", rng.choice(["-", "-", "-n"])))
            tail.append(("unflip",))
    elif x < 0.42:
        tail.append(("tamper",)); tail.append(("e2undo", "-n")); tail.append(("e2undo", "-"))
        return n, cmds, tail
    if rng.random() < 0.4:
        tail.append(("e2undo", "-n"))
    tail.append(("e2undo", "-"))
    return n, cmds, tail


def api_script(dev, undo, n, cmds, tail):
    out = ["reset %s %s %d" % (dev, undo, n)] + list(cmds)
    for t in tail:
        if t[0] == "flip":
            out.append("flip %s %d %d" % (t[1], t[2], t[3]))
        elif t[0] == "e2undo":
            out.append("e2undo %s" % t[1])
        else:
            out.append(t[0])
    return out


def run_driver(drv, b, script_lines, work, tag):
    script = os.path.join(work, "api_%s.txt" % tag)
    with open(script, "w") as f:
        f.write("\n".join(script_lines) + "\n")
    out = os.path.join(work, "api_%s.ndjson" % tag)
    env = tool_env(b, {"E2UNDO": os.path.join(b, "misc", "e2undo"), "IOTRACE_SO": IOTRACE})
    with open(script) as fin, open(out, "w") as fout:
        p = subprocess.run([drv], stdin=fin, stdout=fout, stderr=subprocess.PIPE, timeout=3000, env=env)
    return out, p.returncode, p.stderr.decode("utf8", "replace")[-600:]


HARD_INVS = ["PropReport", "R1", "R2", "Layout", "AppendPos", "QuietOk"]


def trace_cfg(work, n, literal=()):
    """cfg of the conformance model: UndoIo with the Dev* constants in `literal` switched on.  Only the invariants that hold
    with or without the deviations are listed (a failure stops TLC: VIOLATION); the property invariants U1-U3 are evaluated by
    Trace_UndoIo after every line and reported as PROPFAIL lines, so that TLC goes on matching the rest of the history."""
    cfg = os.path.join(work, "Trace_UndoIo_%d%s.cfg" % (n, "".join("_" + d for d in literal)))
    # MaxLen: the calls of a history stay below n + 8 granules; e2undo of a file whose keys are in another unit than its header
    # announces (DevChanUnits) writes at key * unit + offset, up to max(API_BS) times further out
    consts = dict(N=n, MaxLen=(max(API_BS) * (n + 8) + max(API_TDB) + 8) if n < 100 else n + 8, TdbSizes="{1}", BlkSizes="{1}", Offsets="{0}",
                  KpbPerG=64, MaxExt=512, MaxOps=1000000, MaxRuns=1000000, MaxSpan=1)
    consts.update(DEVS)
    for d in literal:
        consts[d] = "TRUE"
    T.write_cfg(cfg, spec="TraceSpec", constants=consts, invariants=HARD_INVS, postcondition="TraceAccepted")
    return cfg


# Deviations of the pinned tree that are NOT repaired (their repair changes what tests/u_mke2fs_opt_offset documents, so it
# cannot be a fix: commit): known findings.  The conformance model has both switched on.  EVERY line of EVERY history must be
# a step of that model; a history in which a property invariant fails is the known finding showing only if (TLC decides)
# the model explained every line of it and a deviation was active on some line (Trace_UndoIo!QuietOk).
CONF_DEVS = ("DevAbsTiling", "DevChanUnits")
API_MOD = os.path.join(SPEC, "Trace_UndoIo.tla")


_TLC_SLOTS = threading.BoundedSemaphore(JOBS)


def _api_chunk(args):
    mod, cfg, path, nlines = args
    with _TLC_SLOTS:
        r = T.tlc(mod, cfg, workers=1, timeout=1500, env={"TRACE": path}, xmx="3g")
    if os.environ.get("C12_DEBUG"):
        sys.stderr.write("chunk %s: %d lines %.1fs\n" % (path, nlines, r.wall))
    o = r.out
    accepted = (r.rc == 0 and r.violated is None and r.error is None)
    rejected = bool(re.search(r"postcondition|Invariant \S+ is violated", o, re.I)) and not re.search(
        r"Error evaluating|evaluating the expression|was not in the domain|Attempted to", o)
    res = dict(path=path, accepted=accepted, broken=None, inv=None, fail_line=None, distinct=r.distinct, generated=r.generated, tail=o[-2500:])
    if not accepted and not rejected:
        res["broken"] = r.error or "TLC evaluation error"
        return res
    res["propfail"] = sorted({(int(a), b, tuple(sorted(re.findall(r'"(\w+)"', c)))) for a, b, c in
                              re.findall(r'<<\s*"PROPFAIL",\s*(\d+),\s*"(\w+)",\s*\{([^}]*)\}\s*>>', o)})
    res["cat"] = set(re.findall(r'<<\s*"CAT",\s*"(\w+)"\s*>>', o))
    m = re.search(r'<<\s*"CATALOGUE",\s*\{([^}]*)\}\s*>>', o)
    res["catalogue"] = set(re.findall(r'"(\w+)"', m.group(1))) if m else set()
    if not accepted:
        if r.violated and r.violated != "POSTCONDITION":
            # the error trace ends in the state behind the offending line: state k + 1 is the state after line k (1-based)
            st = [int(x) for x in re.findall(r"^State (\d+):", o, re.M)]
            res["inv"] = r.violated
            res["fail_line"] = (max(st) - 2) if st else 0
        else:
            m = re.search(r"The depth of the complete state graph search is (\d+)", o)
            res["fail_line"] = (int(m.group(1)) - 1) if m else 0          # number of lines matched = index of the first unmatched one
    return res


def api_validate(tbs, cfg, workdir, chunk_lines, mod=API_MOD):
    """(own chunk runner: lib/tracecheck.validate blames the behaviour BEHIND the offending one when an invariant fails on the
    last line of a behaviour, and never looks at the offending one again.)
    tbs: behaviours (lists of lines).  Returns dict(failures=[(behaviour, line, inv or None, tail)], propfail={behaviour:
    [(line, inv, devs)]}, cat, catalogue, distinct, generated).  A chunk that stops at a failing behaviour is continued with
    the behaviours behind it."""
    chunks, cur, curlen = [], [], 0
    for bi, t in enumerate(tbs):
        if cur and curlen + len(t) > chunk_lines:
            chunks.append(cur); cur = []; curlen = 0
        cur.append(bi); curlen += len(t)
    if cur:
        chunks.append(cur)
    out = dict(failures=[], propfail={}, cat=set(), catalogue=set(), distinct=0, generated=0)
    rnd = 0
    while chunks:
        tasks = []
        for ci, chk in enumerate(chunks):
            pth = os.path.join(workdir, "chunk_r%d_%04d.ndjson" % (rnd, ci))
            with open(pth, "w") as f:
                for bi in chk:
                    f.write("\n".join(tbs[bi]) + "\n")
            tasks.append((mod, cfg, pth, sum(len(tbs[bi]) for bi in chk)))
        with cf.ThreadPoolExecutor(max_workers=JOBS) as ex:
            res = list(ex.map(_api_chunk, tasks))
        nxt = []
        for chk, r in zip(chunks, res):
            if r["broken"]:
                die_broken("TLC failed on a trace chunk (%s): %s\n%s" % (os.path.basename(mod), r["broken"], r["tail"][-1500:]))
            out["distinct"] += r["distinct"]; out["generated"] += r["generated"]
            out["cat"] |= r["cat"]; out["catalogue"] |= r["catalogue"]
            starts = []; pos = 0
            for bi in chk:
                starts.append(pos); pos += len(tbs[bi])

            def locate(line0):
                for j in range(len(chk) - 1, -1, -1):
                    if line0 >= starts[j]:
                        return j, line0 - starts[j]
                return 0, 0
            stop = None
            if not r["accepted"]:
                j, k = locate(min(r["fail_line"], pos - 1))
                stop = j
                out["failures"].append((chk[j], k, r["inv"], r["tail"]))
                if j + 1 < len(chk):
                    nxt.append(chk[j + 1:])
            for ln, inv, devs in r["propfail"]:
                j, k = locate(ln - 1)
                if stop is not None and j > stop:
                    continue
                out["propfail"].setdefault(chk[j], [])
                if inv not in [x[1] for x in out["propfail"][chk[j]]]:          # the first line at which each invariant fails
                    out["propfail"][chk[j]].append((k, inv, devs))
        chunks = nxt; rnd += 1
    return out


def api_nontrivial(lines):
    """first-write-wins exercised (a call that saved nothing new although it wrote), a key extension, a key-block
    rollover, or a chain reopen"""
    rew = ext = roll = chain = False
    prev = None; opens = 0
    for ln in lines:
        d = json.loads(ln)
        if d["e"] == "open" and d["ret"] == 0:
            opens += 1
            if opens > 1:
                chain = True
        if d["e"] in ("wblk", "wneg", "wbyte", "zero", "disc") and prev is not None and d["ret"] == 0:
            pk, ck = prev["keys"], d["keys"]
            if ck == pk:
                rew = True
            elif len(ck) == len(pk) and pk and ck[-1][1] > pk[-1][1]:
                ext = True
        if len(d.get("kpos", [])) > 1:
            roll = True
        prev = d
    return rew or ext or roll or chain, (rew, ext, roll, chain)


def api_conformance(ev, vd, tier, work, b, drv, rng):
    nbeh = 300 if tier == "quick" else 4000
    nbig = 6 if tier == "quick" else 40
    behs = directed_api() + [gen_api(rng) for _ in range(nbeh)] + [gen_api(rng, big=True) for _ in range(nbig)]
    ndirected = len(directed_api())
    shards = JOBS
    per = [[] for _ in range(shards)]
    for i, bh in enumerate(behs):
        per[i % shards].append((i, bh))

    def one(si):
        lines = []
        dev = os.path.join(work, "apidev%d.img" % si); undo = os.path.join(work, "apiundo%d.dat" % si)
        for i, (n, cmds, tail) in per[si]:
            lines += api_script(dev, undo, n, cmds, tail)
        return run_driver(drv, b, lines, work, "s%d" % si)

    with cf.ThreadPoolExecutor(max_workers=shards) as ex:
        outs = list(ex.map(one, range(shards)))
    traces = {}
    crashed = False
    for si, (out, rc, err) in enumerate(outs):
        tl = open(out).read().splitlines()
        tb = tracecheck.split_behaviours(tl, lambda s: s.startswith('{"e":"reset"'))
        if rc != 0:
            # the library (or the driver) died in the middle of a history: the behaviour after the last complete one
            k = len(tb) - 1 if tb else 0
            bi, bh = per[si][min(k, len(per[si]) - 1)]
            vd.violation("crash", "undo_io crashed / aborted during an API history (driver exit %d: %s)" % (rc, err.strip()[-200:]),
                         {"kind": "api", "n": bh[0], "script": api_script("DEV", "UNDO", *bh)})
            tb = tb[:-1]; crashed = True
        elif len(tb) != len(per[si]):
            die_broken("instrumentation incomplete: shard %d logged %d of %d behaviours" % (si, len(tb), len(per[si])))
        for (i, bh), t in zip(per[si], tb):
            traces[i] = t
    # validate, grouped by device size (N is a constant of the specification)
    nfail = 0; nval = 0; tot_lines = 0; nknown = 0
    cat = set(); catalogue = set()
    groups = {}
    for n in sorted({bh[0] for bh in behs}):
        idx = [i for i in sorted(traces) if behs[i][0] == n]
        if idx:
            sub = os.path.join(work, "tv%d" % n); os.makedirs(sub, exist_ok=True)
            groups[n] = (idx, trace_cfg(work, n, CONF_DEVS), sub)
    with cf.ThreadPoolExecutor(max_workers=max(1, len(groups))) as ex:       # the TLC processes themselves are capped by _TLC_SLOTS
        gres = dict(zip(groups, ex.map(lambda n: api_validate([traces[i] for i in groups[n][0]], groups[n][1], groups[n][2],
                                                              chunk_lines=450 if n < 100 else 100), groups)))
    for n, (idx, cfg, sub) in groups.items():
        res = gres[n]
        tbs = [traces[i] for i in idx]
        tot_lines += sum(len(t) for t in tbs)
        ev.cov["states"] += res["distinct"]; ev.cov["transitions"] += res["generated"]
        cat |= res["cat"]; catalogue |= res["catalogue"]
        nval += len(tbs)
        failed = set()
        for j, k, inv, tail in res["failures"]:
            bi = idx[j]
            # re-run the history alone before reporting
            rr = api_validate([traces[bi]], cfg, sub, chunk_lines=10 ** 9)
            if not rr["failures"]:
                continue
            _, k, inv, tail = rr["failures"][0]
            nfail += 1; failed.add(bi)
            line = traces[bi][k] if k < len(traces[bi]) else "(end)"
            if inv == "QuietOk":
                pf = [x for x in rr["propfail"].get(0, [])]
                what = "property invariant %s fails although no known deviation is active" % "/".join(sorted({x[1] for x in pf}) or ["?"])
            elif inv:
                what = "invariant %s violated" % inv
            else:
                what = "the real code left the specification (the literal model, known deviations included, does not explain this line)"
            vd.violation("api:%s" % (inv or "rejected"), "%s at line %d of an API history: %s" % (what, k, line[:240]),
                         {"kind": "api", "n": behs[bi][0], "script": api_script("DEV", "UNDO", *behs[bi]), "trace": traces[bi],
                          "first_unmatched_line": k, "tlc_tail": tail[-1500:]})
        # explained line by line, a deviation active, a property invariant fails: the known finding showing
        for j, pfs in res["propfail"].items():
            bi = idx[j]
            if bi in failed:
                continue
            devs = sorted({d for _, _, ds in pfs for d in ds})
            if not devs:
                continue        # QuietOk has reported it
            nknown += 1
            for d in devs:
                vd.violation(d, "API history follows the literal model with %s (%s fails)" % ("+".join(devs), "/".join(sorted({x[1] for x in pfs}))),
                             {"kind": "api", "n": behs[bi][0], "script": api_script("DEV", "UNDO", *behs[bi])})
    ev.cov["api_histories_taking_known_deviation"] = nknown
    ev.cov["api_behaviours"] = nval; ev.cov["api_trace_lines"] = tot_lines; ev.cov["api_directed_histories"] = ndirected
    ev.cov["traces_validated_against_impl"] += nval - nfail
    ev.cov["evaluations"] += nval
    ev.cov["api_catalogue"] = {c: (c in cat) for c in sorted(catalogue)}
    missing = sorted(catalogue - cat)
    if (missing or not catalogue) and not nfail and not crashed:
        die_broken("the API-level universe does not reach the boundary catalogue element(s) %s of Trace_UndoIo" % (", ".join(missing) or "(no catalogue reported)"))
    kinds = [0, 0, 0, 0]
    for i, t in traces.items():
        nt, flags = api_nontrivial(t)
        for j, fl in enumerate(flags):
            kinds[j] += int(fl)
        if nt:
            ev.nontrivial(("api", hash(tuple(api_script("D", "U", *behs[i])))))
    ev.cov["api_nontrivial_by_kind"] = dict(rewritten_block=kinds[0], key_extension=kinds[1], key_block_rollover=kinds[2], chain_reopen=kinds[3])
    if traces:
        ev.sample({"api_script": api_script("DEV", "UNDO", *behs[0])[:14], "first_trace_line": json.loads(traces[0][3]) if len(traces[0]) > 3 else None})


# ---------------------------------------------------------------------------------------------- (3) tool level
DEVNAME = "c12dev.img"
UNDONAME = "c12undo.dat"


def tenv(b, extra=None):
    e = tool_env(b, extra)
    e["E2FSPROGS_UNDO_DIR"] = "none"
    return e


def trace_env(b, work, tag, extra=None):
    e = tenv(b, extra)
    e.update({"LD_PRELOAD": IOTRACE, "VERIF_IOTRACE_TARGET": DEVNAME + ":" + UNDONAME + ":c12undo2.dat",
              "VERIF_IOTRACE_OUT": os.path.join(work, tag + ".iot"), "VERIF_IOTRACE_BLOBS": os.path.join(work, tag + ".blob")})
    return e


def tool(b, name):
    return {"mke2fs": "misc/mke2fs", "tune2fs": "misc/tune2fs", "e2undo": "misc/e2undo", "e2fsck": "e2fsck/e2fsck",
            "debugfs": "debugfs/debugfs", "resize2fs": "resize/resize2fs", "dumpe2fs": "misc/dumpe2fs"}[name]


def payload_bytes(seedv, n):
    out = bytearray()
    x = hashlib.sha256(str(seedv).encode()).digest()
    while len(out) < n:
        x = hashlib.sha256(x).digest(); out += x
    return bytes(out[:n])


# base images: name -> (mke2fs args, fs size in fs blocks, device KiB, populate?)
BASES = {
    "ext4_1k": ("-t ext4 -b 1024 -O metadata_csum,64bit -J size=1 -N 256", 6144, 8192),
    "ext3_1k_i128": ("-t ext3 -b 1024 -I 128 -O ^flex_bg -J size=1 -N 256", 6144, 8192),
    "ext2_2k": ("-t ext2 -b 2048 -N 256", 3072, 8192),
    "ext4_4k": ("-t ext4 -b 4096 -O metadata_csum -J size=4 -N 256", 3072, 16384),
    "ext4_1k_off": ("-t ext4 -b 1024 -O metadata_csum -J size=1 -N 256 -E offset=70656", 4096, 8192),       # 69 KiB: not a multiple of 32 KiB
    "raw": (None, 0, 4096),
}
UUID = "c12c12c1-2c12-4c12-8c12-c12c12c12c12"


def make_base(b, work, name):
    """deterministic base image (cached per work dir)"""
    path = os.path.join(work, "base_" + name + ".img")
    if os.path.exists(path):
        return path
    args, fsblocks, kib = BASES[name]
    with open(path, "wb") as f:
        f.write(payload_bytes("base" + name, kib * 1024))
    if args is None:
        return path
    env = tenv(b)
    cmd = [os.path.join(b, tool(b, "mke2fs")), "-q", "-F", "-U", UUID, "-E", "hash_seed=" + UUID] + args.split()
    # merge -E options
    es = [cmd[i + 1] for i in range(len(cmd) - 1) if cmd[i] == "-E"]
    cmd2 = []
    skip = False
    for i, c in enumerate(cmd):
        if skip:
            skip = False; continue
        if c == "-E":
            skip = True; continue
        cmd2.append(c)
    cmd2 += ["-E", ",".join(es), path, str(fsblocks)]
    rc, o, e = crun(cmd2, env=env, timeout=120)
    if rc != 0:
        die_broken("cannot build base image %s: %s" % (name, e.decode()[-400:]))
    offs = [x for x in ",".join(es).split(",") if x.startswith("offset=")]
    devarg = path + ("?" + offs[0] if offs else "")
    src = os.path.join(work, "src_" + name); os.makedirs(src, exist_ok=True)
    script = ["mkdir d1", "mkdir d1/d2"]
    for i, sz in enumerate([100, 5000, 70000, 300000, 20]):
        p = os.path.join(src, "f%d" % i)
        with open(p, "wb") as f:
            f.write(payload_bytes("file%d" % i, sz))
        script.append("write %s %s" % (p, ("d1/f%d" % i) if i % 2 else ("f%d" % i)))
    script += ["symlink sl f0", "mknod pipe p"]
    sp = os.path.join(work, "pop_" + name + ".cmd")
    open(sp, "w").write("\n".join(script) + "\n")
    rc, o, e = crun([os.path.join(b, tool(b, "debugfs")), "-w", "-f", sp, devarg], env=env, timeout=120)
    rc, o, e = crun([os.path.join(b, tool(b, "e2fsck")), "-fy", devarg], env=env, timeout=120)
    rc, o, e = crun([os.path.join(b, tool(b, "e2fsck")), "-fn", devarg], env=env, timeout=120)
    if rc != 0:
        die_broken("base image %s is not clean after population: %s" % (name, o.decode()[-400:]))
    return path


def fs_offset_of(base):
    a = BASES[base][0] or ""
    for x in a.replace(",", " ").split():
        if x.startswith("offset="):
            return int(x[7:])
    return 0


# one recorded step: (tool, argv template, extra env); {dev} {undo} {devq} = dev + ?offset
def step_argv(b, st, dev, undo, off):
    devq = dev + ("?offset=%d" % off if off else "")
    t = st["tool"]
    a = [x.replace("{undo}", undo).replace("{devq}", devq).replace("{dev}", dev).replace("{off}", str(off)) for x in st["args"]]
    return [os.path.join(b, tool(b, t))] + a


def S(tool_, *args, **kw):
    d = dict(tool=tool_, args=list(args)); d.update(kw); return d


def damage_fs(path, off, how):
    """corrupt a filesystem image so that e2fsck -fy has repairs to write (raw byte damage, deterministic)"""
    with open(path, "r+b") as f:
        f.seek(off + 1024); sb = f.read(1024)
        bs = 1024 << struct.unpack_from("<I", sb, 24)[0]
        first = struct.unpack_from("<I", sb, 20)[0]
        f.seek(off + (first + 1) * bs); gd = f.read(32)
        bbm, ibm, itb = struct.unpack_from("<III", gd, 0)
        if how == "bitmap":
            f.seek(off + bbm * bs + 40); f.write(b"\0" * 24)
        elif how == "inode":
            isz = struct.unpack_from("<H", sb, 88)[0]
            f.seek(off + itb * bs + isz * 11 + 4); f.write(b"\xff\xff\xff\x7f")      # inode 12: absurd size
            f.seek(off + itb * bs + isz * 12 + 26); f.write(b"\x09\x00")             # inode 13: wrong link count
        elif how == "dirent":
            f.seek(off + ibm * bs); f.write(b"\0" * 4)


def tool_scenarios(tier, rng):
    """closed universe of recorded runs and chains; quick takes a seeded subset that keeps one of every tool"""
    mk = lambda *a: S("mke2fs", "-q", "-F", "-z", "{undo}", *a)
    tu = lambda *a: S("tune2fs", "-z", "{undo}", *a, "{devq}")
    sc = []

    def add(name, base, steps, **kw):
        d = dict(name=name, base=base, steps=steps); d.update(kw); sc.append(d)
    # --- mke2fs
    for bs in (1024, 2048, 4096):
        add("mke2fs_raw_b%d" % bs, "raw", [mk("-b", str(bs), "{dev}")], core=(bs == 1024))
        add("mke2fs_over_ext4_b%d" % bs, "ext4_1k", [mk("-t", "ext4", "-b", str(bs), "{dev}")], core=(bs == 4096))
    add("mke2fs_ext4_noninit", "raw", [mk("-t", "ext4", "-b", "1024", "-E", "lazy_itable_init=0,lazy_journal_init=0", "{dev}")])
    add("mke2fs_past_end", "raw", [mk("-b", "1024", "{dev}", "6000")])            # filesystem larger than the file: writes past the old end
    for off in (1024, 2048, 30720, 31744, 70656, 96255, 524288):
        for bs in (1024, 4096):
            add("mke2fs_off%d_b%d" % (off, bs), "raw", [mk("-b", str(bs), "-E", "offset=%d" % off, "{dev}", str(2048 if bs == 1024 else 512))],
                core=(off in (30720, 96255) and bs == 1024))
    # --- tune2fs
    for base in ("ext4_1k", "ext4_4k", "ext2_2k", "ext4_1k_off"):
        add("tune2fs_L_%s" % base, base, [tu("-L", "c12label")], core=(base in ("ext4_1k", "ext4_1k_off")))
        add("tune2fs_U_%s" % base, base, [tu("-U", "01234567-89ab-cdef-0123-456789abcdef")], core=(base == "ext4_4k"))
    for base in ("ext4_1k", "ext4_4k", "ext4_1k_off"):
        add("tune2fs_nojournal_%s" % base, base, [tu("-O", "^has_journal")], core=(base == "ext4_4k"))
        add("tune2fs_nocsum_%s" % base, base, [tu("-O", "^metadata_csum")], core=(base == "ext4_1k"))
    add("tune2fs_journal_ext2_2k", "ext2_2k", [tu("-j")], core=True)
    add("tune2fs_I256", "ext3_1k_i128", [tu("-I", "256")], core=True)
    add("tune2fs_extent_uninit", "ext3_1k_i128", [tu("-O", "extent,uninit_bg,dir_index")])
    # --- resize2fs
    add("resize_grow_1k", "ext4_1k", [S("resize2fs", "-z", "{undo}", "{dev}", "8192")], core=True)
    add("resize_shrink_1k", "ext4_1k", [S("resize2fs", "-z", "{undo}", "{dev}", "3000")], core=True)
    add("resize_grow_4k", "ext4_4k", [S("resize2fs", "-z", "{undo}", "{dev}", "4096")])
    add("resize_shrink_2k", "ext2_2k", [S("resize2fs", "-z", "{undo}", "{dev}", "1500")])
    add("resize_grow_past_end", "ext4_1k", [S("resize2fs", "-z", "{undo}", "{dev}", "10000")])
    # --- e2fsck on a damaged image
    for how in ("bitmap", "inode", "dirent"):
        for base in ("ext4_1k", "ext2_2k", "ext4_1k_off"):
            add("e2fsck_%s_%s" % (how, base), base, [S("e2fsck", "-fy", "-z", "{undo}", "{devq}", okrc=(0, 1, 2, 3))], damage=how,
                core=(how == "inode" and base == "ext4_1k") or (how == "bitmap" and base == "ext4_1k_off"))
    add("e2fsck_D_ext4_1k", "ext4_1k", [S("e2fsck", "-fyD", "-z", "{undo}", "{devq}", okrc=(0, 1, 2, 3))])
    # --- debugfs -w
    dbg = lambda *cmds: S("debugfs", "-w", "-z", "{undo}", "-f", "@" + "\n".join(cmds), "{devq}")
    add("debugfs_edit_ext4_1k", "ext4_1k", [dbg("mkdir nd", "write {src} nd/new", "rm f2", "unlink sl", "sif f0 mtime 12345", "punch d1/f3 2 40")], core=True)
    add("debugfs_edit_ext2_2k", "ext2_2k", [dbg("mkdir nd", "write {src} nd/new", "rm f2", "rmdir d1/d2", "ssv mnt_count 7")])
    add("debugfs_edit_ext4_4k", "ext4_4k", [dbg("write {src} big", "rm d1/f1", "set_bg 0 checksum calc", "dirty")])
    add("debugfs_edit_off", "ext4_1k_off", [dbg("mkdir nd", "write {src} nd/new", "rm f2")], core=True)
    # first run leaves exactly one full key block (63 keys of 16 bytes in a 1 KiB block), the second run appends
    add("debugfs_zap63", "ext4_1k", [dbg(*["zap_block -p 0x55 %d" % (3001 + 2 * i) for i in range(63)]), tu("-O", "^has_journal")], core=True,
        full_keyblock=True)
    # --- chains into one undo file
    add("chain_tune_resize", "ext4_1k", [tu("-O", "^has_journal"), S("resize2fs", "-z", "{undo}", "{dev}", "8192")], core=True)
    add("chain_mke2fs_debugfs_fsck", "raw", [mk("-t", "ext4", "-b", "1024", "{dev}"), dbg("mkdir a", "write {src} a/x"), S("e2fsck", "-fyD", "-z", "{undo}", "{dev}", okrc=(0, 1))], core=True)
    add("chain_mke2fs_1k_4k", "raw", [mk("-b", "1024", "{dev}"), mk("-b", "4096", "{dev}")], core=True)
    add("chain_mke2fs_4k_1k", "raw", [mk("-b", "4096", "{dev}"), mk("-b", "1024", "{dev}")])
    add("chain_tune_mke2fs4k", "ext4_1k", [tu("-L", "x"), mk("-t", "ext4", "-b", "4096", "{dev}")], core=True)
    add("chain_tune_tune_tune", "ext4_4k", [tu("-O", "^has_journal"), tu("-L", "second"), tu("-O", "^metadata_csum")])
    add("chain_i256_fsck_resize", "ext3_1k_i128", [tu("-I", "256"), S("e2fsck", "-fy", "-z", "{undo}", "{dev}", okrc=(0, 1)), S("resize2fs", "-z", "{undo}", "{dev}", "8000")])
    add("chain_resize_shrink_grow", "ext2_2k", [S("resize2fs", "-z", "{undo}", "{dev}", "2000"), S("resize2fs", "-z", "{undo}", "{dev}", "3500")])
    add("chain_debugfs_tune_off", "ext4_1k_off", [dbg("mkdir q"), tu("-L", "y")], expect_refuse_step=1)
    # --- undo of the undo
    add("undo_undo_tune", "ext4_1k", [tu("-O", "^has_journal,^metadata_csum")], undo_undo=True, core=True)
    add("undo_undo_mke2fs", "ext4_4k", [mk("-t", "ext4", "-b", "1024", "{dev}")], undo_undo=True)
    add("undo_undo_chain", "raw", [mk("-b", "2048", "{dev}"), tu("-L", "zz")], undo_undo=True)
    # --- abnormal end of the last recording run
    add("unfin_tune", "ext4_1k", [tu("-O", "^has_journal")], unfinished=True, core=True)
    add("unfin_debugfs", "ext2_2k", [dbg("mkdir nd", "write {src} nd/new", "rm f2")], unfinished=True)
    add("unfin_resize", "ext4_4k", [S("resize2fs", "-z", "{undo}", "{dev}", "4096")], unfinished=True)
    add("unfin_mke2fs_raw", "raw", [mk("-b", "1024", "{dev}")], unfinished=True, core=True)
    add("unfin_chain", "ext4_1k", [tu("-L", "a"), S("resize2fs", "-z", "{undo}", "{dev}", "7000")], unfinished=True)
    add("unfin_fsck", "ext4_1k", [S("e2fsck", "-fy", "-z", "{undo}", "{devq}", okrc=(0, 1, 2, 3))], damage="inode", unfinished=True)
    if tier == "quick":
        core = [s for s in sc if s.get("core")]
        rest = [s for s in sc if not s.get("core")]
        rng.shuffle(rest)
        return core + rest[:max(0, 40 - len(core))]
    return sc


# ---- the product part of the universe: enumerated by spec/UndoRunUniv.tla (Emit_UndoRunUniv), bound to argv here
def _dbg(*cmds):
    return S("debugfs", "-w", "-z", "{undo}", "-f", "@" + "\n".join(cmds), "{devq}")


FSCK_RC = (0, 1, 2, 3)
TOOL_OPS = {
    "fsck_fy": lambda c: S("e2fsck", "-fy", "-z", "{undo}", "{devq}", okrc=FSCK_RC),
    "fsck_y": lambda c: S("e2fsck", "-y", "-z", "{undo}", "{devq}", okrc=FSCK_RC),
    "fsck_p": lambda c: S("e2fsck", "-p", "-z", "{undo}", "{devq}", okrc=FSCK_RC),
    "fsck_fyD": lambda c: S("e2fsck", "-fyD", "-z", "{undo}", "{devq}", okrc=FSCK_RC),
    "fsck_fyE": lambda c: S("e2fsck", "-fy", "-E", "bmap2extent", "-z", "{undo}", "{devq}", okrc=FSCK_RC),
    "csum_on": lambda c: S("tune2fs", "-z", "{undo}", "-O", "metadata_csum", "{devq}"),
    "csum_off_uninit": lambda c: S("tune2fs", "-z", "{undo}", "-O", "^metadata_csum,uninit_bg", "{devq}"),
    "csum_seed_uuid": lambda c: S("tune2fs", "-z", "{undo}", "-O", "metadata_csum_seed", "-U", "01234567-89ab-cdef-0123-456789abcdef", "{devq}"),
    "uuid_set": lambda c: S("tune2fs", "-z", "{undo}", "-U", "89abcdef-0123-4567-89ab-cdef01234567", "{devq}"),
    "ext4_features": lambda c: S("tune2fs", "-z", "{undo}", "-O", "extent,huge_file,dir_nlink,extra_isize,metadata_csum", "{devq}"),
    "quota_on": lambda c: S("tune2fs", "-z", "{undo}", "-O", "quota", "{devq}"),
    "project_quota": lambda c: S("tune2fs", "-z", "{undo}", "-O", "project", "-Q", "prjquota", "{devq}"),
    "flex_off": lambda c: S("tune2fs", "-z", "{undo}", "-O", "^flex_bg", "{devq}"),
    "orphan_file_on": lambda c: S("tune2fs", "-z", "{undo}", "-O", "orphan_file", "{devq}"),
    "journal_cycle": lambda c: S("tune2fs", "-z", "{undo}", "-O", "^has_journal", "-j", "{devq}"),
    "label": lambda c: S("tune2fs", "-z", "{undo}", "-L", "c12dirty", "{devq}"),
    "to32": lambda c: S("resize2fs", "-z", "{undo}", "-s", "{dev}"),
    "to64": lambda c: S("resize2fs", "-z", "{undo}", "-b", "{dev}"),
    "minimum": lambda c: S("resize2fs", "-z", "{undo}", "-M", "{dev}"),
    "grow_dev": lambda c: S("resize2fs", "-z", "{undo}", "{dev}"),
    "grow_stride": lambda c: S("resize2fs", "-z", "{undo}", "-S", "16", "{dev}", str(c["fsblocks"] + (c["devkib"] // c["bs"] - c["fsblocks"]) // 2)),
    "shrink_half": lambda c: S("resize2fs", "-z", "{undo}", "{dev}", str(c["fsblocks"] // 2 + 200)),
    "journal_write": lambda c: _dbg("jo", "jw -b %d,%d,%d {src}" % (c["fsblocks"] - 100, c["fsblocks"] - 101, c["fsblocks"] - 200), "jc",
                                    "jo", "jw -b %d -r %d {src}" % (c["fsblocks"] - 102, c["fsblocks"] - 101), "jc"),
    "journal_write_run": lambda c: _dbg("jo", "jw -b %d,%d {src}" % (c["fsblocks"] - 100, c["fsblocks"] - 200), "jc", "jr"),
    "journal_run": lambda c: _dbg("jr"),
    "edit": lambda c: _dbg("mkdir nd", "write {src} nd/new", "rm f4", "sif f0 mtime 12345"),
    "mkfs_ext4_1k": lambda c: S("mke2fs", "-q", "-F", "-z", "{undo}", "-t", "ext4", "-b", "1024", "{dev}"),
    "mkfs_plain_1k": lambda c: S("mke2fs", "-q", "-F", "-z", "{undo}", "-b", "1024", "{dev}"),
    "dbg_tail_blocks": lambda c: _dbg("zap_block -p 0x55 %d" % (c["fsblocks"] - 1), "zap_block -p 0xaa %d" % (c["fsblocks"] - 200)),
    "dbg_populate": lambda c: _dbg("mkdir a", "write {src} a/x"),
    "tune_label": lambda c: S("tune2fs", "-z", "{undo}", "-L", "c12", "{devq}"),
    "tune_journal_off": lambda c: S("tune2fs", "-z", "{undo}", "-O", "^has_journal", "{devq}"),
    "tune_journal_on": lambda c: S("tune2fs", "-z", "{undo}", "-j", "{devq}"),
    "resize_shrink_1k": lambda c: S("resize2fs", "-z", "{undo}", "{dev}", "3000"),
}


def spec_universe(work):
    """the product universe, as TLC enumerates it from spec/UndoRunUniv.tla"""
    out = os.path.join(work, "undorun_universe.json")
    r = T.tlc(os.path.join(SPEC, "Emit_UndoRunUniv.tla"), os.path.join(SPEC, "Emit_UndoRunUniv.cfg"), workers=1, timeout=300, env={"OUT": out}, xmx="1g")
    if not r.ok or not os.path.exists(out):
        die_broken("TLC could not enumerate the tool-level universe (Emit_UndoRunUniv): %s\n%s" % (r.error, r.out[-1500:]))
    u = json.load(open(out))
    names = [e["name"] for e in u["universe"]]
    if len(set(names)) != len(names) or not names:
        die_broken("the tool-level universe has duplicate or no element names")
    for e in u["universe"]:
        for st in e["steps"]:
            if st not in TOOL_OPS:
                die_broken("operation %s of spec/UndoRunUniv.tla has no argv binding in checks/c12.py" % st)
    return u


def check_base_facts(b, work, facts):
    """BaseFacts of UndoRunUniv.tla must be facts of the base images this check built (read with dumpe2fs)"""
    for name, f in facts.items():
        if name not in BASES:
            die_broken("UndoRunUniv.tla names the base image %s, which checks/c12.py does not build" % name)
        if not f["fs"]:
            continue
        rc, o, e = crun([os.path.join(b, tool(b, "dumpe2fs")), "-h", make_base(b, work, name)], env=tenv(b), timeout=60)
        txt = o.decode("utf8", "replace")
        feat = (re.search(r"Filesystem features:\s*(.*)", txt) or [None, ""])[1].split()
        got = dict(fs=True, bs=int(re.search(r"Block size:\s*(\d+)", txt).group(1)) // 1024, journal="has_journal" in feat, csum="metadata_csum" in feat,
                   extents="extent" in feat, flex="flex_bg" in feat, isize=int(re.search(r"Inode size:\s*(\d+)", txt).group(1)), bits64="64bit" in feat)
        if got != {k: f[k] for k in got}:
            die_broken("BaseFacts[%s] of UndoRunUniv.tla is %s but the image has %s" % (name, f, got))


def spec_scenarios(u, tier, rng):
    """universe elements -> scenarios; quick = the core elements + one seeded element of every stratum"""
    el = sorted(u["universe"], key=lambda e: e["name"])
    if tier == "quick":
        chosen = [e for e in el if e["core"]]
        strata = {}
        for e in el:
            if not e["core"]:
                strata.setdefault(e["stratum"], []).append(e)
        for k in sorted(strata):
            chosen.append(rng.choice(strata[k]))
    else:
        chosen = el
    out = []
    for e in chosen:
        args, fsblocks, kib = BASES[e["base"]]
        bs = (u["facts"][e["base"]]["bs"] or 1)
        ctx = dict(fsblocks=fsblocks, devkib=kib + e["tail"], bs=bs)
        steps = []
        for i, st in enumerate(e["steps"]):
            if i > 0 and e["steps"][0].startswith("mkfs_"):
                ctx = dict(fsblocks=(kib + e["tail"]) // 4 * 4, devkib=kib + e["tail"], bs=1)        # mke2fs -b 1024 took the whole device, rounded down to 4 KiB
            steps.append(TOOL_OPS[st](ctx))
        out.append(dict(name="u:" + e["name"], base=e["base"], steps=steps, state=e["state"], tail=e["tail"], spec=True, expect=sorted(e["expect"])))
    return out


def _ino_of(b, dev, off, name):
    devq = dev + ("?offset=%d" % off if off else "")
    rc, o, e = crun([os.path.join(b, tool(b, "debugfs")), "-R", "stat " + name, devq], env=tenv(b), timeout=60)
    m = re.search(r"Inode:\s*(\d+)", o.decode("utf8", "replace"))
    if not m:
        die_broken("cannot prepare an image state: no inode for %s" % name)
    return int(m.group(1))


def prepare_state(b, sdir, dev, off, state, src):
    """put the image into the state the recorded tool is to find (UndoRunUniv!States); plain debugfs, before the recorded run"""
    devq = dev + ("?offset=%d" % off if off else "")
    sb = open(dev, "rb").read()[off + 1024: off + 2048]
    fsblocks = struct.unpack_from("<I", sb, 4)[0]
    incompat = struct.unpack_from("<I", sb, 96)[0]

    def dbg(cmds, tag):
        sp = os.path.join(sdir, "state_%s.cmd" % tag)
        open(sp, "w").write("\n".join(cmds) + "\n")
        rc, o, e = crun([os.path.join(b, tool(b, "debugfs")), "-w", "-f", sp, devq], env=tenv(b), timeout=120)
        if rc != 0:
            die_broken("cannot prepare the image state %s: debugfs exit %d: %s" % (state, rc, e.decode("utf8", "replace")[-200:]))
    if state in ("orphans", "nr_orphans"):
        i2, i3 = _ino_of(b, dev, off, "f2"), _ino_of(b, dev, off, "d1/f3")
        dbg(["unlink f2", "sif <%d> links_count 0" % i2, "sif <%d> size 1000" % i3, "sif <%d> dtime %d" % (i3, i2), "ssv last_orphan %d" % i3], "orph")
    if state in ("needs_recovery", "nr_orphans"):
        dbg(["jo", "jw -b %d,%d,%d %s" % (fsblocks - 50, fsblocks - 51, fsblocks - 300, src), "jc"], "nr")
        sb = open(dev, "rb").read()[off + 1024: off + 2048]
        if not struct.unpack_from("<I", sb, 96)[0] & 0x4:
            die_broken("cannot prepare the image state %s: needs_recovery is not set after the journal write" % state)
    if state == "restart":
        cmds = (["sif f2 flags 0"] if incompat & 0x40 else []) + ["sif f2 block[%d] %d" % (i, 2147480000 + i) for i in range(15)]
        dbg(cmds, "restart")


def read_iotrace(path):
    ev = []
    if not os.path.exists(path):
        return ev
    for ln in open(path):
        ln = ln.strip()
        if ln:
            ev.append(json.loads(ln))
    return ev


def convert_trace(events, blob, dev0, uf, prior=None):
    """iotrace events of recorded runs -> S / W events in byte positions (before renumbering into cells).
    dev0: bytes of the device before the first recorded run; uf: UndoFile of the finished undo file."""
    dev = bytearray(dev0)
    len0 = len(dev0)
    tdb = uf.tdb
    where = {}
    for k in uf.keys:
        pos = uf.announced(k)
        nb = (k["size"] + tdb - 1) // tdb
        for j in range(nb):
            where[k["fileblk"] + j] = (pos + j * tdb, min(tdb, k["size"] - j * tdb))
    seen = {}
    out = []
    for e in events:
        kind = e["e"]
        if kind in ("open", "close", "fsync"):
            continue
        if e.get("fail"):
            continue
        off = (e.get("off_hi", 0) << 31) | e.get("off_lo", 0)
        ln = e.get("len", 0)
        pl = None
        if e.get("blob_lo", -1) >= 0:
            bo = (e["blob_hi"] << 31) | e["blob_lo"]
            pl = blob[bo:bo + ln]
        if e["tgt"] == 1:
            if kind not in ("pwrite", "write"):
                continue
            if pl is None or len(pl) != ln:
                raise RuntimeError("payload of an undo-file write is missing")
            fb = off // tdb
            while fb * tdb < off + ln:
                if fb in where and fb * tdb >= off:
                    pos, n = where[fb]
                    piece = pl[fb * tdb - off: fb * tdb - off + n]
                    if len(piece) == n and seen.get(fb) != piece:
                        first = fb not in seen
                        seen[fb] = piece
                        cur = bytes(dev[pos:pos + n])
                        cmp_n = min(len(cur), n)
                        m = 1 if (first and cur[:cmp_n] == piece[:cmp_n]) else 0
                        lo, hi = min(pos, len0), min(pos + n, len0)
                        out.append(("S", lo, hi, m, fb))
                fb += 1
        elif e["tgt"] == 0:
            if kind in ("pwrite", "write"):
                if pl is None or len(pl) != ln:
                    raise RuntimeError("payload of a device write is missing")
                if off + ln > len(dev):
                    dev.extend(b"\0" * (off + ln - len(dev)))
                dev[off:off + ln] = pl
                out.append(("W", min(off, len0), min(off + ln, len0), 0, kind))
            elif kind == "ftruncate":
                if off < len(dev):
                    out.append(("W", min(off, len0), min(len(dev), len0), 0, kind))
                    del dev[off:]
                else:
                    dev.extend(b"\0" * (off - len(dev)))
            elif kind == "fallocate":
                mode = e.get("x", 0)
                if mode & 0x02 or mode & 0x10:      # PUNCH_HOLE / ZERO_RANGE
                    hi = off + ln
                    if mode & 0x01:                 # KEEP_SIZE
                        hi = min(hi, len(dev))
                    elif hi > len(dev):
                        dev.extend(b"\0" * (hi - len(dev)))
                    if hi > off:
                        dev[off:hi] = b"\0" * (hi - off)
                        out.append(("W", min(off, len0), min(hi, len0), 0, kind))
                elif off + ln > len(dev) and not (mode & 0x01):
                    dev.extend(b"\0" * (off + ln - len(dev)))
            elif kind == "pwritev":
                raise RuntimeError("pwritev on the device: payload not recorded")
    return out, dev


def to_cells(evs):
    cuts = sorted({p for e in evs for p in (e[1], e[2])})
    ix = {p: i for i, p in enumerate(cuts)}
    lines = []
    for e in evs:
        a, bb = ix[e[1]], ix[e[2]]
        if e[0] == "S":
            lines.append(json.dumps({"e": "S", "a": a, "b": bb, "m": e[3]}))
        else:
            lines.append(json.dumps({"e": "W", "a": a, "b": bb, "m": 0}))
    return lines


def sb_regions(dev0, off):
    """byte ranges of the primary superblock and of every block group's superblock backup + descriptor blocks"""
    sb = dev0[off + 1024: off + 2048]
    if len(sb) < 1024 or struct.unpack_from("<H", sb, 56)[0] != 0xEF53:
        return None
    bs = 1024 << struct.unpack_from("<I", sb, 24)[0]
    first = struct.unpack_from("<I", sb, 20)[0]
    bpg = struct.unpack_from("<I", sb, 32)[0]
    blocks = struct.unpack_from("<I", sb, 4)[0]
    incompat = struct.unpack_from("<I", sb, 96)[0]
    dsz = struct.unpack_from("<H", sb, 254)[0] if incompat & 0x80 else 32
    dsz = dsz or 32
    groups = (blocks - first + bpg - 1) // bpg
    gdb = (groups * dsz + bs - 1) // bs
    reg = [(off + 1024, off + 2048)]
    for g in range(groups):
        st = off + (first + g * bpg) * bs
        reg.append((st, st + (1 + gdb) * bs))
    return reg


def equal_outside(a, bbytes, regions, n):
    """a[:n] == b[:n] except inside regions"""
    if len(a) < n or len(bbytes) < n:
        return False
    if a[:n] == bbytes[:n]:
        return True
    ma = bytearray(a[:n]); mb = bytearray(bbytes[:n])
    for lo, hi in regions:
        lo, hi = min(lo, n), min(hi, n)
        ma[lo:hi] = b"\0" * (hi - lo); mb[lo:hi] = b"\0" * (hi - lo)
    return ma == mb


def count_dev_writes(events, tgt=0):
    return sum(1 for e in events if e.get("tgt") == tgt and e["e"] in ("pwrite", "write", "pwritev", "ftruncate", "fallocate") and not e.get("fail"))


def run_scenario(b, work, sc, idx):
    """returns dict(lines=trace lines for TLC, problems=[(key, what)], info)"""
    sdir = os.path.join(work, "sc%03d" % idx)
    os.makedirs(sdir, exist_ok=True)
    base = make_base(b, work, sc["base"])
    dev = os.path.join(sdir, DEVNAME); undo = os.path.join(sdir, UNDONAME)
    shutil.copyfile(base, dev)
    off = fs_offset_of(sc["base"])
    if sc.get("damage"):
        damage_fs(dev, off, sc["damage"])
    src = os.path.join(sdir, "srcfile")
    open(src, "wb").write(payload_bytes("src" + sc["name"], 90000))
    if sc.get("tail"):
        with open(dev, "ab") as f:                 # the device is longer than the image by an odd number of KiB
            f.write(payload_bytes("tail" + sc["name"], sc["tail"] * 1024))
    if sc.get("state", "clean") != "clean":
        prepare_state(b, sdir, dev, off, sc["state"], src)
    dev0 = open(dev, "rb").read()
    problems = []
    info = dict(name=sc["name"], steps=[])
    nsteps = len(sc["steps"])
    if sc.get("full_keyblock"):
        # calibrate the number of scattered single-block writes of step 0 so that it ends with exactly 63 keys
        sc = dict(sc, steps=[dict(st, args=list(st["args"])) for st in sc["steps"]])
        tmpd = os.path.join(sdir, "calib"); os.makedirs(tmpd, exist_ok=True)
        cdev = os.path.join(tmpd, DEVNAME); cun = os.path.join(tmpd, UNDONAME)
        shutil.copyfile(dev, cdev)
        st0 = sc["steps"][0]
        argv = step_argv(b, st0, cdev, cun, off)
        for i, a in enumerate(argv):
            if a.startswith("@"):
                sp = os.path.join(tmpd, "c.cmd"); open(sp, "w").write(a[1:] + "\n"); argv[i] = sp
        crun(argv, env=tenv(b), timeout=120)
        if os.path.exists(cun):
            nk = UndoFile(open(cun, "rb").read())
            extra = getattr(nk, "nkeys", 63) - 63
            if 0 < extra < 20:
                for i, a in enumerate(st0["args"]):
                    if a.startswith("@"):
                        st0["args"][i] = "@" + "\n".join(a[1:].split("\n")[:-extra])
    recorded = 0
    facts = set(); prev_shape = None
    nr_before = bool(len(dev0) >= off + 2048 and struct.unpack_from("<I", dev0, off + 1024 + 96)[0] & 0x4 and struct.unpack_from("<H", dev0, off + 1024 + 56)[0] == 0xEF53)
    for si, st in enumerate(sc["steps"]):
        argv = step_argv(b, st, dev, undo, off if st["tool"] != "mke2fs" and st["tool"] != "resize2fs" else 0)
        # debugfs scripts are passed as "@text"
        for i, a in enumerate(argv):
            if a.startswith("@"):
                sp = os.path.join(sdir, "dbg%d.cmd" % si)
                open(sp, "w").write(a[1:].replace("{src}", src) + "\n")
                argv[i] = sp
        extra = {}
        if sc.get("unfinished") and si == nsteps - 1:
            extra["UNDO_IO_SIMULATE_UNFINISHED"] = "1"
        env = trace_env(b, sdir, "run", extra)
        rc, o, e = crun(argv, env=env, timeout=300)
        info["steps"].append(dict(argv=[os.path.basename(argv[0])] + argv[1:], rc=rc))
        txt = o.decode("utf8", "replace")
        for fact, marker in (("journal_recovered", "recovering journal"), ("orphans_processed", "orphaned inode"), ("restarted", "Restarting e2fsck from the beginning")):
            if marker in txt:
                facts.add(fact)
        okrc = st.get("okrc", (0,))
        if sc.get("expect_refuse_step") == si:
            if rc == 0:
                problems.append(("tool:unexpected", "step %d of %s was expected to be refused (undo file of a filesystem at an offset) but ran" % (si, sc["name"])))
            continue
        if rc < 0 or rc >= 128 or rc == 124:
            problems.append(("tool:crash", "%s died with status %d while recording to the undo file: %s" % (os.path.basename(argv[0]), rc, e.decode("utf8", "replace")[-200:])))
            break
        if rc not in okrc:
            return dict(skip="step %d (%s) exit %d: %s" % (si, os.path.basename(argv[0]), rc, (e.decode("utf8", "replace") or o.decode("utf8", "replace"))[-200:]), info=info)
        recorded += 1
        # a later run of the chain appends to an undo file that holds a key ending in a short block
        if os.path.exists(undo):
            ufs = UndoFile(open(undo, "rb").read())
            if ufs.hdr_ok:
                shape = (ufs.nkeys, sum(k["size"] for k in ufs.keys), ufs.ok and any(k["size"] % ufs.tdb for k in ufs.keys))
                if prev_shape and prev_shape[2] and shape[:2] > prev_shape[:2]:
                    facts.add("short_key_then_append")
                prev_shape = shape
    if not os.path.exists(undo):
        if open(dev, "rb").read() != dev0:
            problems.append(("tool:norecord", "%s changed the device although -z was given, and wrote no undo file" % sc["name"]))
            return dict(lines=[json.dumps({"e": "Reset", "a": 0, "b": 0, "m": 0})], problems=problems, info=info)
        return dict(skip="no undo file was written and the device is unchanged", info=info)
    events = read_iotrace(os.path.join(sdir, "run.iot"))
    blob = open(os.path.join(sdir, "run.blob"), "rb").read() if os.path.exists(os.path.join(sdir, "run.blob")) else b""
    uf = UndoFile(open(undo, "rb").read())
    devA = open(dev, "rb").read()
    if nr_before and len(devA) >= off + 2048 and not struct.unpack_from("<I", devA, off + 1024 + 96)[0] & 0x4:
        facts.add("needs_recovery_cleared")
    info["facts"] = sorted(facts)
    lines = [json.dumps({"e": "Reset", "a": 0, "b": 0, "m": 0})]
    if uf.hdr_ok and getattr(uf, "tdb", 0) >= 1024:
        try:
            evs, devsim = convert_trace(events, blob, dev0, uf)
        except RuntimeError as ex:
            die_broken("instrumentation incomplete in scenario %s: %s" % (sc["name"], ex))
        if bytes(devsim) != devA:
            die_broken("instrumentation incomplete in scenario %s: the device reconstructed from the recorded system calls differs from the device" % sc["name"])
        lines += to_cells(evs)
        info["S"] = sum(1 for x in evs if x[0] == "S"); info["W"] = sum(1 for x in evs if x[0] == "W")
    if not uf.ok:
        problems.append(("tool:undofile", "the undo file written by %s does not pass its own checksums (%s)" % (sc["name"], uf.why)))
    # e2undo -n first, then the real run (optionally recorded into a second undo file and undone again)
    e2 = os.path.join(b, tool(b, "e2undo"))
    n0 = len(dev0)

    def undo_run(args, tag):
        env = trace_env(b, sdir, tag)
        for f in (env["VERIF_IOTRACE_OUT"], env["VERIF_IOTRACE_BLOBS"]):
            if os.path.exists(f):
                os.unlink(f)
        before = open(dev, "rb").read()
        rc, o, e = crun([e2] + args, env=env, timeout=300)
        after = open(dev, "rb").read()
        evs = read_iotrace(env["VERIF_IOTRACE_OUT"])
        return rc, before, after, count_dev_writes(evs), (o + e).decode("utf8", "replace"), evs

    rc, before, after, nw, txt, _ = undo_run(["-n", undo, dev], "dry")
    lines.append(json.dumps({"e": "U", "mode": 1, "dmg": 0, "exit": rc, "writes": nw, "same": int(before == after), "restored": 0, "unfin": 0, "needcheck": 0}))
    unfin = bool(sc.get("unfinished"))
    if sc.get("undo_undo"):
        undo2 = os.path.join(sdir, "c12undo2.dat")
        rc, before, after, nw, txt, evs2 = undo_run(["-z", undo2, undo, dev], "uu")
        restored = int(after[:n0] == dev0)
        lines.append(json.dumps({"e": "U", "mode": 0, "dmg": 0, "exit": rc, "writes": nw, "same": int(before == after), "restored": restored, "unfin": 0, "needcheck": 0}))
        # the e2undo run itself was a recorded run: validate its write-ahead order, then undo it
        if os.path.exists(undo2):
            uf2 = UndoFile(open(undo2, "rb").read())
            if uf2.hdr_ok and getattr(uf2, "tdb", 0) >= 1024:
                blob2 = open(os.path.join(sdir, "uu.blob"), "rb").read()
                ev2 = [dict(e, tgt=1) if e.get("tgt") == 2 else (dict(e, tgt=9) if e.get("tgt") == 1 else e) for e in evs2]
                evs, devsim = convert_trace(ev2, blob2, devA, uf2)
                lines.append(json.dumps({"e": "Reset", "a": 0, "b": 0, "m": 0}))
                lines += to_cells(evs)
            rc, before, after, nw, txt, _ = undo_run([undo2, dev], "uu2")
            back = int(after[:len(devA)] == devA)
            lines.append(json.dumps({"e": "U", "mode": 0, "dmg": 0, "exit": rc, "writes": nw, "same": int(before == after), "restored": back, "unfin": 0, "needcheck": 0}))
        else:
            problems.append(("tool:undo_undo", "e2undo -z wrote no undo file"))
    else:
        rc, before, after, nw, txt, _ = undo_run([undo, dev], "real")
        if unfin:
            reg = sb_regions(dev0, off)
            if reg is None:
                restored = int(after[:n0] == dev0); need = 1      # no filesystem to mark
            else:
                restored = int(equal_outside(after, dev0, reg, n0))
                st = struct.unpack_from("<H", after, off + 1024 + 58)[0]
                need = int((st & 1) == 0 and "Incomplete undo record" in txt)
        else:
            restored = int(after[:n0] == dev0); need = 0
        lines.append(json.dumps({"e": "U", "mode": 0, "dmg": 0, "exit": rc, "writes": nw, "same": int(before == after), "restored": restored,
                                 "unfin": int(unfin), "needcheck": need}))
        info["e2undo_exit"] = rc; info["restored"] = restored
        if not restored:
            diff = [i for i in range(0, min(len(after), n0), 1024) if after[i:i + 1024] != dev0[i:i + 1024]]
            info["first_differing_kib"] = diff[:8]; info["len_after"] = len(after); info["len0"] = n0
    return dict(lines=lines, problems=problems, info=info)


def scenario_replay_obj(sc):
    return {"kind": "tool", "scenario": {k: v for k, v in sc.items()}}


def tool_conformance(ev, vd, tier, work, b, rng):
    scs = tool_scenarios(tier, rng)
    u = spec_universe(work)
    spec_scs = spec_scenarios(u, tier, rng)
    scs = scs + spec_scs
    for name in sorted({s["base"] for s in scs} | set(u["facts"])):
        make_base(b, work, name)
    check_base_facts(b, work, u["facts"])
    with cf.ThreadPoolExecutor(max_workers=JOBS) as ex:
        results = list(ex.map(lambda t: run_scenario(b, work, t[1], t[0]), enumerate(scs)))
    behs = []; owners = []
    skipped = []
    # (order only: the elements that are listed known findings go last, so that the chunks in front of them validate in one piece)
    listed = lambda sc: any(k.startswith("tool:") and k.endswith(":" + sc["name"]) for k in vd.known)
    for sc, r in sorted(zip(scs, results), key=lambda t: listed(t[0])):
        if "skip" in r:
            skipped.append("%s: %s" % (sc["name"], r["skip"])); continue
        for key, what in r["problems"]:
            vd.violation(key + ":" + sc["name"], what, scenario_replay_obj(sc))
        behs.append(r["lines"]); owners.append((sc, r))
    if len(skipped) > len(scs) // 3:
        die_broken("too many tool scenarios could not run: " + "; ".join(skipped[:5]))
    sub = os.path.join(work, "tvtool"); os.makedirs(sub, exist_ok=True)
    mod, cfg = os.path.join(SPEC, "Trace_UndoRun.tla"), os.path.join(SPEC, "Trace_UndoRun.cfg")
    res = api_validate(behs, cfg, sub, chunk_lines=3000, mod=mod)
    ev.cov["states"] += res["distinct"]; ev.cov["transitions"] += res["generated"]
    nfail = 0
    # each failing behaviour is confirmed on its own before it is reported
    for bi, k0, inv0, tail0 in res["failures"]:
        rr = api_validate([behs[bi]], cfg, sub, chunk_lines=10 ** 9, mod=mod)
        if not rr["failures"]:
            continue
        _, matched, inv, tail = rr["failures"][0]
        nfail += 1
        sc, r = owners[bi]
        k = matched if matched is not None else 0
        what = {"WriteAhead": "a device block was overwritten before its old content was in the undo file (U1)",
                "ExactlyOnce": "a device block is recorded twice in the undo file (U1)",
                "UnitOk": "a key announces a position that is not where its data came from (U3)",
                "UndoContract": "e2undo broke its contract (restore / refuse without writing / -n never writes / needs-check mark)"}.get(inv, "trace rejected")
        vd.violation("tool:%s:%s" % (inv or "rejected", sc["name"]), "%s in scenario %s (%s) at event %d; e2undo exit %s restored %s" %
                     (what, sc["name"], " ; ".join(" ".join(s["argv"][:6]) for s in r["info"]["steps"])[:300], k, r["info"].get("e2undo_exit"), r["info"].get("restored")),
                     dict(scenario_replay_obj(sc), info=r["info"], event=behs[bi][k] if k < len(behs[bi]) else None))
    # an element of the enumerated universe counts only if its run reached what UndoRunUniv!Expect says
    for sc, r in owners:
        miss = sorted(set(sc.get("expect", [])) - set(r["info"].get("facts", [])))
        if miss and not vd.viol:
            die_broken("universe element %s did not reach %s (steps: %s)" % (sc["name"], ", ".join(miss), json.dumps(r["info"]["steps"])[:600]))
    ev.cov["tool_universe_elements"] = len(u["universe"]); ev.cov["tool_universe_run"] = len(spec_scs)
    ev.cov["tool_universe_strata"] = len({e["stratum"] for e in u["universe"]})
    ev.cov["tool_scenarios"] = len(behs); ev.cov["tool_scenarios_skipped"] = skipped
    ev.cov["tool_trace_events"] = sum(len(x) for x in behs)
    ev.cov["traces_validated_against_impl"] += len(behs) - nfail
    ev.cov["evaluations"] += len(behs)
    for sc, r in owners:
        if len(sc["steps"]) > 1 or r["info"].get("S", 0) > 1:
            ev.nontrivial(("tool", sc["name"]))
    if owners:
        sc, r = owners[0]
        ev.sample({"tool_scenario": sc["name"], "steps": r["info"]["steps"], "S_events": r["info"].get("S"), "W_events": r["info"].get("W")})
    return owners


# ---------------------------------------------------------------------------------------------- (4) damage sweep
def sweep_targets(uf, tier, rng):
    """(byte, bit, kind) over the checksummed bytes"""
    out = []
    nkb = 0; ndata = 0
    for lo, hi, kind, blk in uf.protected:
        if kind == "hdr" or kind == "sb":
            for by in range(lo, hi):
                for bit in range(8):
                    out.append((by, bit, kind))
        elif kind == "key":
            nkb += 1
            if nkb == 1 and hi - lo <= 4096:
                for by in range(lo, hi):
                    for bit in range(8):
                        out.append((by, bit, kind))
            elif nkb == 1 or tier == "thorough":
                step = 5 if tier == "thorough" else 61
                start = rng.randrange(step)
                for x in range(lo * 8 + start, hi * 8, step):
                    out.append((x // 8, x % 8, kind))
            else:
                x = rng.randrange(lo * 8, hi * 8); out.append((x // 8, x % 8, kind))
        elif kind == "data" and hi > lo:
            ndata += 1
            if tier == "thorough" and ndata <= 2:
                for x in range(lo * 8, min(hi, lo + 4096) * 8):
                    out.append((x // 8, x % 8, kind))
            else:
                x = rng.randrange(lo * 8, hi * 8); out.append((x // 8, x % 8, kind))
    return out


def sweep_worker(b, drv, work, wi, undo_raw, dev_path, targets):
    """runs harness/undodrv's sweep command (flip, e2undo under iotrace, flip back) over its share of the targets"""
    d = os.path.join(work, "sw%d" % wi); os.makedirs(d, exist_ok=True)
    dev = os.path.join(d, DEVNAME); undo = os.path.join(d, UNDONAME)
    shutil.copyfile(dev_path, dev)
    open(undo, "wb").write(undo_raw)
    h0 = hashlib.sha256(open(dev, "rb").read()).hexdigest()
    tf = os.path.join(d, "targets.txt")
    with open(tf, "w") as f:
        for (by, bit, kind, mode) in targets:
            f.write("%d %d %d\n" % (by, bit, mode))
    env = tool_env(b, {"E2UNDO": os.path.join(b, "misc", "e2undo"), "IOTRACE_SO": IOTRACE, "E2FSPROGS_UNDO_DIR": "none"})
    p = subprocess.run([drv], input=("sweep %s %s %s\n" % (dev, undo, tf)).encode(), stdout=subprocess.PIPE, stderr=subprocess.PIPE, env=env, timeout=3000)
    if p.returncode != 0:
        die_broken("sweep driver failed: " + p.stderr.decode()[-300:])
    rows = [tuple(int(x) for x in ln.split()) for ln in p.stdout.decode().splitlines() if ln.strip()]
    if len(rows) != len(targets):
        die_broken("instrumentation incomplete: sweep logged %d of %d runs" % (len(rows), len(targets)))
    # (a replay of damaged keys can leave a sparse device of any length: compare the length first, never read such a file)
    same_end = (os.path.getsize(dev) == os.path.getsize(dev_path) and hashlib.sha256(open(dev, "rb").read()).hexdigest() == h0
                and os.path.getsize(undo) == len(undo_raw) and open(undo, "rb").read() == undo_raw)
    res = [(by, bit, kind, mode, rc, nw, bool(same) and same_end) for (by, bit, kind, mode), (_b, _bi, _m, rc, nw, same) in zip(targets, rows)]
    return res, same_end


def damage_sweep(ev, vd, tier, work, b, drv, rng):
    # two undo files made by real tools: tune2fs on a 1 KiB-block filesystem (undo blocks of 1 KiB), mke2fs (32 KiB)
    files = []
    for name, base, st in (("tune2fs", "ext4_1k", S("tune2fs", "-z", "{undo}", "-O", "^has_journal", "{devq}")),
                           ("mke2fs", "ext4_1k", S("mke2fs", "-q", "-F", "-z", "{undo}", "-t", "ext4", "-b", "4096", "{dev}"))):
        d = os.path.join(work, "swbase_" + name); os.makedirs(d, exist_ok=True)
        dev = os.path.join(d, DEVNAME); undo = os.path.join(d, UNDONAME)
        shutil.copyfile(make_base(b, work, base), dev)
        dev0 = open(dev, "rb").read()
        rc, o, e = crun(step_argv(b, st, dev, undo, 0), env=tenv(b), timeout=120)
        if rc != 0 or not os.path.exists(undo):
            die_broken("cannot prepare the undo file for the damage sweep (%s exit %d)" % (name, rc))
        uf = UndoFile(open(undo, "rb").read())
        if not uf.ok:
            vd.violation("tool:undofile:sweep_" + name, "the undo file written by %s does not pass its own checksums (%s)" % (name, uf.why), {"kind": "sweep", "file": name})
            continue
        files.append((name, dev, undo, uf, dev0))
    lines = [json.dumps({"e": "Reset", "a": 0, "b": 0, "m": 0})]
    total = 0; bad = 0
    for fi, (name, dev, undo, uf, dev0) in enumerate(files):
        tg = sweep_targets(uf, tier, rng)
        if fi == 1 and tier == "quick":
            tg = [t for t in tg if t[2] != "key"][::7] + [t for t in tg if t[2] == "key"][:200]
        # plain run for every target; -n for a sample
        full = [(by, bit, kind, 0) for by, bit, kind in tg]
        samp = rng.sample(tg, min(len(tg), 150 if tier == "quick" else 1500))
        full += [(by, bit, kind, 1) for by, bit, kind in samp]
        shards = [full[i::JOBS] for i in range(JOBS)]
        raw = open(undo, "rb").read()
        with cf.ThreadPoolExecutor(max_workers=JOBS) as ex:
            outs = list(ex.map(lambda t: sweep_worker(b, drv, work, fi * 100 + t[0], raw, dev, t[1]), enumerate(shards)))
        for res, same_end in outs:
            for r in res:
                by, bit, kind, mode, rc, nw = r[:6]
                same = r[6] if len(r) > 6 else 1
                total += 1
                lines.append(json.dumps({"e": "U", "mode": mode, "dmg": 1, "exit": rc, "writes": nw, "same": int(bool(same)), "restored": 0, "unfin": 0, "needcheck": 0}))
                okk = (nw == 0 and same and (mode == 1 or rc != 0))
                if not okk:
                    bad += 1
                    vd.violation("sweep:%s:%s" % (name, kind), "e2undo%s on the %s undo file with bit %d of byte %d (%s) flipped: exit %d, %d write-class calls on the device, device %s" %
                                 (" -n" if mode else "", name, bit, by, kind, rc, nw, "unchanged" if same else "CHANGED"),
                                 {"kind": "sweep", "file": name, "byte": by, "bit": bit, "region": kind, "mode": mode})
            if not same_end:
                vd.violation("sweep:%s:device" % name, "the device changed during the damage sweep over the %s undo file" % name, {"kind": "sweep", "file": name})
        # bits outside every checksum (padding of the header block): e2undo may run, and must then restore
        pad = [(by, rng.randrange(8)) for by in rng.sample(range(512, min(uf.tdb, 4096)), 4)] if uf.tdb > 512 else []
        for by, bit in pad:
            d = os.path.join(work, "swpad%d" % fi); os.makedirs(d, exist_ok=True)
            dv = os.path.join(d, DEVNAME); un = os.path.join(d, UNDONAME)
            shutil.copyfile(dev, dv)
            r2 = bytearray(raw); r2[by] ^= 1 << bit
            open(un, "wb").write(r2)
            env = trace_env(b, d, "pad")
            if os.path.exists(env["VERIF_IOTRACE_OUT"]):
                os.unlink(env["VERIF_IOTRACE_OUT"])
            rc, o, e = crun([os.path.join(b, tool(b, "e2undo")), un, dv], env=env, timeout=120)
            after = open(dv, "rb").read()
            lines.append(json.dumps({"e": "U", "mode": 0, "dmg": 0, "exit": rc, "writes": count_dev_writes(read_iotrace(env["VERIF_IOTRACE_OUT"])),
                                     "same": 0, "restored": int(after[:len(dev0)] == dev0), "unfin": 0, "needcheck": 0}))
            total += 1
    sub = os.path.join(work, "tvsweep"); os.makedirs(sub, exist_ok=True)
    mod, cfg = os.path.join(SPEC, "Trace_UndoRun.tla"), os.path.join(SPEC, "Trace_UndoRun.cfg")
    # one behaviour per 4000 runs
    behs = []
    body = lines[1:]
    for i in range(0, len(body), 4000):
        behs.append([lines[0]] + body[i:i + 4000])
    res = tracecheck.validate(behs, mod, cfg, sub, chunk_lines=4100, timeout=1200, jobs=JOBS)
    if res["broken"]:
        die_broken("TLC failed on the sweep trace: %s\n%s" % (res["broken"][0]["error"], res["broken"][0]["out_tail"][-1500:]))
    ev.cov["states"] += res["distinct"]; ev.cov["transitions"] += res["generated"]
    if res["failures"] and not bad:
        f = res["failures"][0]
        vd.violation("sweep:contract", "e2undo broke its contract on a damaged undo file (TLC: %s)" % f["violated"], {"kind": "sweep", "tail": f["tail"][-800:]})
    ev.cov["damaged_files_run"] = total
    ev.cov["evaluations"] += total
    ev.cov["traces_validated_against_impl"] += len(behs) - (1 if res["failures"] else 0)


# ---------------------------------------------------------------------------------------------- entry points
def merge_local_findings(vd):
    p = os.path.join(VERIF, "fixes", "C12_known_findings.txt")
    if os.path.exists(p):
        for l in open(p):
            l = l.strip()
            if l and not l.startswith("#"):
                d = json.loads(l)
                if d.get("property") == PID:
                    vd.known.setdefault(d["key"], d)


def run(tier):
    ev = Evidence(PID, tier, "model_checking")
    vd = Verdict(PID, ev)
    merge_local_findings(vd)
    work = fast_tmp()
    try:
        try:
            b = build.build()
            drv = build.driver(b, "undodrv")
        except RuntimeError as e:
            die_broken(str(e))
        if not os.path.exists(IOTRACE):
            die_broken("harness/iotrace.so is missing (make -C harness)")
        load_crc(work)
        rng = random.Random(seed())
        t0 = time.time()
        model_check(ev, tier, work, vd)
        t1 = time.time()
        api_conformance(ev, vd, tier, work, b, drv, rng)
        t2 = time.time()
        tool_conformance(ev, vd, tier, work, b, rng)
        t3 = time.time()
        damage_sweep(ev, vd, tier, work, b, drv, rng)
        t4 = time.time()
        ev.cov["wall_parts_s"] = dict(model=round(t1 - t0, 1), api=round(t2 - t1, 1), tools=round(t3 - t2, 1), sweep=round(t4 - t3, 1))
        ev.cov["rule"] = ("evaluations = API histories + recorded tool scenarios + e2undo runs on damaged undo files; non-trivial = API history with a "
                          "re-written undo block (first-write-wins exercised), a key extension, a key-block rollover or a chain reopen, or a tool "
                          "scenario that is a chain or saves more than one undo block; distinct by command sequence / scenario name")
        ev.cov["checker_cmd"] = ("tlc -config MC_UndoIo.cfg spec/UndoIo.tla (INVARIANT TypeOK U1 U2 U3 R1 R2 Layout AppendPos); TRACE=<chunk> tlc -workers 1 "
                                 "spec/Trace_UndoIo.tla (DevAbsTiling DevChanUnits TRUE; INVARIANT PropReport R1 R2 Layout AppendPos QuietOk, POSTCONDITION "
                                 "TraceAccepted; U1 U2 U3 reported per line); OUT=<json> tlc spec/Emit_UndoRunUniv.tla; TRACE=<chunk> tlc -workers 1 "
                                 "spec/Trace_UndoRun.tla (INVARIANT WriteAhead ExactlyOnce UnitOk UndoContract)")
        ev.assumptions = [
            "io_channel_set_blksize (or the tdb_data_size option, or a reopened undo file) precedes the first write of a run, as in every tool (the undo block size would be 0 otherwise)",
            "write / zeroout / discard counts and byte counts are non-zero",
            "the device is at least offset + 2 KiB long (it holds a superblock area at the filesystem offset)",
            "all runs of a chain address the filesystem at the same offset; io_channel_zeroout / io_channel_discard are issued on a flushed channel "
            "(the unix_io cache incoherence of zeroout / discard belongs to C17)",
            "API-level byte offsets and sizes are multiples of 16 (the content tag granularity of the driver); offsets and device sizes given to the API level are "
            "multiples of 1 KiB (device sizes of every residue modulo the undo block sizes 2 and 4 KiB), odd filesystem offsets (96255, 70656) are exercised at tool level",
            "API level: the undo block holds one channel block or more than 4 (unix_io's WRITE_DIRECT_SIZE: such reads bypass its cache), as in every tool (undo block = block size, "
            "or mke2fs's 32 KiB with blocks of at most 4 KiB); the API histories scale these ratios down to 2 and 4, so the driver switches the backing manager's cache off -- with it on, "
            "unix_io splits a read of 2-4 blocks at a cached block and undo_write_tdb takes the size of a short read (undo block across the end of the device) from the last piece only "
            "(latent library defect no in-tree caller can reach: replays/C12/latent_short_read_split.json)",
            "a property invariant that fails in an API history is attributed to a known deviation only if TLC matched every line of the history against the literal model and "
            "the deviation's formula differed from the repaired one on some line (Trace_UndoIo!QuietOk); anything else is a violation",
            "chains of the enumerated tool universe use one block size (1 KiB) throughout: chains of mixed block sizes are the known finding DevChanUnits and stay the listed elements",
            "image states of the enumerated tool universe are prepared with debugfs (journal transaction via jo/jw/jc, orphan list via sif/ssv, illegal block numbers via sif) before the recorded run",
            "a write whose last undo block starts at or beyond the end of the device fails with EXT2_ET_SHORT_READ and is not performed (modelled as the code does it; the property is not affected)",
            "for an unfinished record the device is compared outside the superblock / group descriptor blocks (e2undo re-opens the filesystem to clear the VALID flag, which rewrites them)",
            "the specification is the behaviour after fixes/C12_*.patch (Dev* constants FALSE); the literal behaviour of the pinned tree is kept behind the Dev* constants",
        ]
        return vd.finish()
    finally:
        shutil.rmtree(work, ignore_errors=True)


def replay(path):
    d = json.load(open(path))
    rp = d["replay"]
    work = fast_tmp()
    try:
        b = build.build(); drv = build.driver(b, "undodrv")
        load_crc(work)
        if rp.get("kind") == "api":
            dev = os.path.join(work, "apidev.img"); undo = os.path.join(work, "apiundo.dat")
            script = [l.replace("DEV", dev).replace("UNDO", undo) for l in rp["script"]]
            out, rc, err = run_driver(drv, b, script, work, "replay")
            tl = open(out).read().splitlines()
            if rc != 0:
                print("driver exit %d: %s" % (rc, err)); print("VIOLATION property=%s replay=%s" % (PID, path)); return 1
            cfg = trace_cfg(work, rp["n"], CONF_DEVS)
            rr = api_validate([tl], cfg, work, chunk_lines=10 ** 9)
            for k, inv, devs in rr["propfail"].get(0, []):
                print("line %d: property invariant %s fails in the literal model (active deviations: %s)" % (k, inv, ", ".join(devs) or "none"))
            if rr["failures"]:
                _, k, inv, tail = rr["failures"][0]
                print("first unmatched line %s (%s): %s" % (k, inv, tl[k][:300] if k < len(tl) else "?"))
                print("VIOLATION property=%s replay=%s" % (PID, path)); return 1
            if rr["propfail"].get(0):
                print("KNOWN-FINDING: property=%s the history is explained line by line by the literal model; the deviation breaks the property" % PID)
            print("replay accepted"); return 0
        if rp.get("kind") == "tool":
            sc = rp["scenario"]
            r = run_scenario(b, work, sc, 0)
            if "skip" in r:
                print("scenario could not run: " + r["skip"]); return 2
            mod, cfg = os.path.join(SPEC, "Trace_UndoRun.tla"), os.path.join(SPEC, "Trace_UndoRun.cfg")
            rej, matched, inv, tail, _ = tracecheck.confirm(r["lines"], mod, cfg, work)
            for key, what in r["problems"]:
                print(what)
            if rej or r["problems"]:
                print("invariant %s at event %s; info %s" % (inv, matched, json.dumps(r["info"])[:600]))
                print("VIOLATION property=%s replay=%s" % (PID, path)); return 1
            print("replay accepted"); return 0
        print("replay kind %s is not reproducible from the file alone" % rp.get("kind")); return 2
    finally:
        shutil.rmtree(work, ignore_errors=True)
