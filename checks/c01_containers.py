"""C01 (containers) -- the in-memory containers e2fsck's repair passes and libext2fs rely on behave as the objects they stand for.

Property C01 ("e2fsck repairs converge") takes for granted that the bookkeeping e2fsck keeps between its passes is exact:
extended-attribute block reference counts (e2fsck/ea_refcount.c), inode link counts (lib/ext2fs/icount.c), the directory block
list (lib/ext2fs/dblist.c), the bad block list (lib/ext2fs/badblocks.c) and the overlap detector (e2fsck/region.c).  A count that
is silently lost there makes the repairing run write a wrong refcount / link count that the next run reports again.

Specification   spec/ContAbs.tla        the abstract objects: counter map, set, bag
                spec/ContRefcount.tla   sorted array with lazy compaction            refines a counter map
                spec/ContIcount.tla     single/multiple bitmaps + sorted list, 16-bit interface, fullmap   refines a counter map
                spec/ContDblist.tla     array + sorted flag                          refines a bag of triples
                spec/ContBadblocks.tla  sorted u32 array                             refines a set
                spec/ContRegion.tla     sorted interval list with a tail pointer     refines a set of addresses
                spec/Containers.tla     the five side by side (disjoint union of the state spaces)
                One action per API entry point; search, insertion, compaction and growth transcribed step by step; table
                capacities and growth steps are constants so that "table full + compaction removed entries + insert in the
                middle" is reached with two or three elements.  TLC checks Structural, Refines, ResultsAgree exhaustively.
Conformance     harness/contdrv.c compiles the container sources of the tree under test into itself (AddressSanitizer on) and
                steps seeded operation histories through them, including histories at the real constants' boundaries (fill to
                exactly 500 / estimate / 12 / 10, drive counts to 0, insert below / inside / above).  After every call it logs
                the result, the private arrays and what the public API shows (fetch of every key, enumeration order, test of
                every value); TLC validates every line against spec/Trace_Containers.tla with the real constants and evaluates
                the invariants after every line.  A driver crash / sanitizer report on a legal history is a violation.

Entry points    run(b, ev, vd, tier, work, rng) -> number of evaluations      (called from checks/c01.py)
                python3 checks/c01_containers.py quick|thorough               (development; prints VIOLATION lines the same way)
                python3 checks/c01_containers.py replay <path>
"""
import os, sys, json, random, shutil, subprocess, time, re
for _d in ("lib", "checks"):
    _p = os.path.join(os.path.dirname(os.path.dirname(os.path.abspath(__file__))), _d)
    if _p not in sys.path:
        sys.path.insert(0, _p)
from common import VERIF, fast_tmp, seed, die_broken, NPROC
import build, tlc as T, tracecheck
from evidence import Evidence, Verdict

PID = "C01"
SPEC = os.path.join(VERIF, "spec")
TRACE_MOD = os.path.join(SPEC, "Trace_Containers.tla")
TRACE_CFG = os.path.join(SPEC, "Trace_Containers.cfg")
ASAN = ("-fsanitize=address", "-fno-omit-frame-pointer")
JOBS = min(NPROC, 4)


# ------------------------------------------------------------------------------------------------------------------ model checking
MC_QUICK = dict(CWhich='{"rc", "ic", "db", "bb", "rg"}',
                RcInitSize=2, RcGrow=1, RcMaxKey=4, RcMaxVal=2, DevRcNoRetry="FALSE",
                IcGrow=1, IcCap=2, IcU16=3, IcMaxCount=3, IcSlackMax=0, IcModes="{0, 1, 2}", IcMaxN=2, IcInitSizes="{1}",
                DbGrow=1, DbGrowThresh=2, DbInos="{1, 2}", DbBlks="{0, 8}", DbCnts="{0, 1}", DbInitSizes="{1}", DbMaxLen=3,
                BbGrow=2, BbVals="{0, 1, 2, 3, 4, 5}", BbInitSizes="{1, 3}", RgMaxAddr=6)
# thorough: one run per container with larger constants (the others idle at one initial state)
MC_THOROUGH = [
    ("rc", dict(RcInitSize=3, RcGrow=2, RcMaxKey=6, RcMaxVal=2)),
    ("rc", dict(RcInitSize=2, RcGrow=1, RcMaxKey=5, RcMaxVal=3)),
    ("ic", dict(IcGrow=1, IcCap=3, IcU16=4, IcMaxCount=5, IcMaxN=3, IcInitSizes="{1, 2}")),
    ("db", dict(DbInos="{1, 2}", DbBlks="{0, 5, 8}", DbCnts="{0, 1}", DbInitSizes="{1, 2}", DbMaxLen=4)),
    ("bb", dict(BbGrow=2, BbVals="{0, 1, 2, 3, 4, 5, 6, 7, 8}", BbInitSizes="{1, 3}")),
    ("rg", dict(RgMaxAddr=10)),
]
INVS = ["CStructural", "CRefines", "CRefinesSlow", "CResultsAgree"]


def model_check(ev, vd, tier, work):
    runs = []
    if tier == "quick":
        runs.append(("all", dict(MC_QUICK)))
    else:
        for which, over in MC_THOROUGH:
            c = dict(MC_QUICK); c.update(over); c["CWhich"] = '{"%s"}' % which
            runs.append((which, c))
    # the compaction retry is load-bearing: without it the model must fail (guards against a vacuous Refines)
    c = dict(MC_QUICK); c["CWhich"] = '{"rc"}'; c["DevRcNoRetry"] = "TRUE"
    runs.append(("rc-noretry", c))
    out = []
    for name, consts in runs:
        cfg = os.path.join(work, "MC_Containers_%s_%d.cfg" % (name, len(out)))
        T.write_cfg(cfg, spec="CSpec", constants=consts, invariants=INVS)
        r = T.tlc(os.path.join(SPEC, "Containers.tla"), cfg, workers=1 if tier == "quick" else 4, timeout=2400, xmx="4g")
        label = "Containers[%s] exhaustive BFS: Structural, Refines, ResultsAgree" % name
        if name == "rc-noretry":
            if r.violated not in ("CStructural", "CRefines", "CResultsAgree"):
                die_broken("Containers with DevRcNoRetry=TRUE was expected to violate an invariant (vacuity guard): %s %s\n%s" % (r.violated, r.error, r.out[-1500:]))
            out.append(dict(label="Containers[rc] with DevRcNoRetry=TRUE: invariant %s violated as expected (design-level counterexample, depth %d)" % (r.violated, r.depth),
                            distinct=r.distinct, generated=r.generated))
            continue
        ev.add_tlc(r, label)
        out.append(dict(label=label, distinct=r.distinct, generated=r.generated, depth=r.depth, wall_s=round(r.wall, 1)))
        if r.violated:
            vd.violation("cont:model:%s" % r.violated, "model: invariant %s violated in Containers[%s] (design-level counterexample)" % (r.violated, name),
                         {"tlc": r.out[-4000:], "constants": consts})
        elif not r.ok:
            die_broken("TLC failed on Containers[%s]: %s\n%s" % (name, r.error, r.out[-2000:]))
    return out


# ------------------------------------------------------------------------------------------------------------------ histories
def _phases_counter(rng, pfx, keys_fill, universe, nonzero, zero, extra_ops, iter_op):
    """fill with keys_fill (in the given order), drive a subset to 0, then insert below / inside / above in random order"""
    L = []
    for k in keys_fill:
        L.append(nonzero(k))
        if rng.random() < 0.05 and extra_ops: L.append(rng.choice(extra_ops)(rng.choice(keys_fill)))
    ng = rng.randint(1, max(1, len(keys_fill) // 3))
    for k in rng.sample(keys_fill, ng):
        L += zero(k)
    if iter_op and rng.random() < 0.5: L.append(iter_op)
    rest = [k for k in universe if k not in set(keys_fill)]
    rng.shuffle(rest)
    return L, rest


def gen_rc_small(rng):
    size = rng.choice([1, 2, 2, 3, 3, 4, 5, 6])
    maxkey = 2 * size + 6
    L = ["reset rc %d %d" % (size, maxkey)]
    keys = list(range(1, maxkey + 1))
    if rng.random() < 0.6:
        # directed: fill exactly, make garbage, insert elsewhere
        fill = rng.sample(keys[1:-1], size)
        if rng.random() < 0.5: fill.sort()
        for k in fill:
            L.append(rng.choice(["rc inc %d" % k, "rc store %d %d" % (k, rng.randint(1, 3))]))
        for k in rng.sample(fill, rng.randint(1, size)):
            L.append(rng.choice(["rc store %d 0" % k, "rc dec %d" % k]))
        rest = [k for k in keys if k not in fill]; rng.shuffle(rest)
        for k in rest[:rng.randint(1, 4)]:
            L.append(rng.choice(["rc inc %d" % k, "rc store %d %d" % (k, rng.randint(1, 4))]))
            if rng.random() < 0.3: L.append("rc fetch %d" % rng.choice(keys))
    n = rng.randint(6, 22)
    for _ in range(n):
        k = rng.choice(keys); x = rng.random()
        if x < 0.22: L.append("rc inc %d" % k)
        elif x < 0.42: L.append("rc dec %d" % k)
        elif x < 0.62: L.append("rc store %d %d" % (k, rng.choice([0, 0, 1, 2, 7])))
        elif x < 0.90: L.append("rc fetch %d" % k)
        else: L.append("rc iter")
    return L


def gen_rc_boundary(rng, size=500):
    """ea_refcount_create(0): 500 elements; keys 2, 4, .. leave room below, inside and above"""
    maxkey = 2 * size + 40
    L = ["reset rc 0 %d" % maxkey]
    fill = list(range(2, 2 * size + 1, 2))
    order = rng.random()
    if order < 0.4: rng.shuffle(fill)
    elif order < 0.6: fill.reverse()
    for k in fill:
        L.append("rc store %d %d" % (k, rng.randint(1, 5)) if rng.random() < 0.7 else "rc inc %d" % k)
    # garbage
    for k in rng.sample(fill, rng.randint(1, 40)):
        if rng.random() < 0.5: L.append("rc store %d 0" % k)
        else:
            L.append("rc store %d 1" % k); L.append("rc dec %d" % k)
    if rng.random() < 0.5: L.append("rc iter")
    # table is full (count = size, some values 0): insert below / inside / above
    ins = [1] + rng.sample(range(3, 2 * size, 2), 6) + [2 * size + 1 + 2 * i for i in range(3)]
    rng.shuffle(ins)
    for k in ins:
        L.append(rng.choice(["rc inc %d" % k, "rc store %d %d" % (k, rng.randint(1, 9))]))
        L.append("rc fetch %d" % k)
    # refill to the brim without garbage so that the next insert has to grow the table (size + 100)
    odd = [k for k in range(3, 2 * size, 2) if k not in ins]
    rng.shuffle(odd)
    for k in odd[:60]:
        L.append("rc store %d %d" % (k, rng.randint(1, 3)))
    L.append("rc iter")
    for _ in range(10):
        L.append("rc dec %d" % rng.choice(fill))
    return L


IC_VALS = [0, 0, 1, 1, 2, 2, 3, 5, 65499, 65500, 65501, 65535]


def gen_ic_small(rng, mode=None):
    mode = rng.choice([0, 0, 1, 1, 2]) if mode is None else mode
    n = rng.randint(3, 12)
    size = rng.choice([1, 1, 2, 3, 4])
    L = ["reset ic %d %d %d %d %d" % (mode, size, n, rng.randint(0, 3), rng.choice([1, 2]))]
    hot = [rng.randint(1, n) for _ in range(3)] + [n]
    for _ in range(rng.randint(10, 34)):
        ino = rng.choice(hot) if rng.random() < 0.6 else rng.randint(0, n + 1)
        x = rng.random()
        if x < 0.30: L.append("ic inc %d" % ino)
        elif x < 0.55: L.append("ic dec %d" % ino)
        elif x < 0.80: L.append("ic store %d %d" % (ino, rng.choice(IC_VALS)))
        elif x < 0.96: L.append("ic fetch %d" % ino)
        else: L.append("ic recreate %d %d" % (rng.choice([0, 1, 1, 2]), rng.randint(1, 4)))
    return L


def gen_ic_boundary(rng, near=None):
    """size 0: the code's own estimate (directories + inodes / 50); fill the list exactly, then insert below / inside / above so
    that insert_icount_el has to grow it (estimate from the last inode number, at least + 100)"""
    mode = rng.choice([0, 1])
    n = rng.choice([2000, 3000, 4000])
    ndirs = rng.randint(0, 20)
    size = ndirs + n // 50
    L = ["reset ic %d 0 %d %d %d" % (mode, n, ndirs, rng.choice([1, 2]))]
    # where the list's inodes live decides the estimate: count * (num_inodes / last ino) exceeds size + 100 when they sit low
    span = (4 * size if near else rng.choice([n - 10, n // 2])) if near is not None else rng.choice([n - 10, n // 2, 4 * size])
    fill = sorted(rng.sample(range(5, span, 2), size))
    if rng.random() < 0.5: rng.shuffle(fill)
    for k in fill:
        L.append("ic store %d %d" % (k, rng.randint(2, 6)))
    for k in rng.sample(fill, 5):
        L.append("ic dec %d" % k)
    ins = [2, 4] + rng.sample(range(6, span, 2), 4) + [span + 1, n]
    rng.shuffle(ins)
    for k in ins:
        L.append(rng.choice(["ic store %d 3" % k, "ic inc %d" % k]))
        L.append("ic inc %d" % k)
        L.append("ic fetch %d" % k)
    more = [k for k in range(6, span, 2) if k not in fill and k not in ins]
    rng.shuffle(more)
    for k in more[:110]:
        L.append("ic store %d 2" % k)
    if rng.random() < 0.7:
        L.append("ic recreate %d 1" % rng.choice([0, 1]))
        for k in rng.sample(fill, 10):
            L.append("ic inc %d" % k); L.append("ic inc %d" % k)
    return L


BIG_BLKS = [2 ** 31 - 1, 2 ** 31, 2 ** 31 + 52, 2 ** 32 - 1, 2 ** 32, 2 ** 32 + 4, 2 ** 32 + 5, 2 ** 33 + 7, 3 * 2 ** 31 + 1, 2 ** 40 + 3]


def gen_db(rng, long=False, big=None):
    """big: block numbers beyond 2^31 (file systems larger than 8 TiB at 4 KiB blocks); the legacy 32-bit sort / iterate are
    left out there (their callback type cannot carry such a block number)"""
    big = (rng.random() < 0.3) if big is None else big
    ndirs = rng.choice([0, 0, 1, 3])
    size = 2 * ndirs + 12
    L = ["reset db %d 4096" % ndirs]
    nadds = rng.choice([size + 1, size + 3]) if not long else rng.choice([size + 101, size + 201 + rng.randint(0, 10)])
    inos = [rng.randint(2, 60) for _ in range(6)]
    added = []
    nops = nadds + (rng.randint(8, 20) if not long else rng.randint(20, 40))
    na = 0

    def blkno():
        if rng.random() < 0.2: return 0
        if big and rng.random() < 0.5: return rng.choice(BIG_BLKS) + rng.choice([0, 0, 1, 7])
        return rng.randint(1, 400)
    for _ in range(nops):
        x = rng.random()
        if na < nadds and x < (0.62 if not long else 0.88):
            ino = rng.choice(inos); cnt = rng.randint(0, 6)
            L.append("db add %d %d %d" % (ino, blkno(), cnt)); added.append((ino, cnt)); na += 1
        elif x < 0.70 and added:
            ino, cnt = rng.choice(added) if rng.random() < 0.85 else (rng.choice(inos), 9)
            L.append("db set %d %d %d" % (ino, blkno() or 1, cnt))
        elif x < 0.76: L.append("db sort %d" % rng.choice([0, 0, 1] if big else [0, 0, 1, 2]))
        elif x < 0.84:
            L.append("db iter %d %d" % (rng.choice([0, 0, rng.randint(0, 20)]), rng.choice([1000, 1000, rng.randint(0, 20)])))
        elif x < 0.87: L.append("db iter 0 1000" if big else "db iter32")
        elif x < 0.90: L.append("db count")
        elif x < 0.93: L.append("db last")
        elif x < 0.97: L.append("db drop")
        else: L.append("db copy")
    L.append("db iter 0 100000")
    return L


def gen_bb(rng, long=False):
    size = rng.choice([0, 0, 1, 2, 3]) if not long else 0
    maxval = rng.randint(8, 30) if not long else 460
    L = ["reset bb %d %d" % (size, maxval)]
    if long:
        vals = rng.sample(range(0, maxval + 1), 215)
        for i, v in enumerate(vals):
            L.append("bb add %d" % v)
            if i in (9, 10, 109, 110, 209, 210):
                L.append("bb add %d" % v)          # a repeated add at the brim still grows the array
            if rng.random() < 0.1: L.append("bb test %d" % rng.randint(0, maxval))
            if rng.random() < 0.05: L.append("bb del %d" % rng.choice(vals[:i + 1]))
        L += ["bb copy", "bb iter", "bb count"]
        return L
    for _ in range(rng.randint(12, 36)):
        v = rng.randint(0, maxval); x = rng.random()
        if x < 0.42: L.append("bb add %d" % v)
        elif x < 0.60: L.append("bb del %d" % v)
        elif x < 0.82: L.append("bb test %d" % v)
        elif x < 0.87: L.append("bb iter")
        elif x < 0.91: L.append("bb count")
        elif x < 0.95: L.append("bb copy")
        else: L.append("bb eqmod %d" % v)
    return L


def gen_rg(rng):
    lo = rng.choice([0, 0, 1, 5]); hi = lo + rng.randint(8, 60)
    L = ["reset rg %d %d" % (lo, hi)]
    hot = rng.randint(lo, hi)
    for _ in range(rng.randint(10, 45)):
        if rng.random() < 0.2: hot = rng.randint(lo, hi)
        s = min(max(hot + rng.randint(-6, 6), 0), hi + 2)
        n = rng.choice([0, 1, 1, 2, 2, 3, 4, 6, 9])
        L.append("rg alloc %d %d" % (s, n))
    return L


def histories(tier, rng):
    q = tier == "quick"
    H = []
    H += [("rc", gen_rc_small(rng)) for _ in range(70 if q else 3000)]
    H += [("rc500", gen_rc_boundary(rng)) for _ in range(1 if q else 12)]
    H += [("ic", gen_ic_small(rng)) for _ in range(70 if q else 3000)]
    H += [("icest", gen_ic_boundary(rng, near=(i % 2 == 0))) for i in range(2 if q else 12)]
    H += [("db", gen_db(rng)) for _ in range(20 if q else 600)]
    H += [("db212", gen_db(rng, long=True)) for _ in range(1 if q else 12)]
    H += [("bb", gen_bb(rng)) for _ in range(40 if q else 1500)]
    H += [("bb110", gen_bb(rng, long=True)) for _ in range(1 if q else 8)]
    H += [("rg", gen_rg(rng)) for _ in range(40 if q else 1500)]
    return H


# ------------------------------------------------------------------------------------------------------------------ driver + validation
def run_driver(drv, behaviours, workdir, tag="ops"):
    script = os.path.join(workdir, tag + ".txt")
    with open(script, "w") as f:
        for b in behaviours:
            f.write("\n".join(b) + "\n")
    out = os.path.join(workdir, tag + ".ndjson")
    env = dict(os.environ); env["ASAN_OPTIONS"] = "detect_leaks=0:abort_on_error=0:exitcode=77"
    with open(script) as fin, open(out, "w") as fout:
        p = subprocess.run([drv], stdin=fin, stdout=fout, stderr=subprocess.PIPE, timeout=1800, env=env)
    if p.returncode != 0:
        return out, "contdrv exited %d: %s" % (p.returncode, p.stderr.decode("utf8", "replace")[-3000:])
    return out, None


def crash_key(err):
    m = re.search(r"SUMMARY: AddressSanitizer: (\S+) \S*?([A-Za-z0-9_]+\.c):\d+", err)
    if m:
        return "cont:asan:%s:%s" % (m.group(1), m.group(2))
    return "cont:crash"


def crash_text(err):
    m = re.search(r"ERROR: AddressSanitizer: ([^\n]*)", err)
    m2 = re.search(r"SUMMARY: AddressSanitizer: ([^\n]*)", err)
    if m or m2:
        return ("%s; %s" % (m.group(1)[:120] if m else "", re.sub(r"/\S*/", "", m2.group(1))[:160] if m2 else "")).strip("; ")
    return " | ".join(err.splitlines()[:2])[:300]


def nontrivial(kind, tl):
    """a behaviour counts when it reached the structural event its container is about"""
    if kind.startswith("rc"):
        # compaction: a key left the array (only refcount_collapse removes elements)
        prev = set()
        for ln in tl:
            keys = set(e[0] for e in json.loads(ln).get("list", []))
            if prev - keys:
                return True
            prev = keys
        return False
    if kind.startswith("ic"):
        sizes = set(json.loads(ln).get("size") for ln in tl)
        return len(sizes) > 1 or any(json.loads(ln)["e"] == "ic_recreate" for ln in tl)
    if kind.startswith("db"):
        sizes = set(json.loads(ln).get("size") for ln in tl)
        return len(sizes) > 1
    if kind.startswith("bb"):
        return any(json.loads(ln)["e"] == "bb_del" and json.loads(ln)["res"][0] == 0 for ln in tl)
    if kind == "rg":
        prev = 0
        for ln in tl:
            n = len(json.loads(ln).get("list", []))
            if n < prev: return True          # two intervals merged
            prev = n
        return False
    return False


def validate_capped(tb, work, chunk_lines, max_fail=8):
    """tracecheck.validate, but what lies behind the first rejected behaviour of a chunk is re-run as ONE chunk (not one JVM per
    behaviour) and the search stops after max_fail rejections: a tree that breaks a container rejects hundreds of histories."""
    import concurrent.futures as cf
    chunks, cur, n = [], [], 0
    for bi, b in enumerate(tb):
        if cur and n + len(b) > chunk_lines:
            chunks.append(cur); cur = []; n = 0
        cur.append(bi); n += len(b)
    if cur: chunks.append(cur)
    failures, broken, tot_d, tot_g, rnd = [], [], 0, 0, 0
    while chunks and len(failures) < max_fail:
        rnd += 1
        tasks = []
        for ci, ch in enumerate(chunks):
            p = os.path.join(work, "chunk_r%d_%03d.ndjson" % (rnd, ci))
            with open(p, "w") as f:
                for bi in ch:
                    f.write("\n".join(tb[bi]) + "\n")
            tasks.append((TRACE_MOD, TRACE_CFG, p, sum(len(tb[bi]) for bi in ch), 1500, False))
        with cf.ThreadPoolExecutor(max_workers=JOBS) as ex:
            out = list(ex.map(tracecheck._run_chunk, tasks))
        nxt = []
        for ch, r in zip(chunks, out):
            tot_d += r["distinct"]; tot_g += r["generated"]
            if r["accepted"]:
                continue
            if r["error"] and r["violated"] is None and not re.search(r"postcondition", r["out_tail"], re.I):
                broken.append(r); continue
            m = r["matched"] if r["matched"] is not None else 0
            if r["violated"] and m > 0:
                m -= 1
            pos, hit = 0, ch[-1]
            for bi in ch:
                if m < pos + len(tb[bi]):
                    hit = bi; break
                pos += len(tb[bi])
            failures.append(dict(behaviour=hit, violated=r["violated"]))
            rest = ch[ch.index(hit) + 1:]
            if rest: nxt.append(rest)
        chunks = nxt
    return dict(failures=failures, broken=broken, distinct=tot_d, generated=tot_g, unexamined=sum(len(c) for c in chunks))


def validate(vd, ev, drv, H, work, tier):
    behaviours = [b for _, b in H]
    trace, err = run_driver(drv, behaviours, work)
    crashed = set()
    if err:
        # a crash / sanitizer report of the container code under a legal history is a violation; find the histories one by one
        seen_keys = set()
        for i, bh in enumerate(behaviours):
            t2, e2 = run_driver(drv, [bh], work, "one")
            if e2:
                crashed.add(i)
                key = crash_key(e2)
                if key not in seen_keys:
                    seen_keys.add(key)
                    vd.violation(key, "container code crashed / sanitizer report on a legal history (%s): %s" % (H[i][0], crash_text(e2)),
                                 {"kind": "cont", "ops": bh, "stderr": e2[-3000:]})
        if not crashed:
            die_broken(err)
        behaviours = [b for i, b in enumerate(behaviours) if i not in crashed]
        trace, err = run_driver(drv, behaviours, work)
        if err:
            die_broken("contdrv fails on the concatenation although every remaining history runs alone: " + err[-800:])
    kinds = [k for i, (k, _) in enumerate(H) if i not in crashed]
    lines = open(trace).read().splitlines()
    tb = tracecheck.split_behaviours(lines, lambda s: s.startswith('{"e":"reset"'))
    if len(tb) != len(behaviours):
        die_broken("instrumentation incomplete: %d behaviours logged, %d issued" % (len(tb), len(behaviours)))
    for i, (ops, tl) in enumerate(zip(behaviours, tb)):
        if len(ops) != len(tl):
            die_broken("instrumentation incomplete: behaviour %d logged %d of %d lines" % (i, len(tl), len(ops)))
    res = validate_capped(tb, work, chunk_lines=4000 if tier == "quick" else 8000)
    if res["broken"]:
        die_broken("TLC failed on a trace chunk: %s\n%s" % (res["broken"][0]["error"], res["broken"][0]["out_tail"][-1500:]))
    ev.cov["states"] += res["distinct"]; ev.cov["transitions"] += res["generated"]
    nfail = 0
    seen = set()
    for f in res["failures"][:40]:
        bi = f["behaviour"]
        rej, matched, inv, tail, _ = tracecheck.confirm(tb[bi], TRACE_MOD, TRACE_CFG, work)
        if not rej:
            continue          # not reproducible alone: never reported
        nfail += 1
        k = matched if matched is not None else 0
        if inv and k > 0:
            k -= 1            # the invariant failed in the state reached by line k-1
        line = tb[bi][k] if k < len(tb[bi]) else "(end)"
        opname = json.loads(line)["e"] if line != "(end)" else "?"
        what = ("invariant %s violated" % inv) if inv else "trace rejected"
        key = "cont:%s@%s" % (what, opname)
        if key in seen:
            continue
        seen.add(key)
        vd.violation(key, "%s at call %d (%s) of a %s history: %s" % (what, k, behaviours[bi][k] if k < len(behaviours[bi]) else "", kinds[bi], line[:240]),
                     {"kind": "cont", "ops": behaviours[bi], "first_unmatched_line": k, "line": line[:2000], "tlc_tail": tail[-1500:]})
    for want in ("rc", "ic", "db"):
        for kind, ops, tl in zip(kinds, behaviours, tb):
            if kind == want:
                ev.sample({"containers": kind, "ops": ops[:10], "logged": [json.loads(x[:1500]) if len(x) < 1500 else x[:300] for x in tl[1:3]]}, maxn=8)
                break
    nt = 0
    for kind, ops, tl in zip(kinds, behaviours, tb):
        if nontrivial(kind, tl[1:]):
            nt += 1
            ev.nontrivial(("cont", hash(tuple(ops))))
    return dict(behaviours=len(tb), lines=len(lines), rejected=nfail, crashed=len(crashed), nontrivial=nt, not_examined_after_cap=res["unexamined"],
                by_kind={k: kinds.count(k) for k in sorted(set(kinds))}, distinct=res["distinct"], generated=res["generated"])


def run(b, ev, vd, tier, work, rng):
    """b: scratch build of the tree; returns the number of evaluations (behaviours validated line by line)"""
    t0 = time.time()
    try:
        drv = build.driver(b, "contdrv", cflags=ASAN)
    except RuntimeError as e:
        die_broken(str(e))
    sub = os.path.join(work, "containers"); os.makedirs(sub, exist_ok=True)
    mc = model_check(ev, vd, tier, sub)
    H = histories(tier, rng)
    st = validate(vd, ev, drv, H, sub, tier)
    ev.cov["containers"] = dict(
        model_checking=mc, conformance=st, wall_s=round(time.time() - t0, 1),
        rule="evaluations = operation histories stepped through the real container code and validated line by line; non-trivial = the history "
             "reached the container's structural event (rc: a compaction; ic: a list growth or a re-creation from a hint; db: a growth; "
             "bb: a successful delete; rg: a merge of two intervals)",
        checker_cmd="TRACE=<chunk> tlc -workers 1 -config spec/Trace_Containers.cfg spec/Trace_Containers.tla (POSTCONDITION TraceAccepted, INVARIANT CStructural, CRefines, CResultsAgree)")
    ev.assumptions += [
        "containers: keys, inode numbers, counts and blockcnt stay below 2^31 (TLC integers); dblist block numbers go up to 2^40 (logged as two numbers)",
        "containers: ea_refcount keys are >= 1 (0 is the end marker of ea_refcount_intr_next) and nothing is called between intr_begin and the last intr_next (pass1.c)",
        "containers: the legacy 32-bit dblist entry points (ext2fs_dblist_sort, ext2fs_dblist_iterate) are used only on lists whose block numbers fit 32 bits",
        "containers: dblist callers address with set_dir_block an <<ino, blockcnt>> they added once; with duplicates the first element in array order changes (modelled literally)",
        "containers: memory allocation does not fail; the tdb variant of icount is not modelled",
        "containers: the observation after every call (fetch of every key, enumeration) runs with the look-up cursor saved and restored",
    ]
    return st["behaviours"]


# ------------------------------------------------------------------------------------------------------------------ stand-alone
def main_tier(tier):
    ev = Evidence("C01_containers", tier, "model_checking")
    vd = Verdict(PID, ev)
    rng = random.Random(seed() * 7919 + 5)
    work = fast_tmp()
    try:
        try:
            b = build.build()
        except RuntimeError as e:
            die_broken(str(e))
        n = run(b, ev, vd, tier, work, rng)
        ev.cov["evaluations"] = n
        ev.cov["traces_validated_against_impl"] = n - ev.cov["containers"]["conformance"]["rejected"]
        ev.cov["rule"] = ev.cov["containers"]["rule"]
        rc = vd.finish()
        c = ev.cov["containers"]
        print("containers: %d histories, %d lines validated, %d non-trivial, %d rejected, %d crashed; model checking %s; %.1f s" % (
            c["conformance"]["behaviours"], c["conformance"]["lines"], c["conformance"]["nontrivial"], c["conformance"]["rejected"],
            c["conformance"]["crashed"], ", ".join("%d states" % m["distinct"] for m in c["model_checking"]), c["wall_s"]))
        return rc
    finally:
        shutil.rmtree(work, ignore_errors=True)


def replay(path):
    d = json.load(open(path))
    ops = d["replay"]["ops"]
    work = fast_tmp()
    try:
        b = build.build(); drv = build.driver(b, "contdrv", cflags=ASAN)
        trace, err = run_driver(drv, [ops], work)
        if err:
            print(err[-1500:])
            print("VIOLATION property=%s replay=%s" % (PID, path)); return 1
        tl = open(trace).read().splitlines()
        rej, matched, inv, tail, _ = tracecheck.confirm(tl, TRACE_MOD, TRACE_CFG, work)
        if rej:
            k = matched if matched is not None else 0
            if inv and k > 0: k -= 1
            print("%s; first offending line %s: %s" % (("invariant %s violated" % inv) if inv else "trace rejected", k, tl[k][:400] if k < len(tl) else "?"))
            print(tail[-1200:])
            print("VIOLATION property=%s replay=%s" % (PID, path)); return 1
        print("replay accepted"); return 0
    finally:
        shutil.rmtree(work, ignore_errors=True)


if __name__ == "__main__":
    if len(sys.argv) >= 3 and sys.argv[1] == "replay":
        sys.exit(replay(sys.argv[2]))
    sys.exit(main_tier(sys.argv[1] if len(sys.argv) > 1 else "quick"))
