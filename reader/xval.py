#!/usr/bin/env python3
"""Cross-validation of the independent reader + Ext4Abs!Consistent against `e2fsck -fn`.

  python3 xval.py tests   [-k PATTERN]     every image shipped under /repo/tests/*/image*
  python3 xval.py fresh                    ~14 freshly made and populated filesystems (feature profiles)
  python3 xval.py all                      both, and print the summary table

Results go to $XVAL_OUT (default /dev/shm/reader-work/xval/*.json); XVAL_REPORT.md is written by hand from them
(every disagreement is triaged by a human, see DESIGN.md section 8 rule 6).
"""
import os, sys, json, gzip, bz2, glob, shutil, subprocess, tarfile, time, hashlib, fnmatch
import concurrent.futures
HERE = os.path.dirname(os.path.abspath(__file__))
sys.path.insert(0, HERE)
sys.path.insert(0, os.path.join(os.path.dirname(HERE), "lib"))
import ext4read
import common, build, absstate

WORK = os.environ.get("XVAL_WORK", "/dev/shm/reader-work/xval")
REPO = common.REPO


def sh(cmd, env, timeout=120, input=None, cwd=None):
    return common.run(cmd, timeout=timeout, env=env, input=input, cwd=cwd)


def unpack(src, dst):
    """decompress a test image to dst; -> list of extra files (external journals) or None if unusable"""
    if src.endswith(".tar.bz2"):
        d = dst + ".d"
        os.makedirs(d, exist_ok=True)
        with tarfile.open(src) as t:
            t.extractall(d)
        img = os.path.join(d, "image")
        if not os.path.exists(img):
            return None
        shutil.move(img, dst)
        return [os.path.join(d, f) for f in os.listdir(d)]
    if src.endswith(".gz"):
        data = gzip.open(src).read()
    elif src.endswith(".bz2"):
        data = bz2.open(src).read()
    else:
        data = open(src, "rb").read()
    with open(dst, "wb") as f:
        f.write(data)
    return []


def fsck_n(bdir, img, env):
    cp = img + ".fsck"
    shutil.copyfile(img, cp)
    rc, out, err = sh([os.path.join(bdir, "e2fsck", "e2fsck"), "-fn", cp], env, timeout=20)
    os.unlink(cp)
    return rc, (out + err).decode("latin-1")


def project_one(job):
    name, img = job
    t0 = time.time()
    P = ext4read.project(img)
    return name, P, time.time() - t0


def summarize_errs(P):
    if "fatal" in P:
        return {"fatal": P["fatal"]}
    S = {}
    for k in ("sb_err", "gd_err", "inode_err", "reader_err", "unsupported"):
        if P.get(k):
            S[k] = P[k]
    sh_ = {i["ino"]: (i["shape_err"] + i["range_err"] + i["csum_err"] + ([] if i["csum_ok"] else ["csum:inode"]))
           for i in P.get("inodes", []) if (i["links"] or i["special"]) and
           (i["shape_err"] or i["range_err"] or i["csum_err"] or not i["csum_ok"])}
    if sh_:
        S["inode"] = sh_
    de = {d["dir"]: d["err"] + d["csum_err"] for d in P.get("dirs", []) if d["err"] or d["csum_err"]}
    if de:
        S["dir"] = de
    xe = {x["blk"]: x["err"] + ([] if x["csum_ok"] else ["csum"]) + ([] if x["hash_ok"] else ["hash"])
          for x in P.get("xblocks", []) if x["err"] or not x["csum_ok"] or not x["hash_ok"]}
    if xe:
        S["xblock"] = xe
    for k in ("journal", "orphans", "mmp"):
        v = P.get(k) or {}
        if v.get("err") or v.get("csum_ok") is False:
            S[k] = v
    g = [d for d in P.get("gd", []) if not (d["csum_ok"] and d["bbcsum_ok"] and d["ibcsum_ok"] and d["bb_pad_ok"])]
    if g:
        S["gd"] = g[:4]
    if P.get("sb") and not (P["sb"]["csum_ok"] and P["sb"]["valid"] and not P["sb"]["error_fs"] and
                            not P["sb"]["needs_recovery"]):
        S["sb"] = {k: P["sb"][k] for k in ("csum_ok", "valid", "error_fs", "needs_recovery")}
    return S


def run_set(jobs, bdir, env, outname):
    """jobs: list of (name, image path).  -> list of result dicts"""
    os.makedirs(WORK, exist_ok=True)
    res = {}
    with concurrent.futures.ProcessPoolExecutor(max_workers=common.NPROC) as ex:
        projs = list(ex.map(project_one, jobs, chunksize=1))
    with concurrent.futures.ThreadPoolExecutor(max_workers=common.NPROC) as ex:
        fs = list(ex.map(lambda j: fsck_n(bdir, j[1], env), jobs))
    stats = {}
    t0 = time.time()
    verdicts = absstate.evaluate([p for _, p, _ in projs], stats=stats)
    tlc_total = time.time() - t0
    out = []
    for (name, img), (_, P, rt), (rc, txt), v in zip(jobs, projs, fs, verdicts):
        out.append({"name": name, "fsck_rc": rc, "consistent": v["consistent"], "failed": v["failed"],
                    "agree": (rc == 0) == v["consistent"], "reader_s": round(rt, 3), "errs": summarize_errs(P),
                    "fsck_out": txt[-3000:], "size": os.path.getsize(img)})
    meta = {"tlc_wall_total": round(tlc_total, 2), "tlc_cpu_sum": round(stats.get("tlc_wall", 0), 2),
            "tlc_runs": stats.get("tlc_runs"), "n": len(out)}
    with open(os.path.join(WORK, outname), "w") as f:
        json.dump({"meta": meta, "results": out}, f, indent=1)
    return out, meta


def table(out, meta):
    n = len(out)
    ag = sum(1 for r in out if r["agree"])
    both_ok = sum(1 for r in out if r["agree"] and r["consistent"])
    both_bad = sum(1 for r in out if r["agree"] and not r["consistent"])
    fsck_ok_only = [r for r in out if r["fsck_rc"] == 0 and not r["consistent"]]
    cons_only = [r for r in out if r["fsck_rc"] != 0 and r["consistent"]]
    print("images %d  agree %d (clean/clean %d, bad/bad %d)  e2fsck-clean-but-inconsistent %d  "
          "consistent-but-e2fsck-complains %d" % (n, ag, both_ok, both_bad, len(fsck_ok_only), len(cons_only)))
    print("reader: mean %.3f s, max %.3f s;  TLC: %.2f s wall for %d states (%s JVMs, %.2f s summed)" % (
        sum(r["reader_s"] for r in out) / max(n, 1), max([r["reader_s"] for r in out] or [0]),
        meta["tlc_wall_total"], n, meta["tlc_runs"], meta["tlc_cpu_sum"]))
    for r in fsck_ok_only:
        print("  FSCK-CLEAN/INCONSISTENT %-40s failed=%s errs=%s" % (r["name"], r["failed"], json.dumps(r["errs"])[:300]))
    for r in cons_only:
        print("  CONSISTENT/FSCK-rc=%d %-40s %s" % (r["fsck_rc"], r["name"], r["fsck_out"].strip().replace("\n", " | ")[-400:]))


def cmd_tests(pattern=None):
    bdir = build.build()
    env = common.tool_env(bdir)
    d = os.path.join(WORK, "timg")
    os.makedirs(d, exist_ok=True)
    jobs = []
    skipped = []
    for src in sorted(glob.glob(os.path.join(REPO, "tests", "*", "image*"))):
        t = os.path.basename(os.path.dirname(src))
        name = t + "/" + os.path.basename(src)
        if pattern and not fnmatch.fnmatch(name, pattern):
            continue
        dst = os.path.join(d, name.replace("/", "__"))
        try:
            extra = unpack(src, dst)
        except Exception as ex:
            skipped.append((name, "unpack: %s" % ex))
            continue
        if extra is None:
            skipped.append((name, "no member called image"))
            continue
        jobs.append((name, dst))
    out, meta = run_set(jobs, bdir, env, "tests.json")
    table(out, meta)
    for s in skipped:
        print("  SKIPPED", s)
    return out


# ------------------------------------------------------------------------------------------------
# fresh, populated filesystems
# ------------------------------------------------------------------------------------------------
PROFILES = [
    # name, size, mke2fs arguments
    ("ext2_1k", "8M", ["-t", "ext2", "-b", "1024"]),
    ("ext3_1k", "8M", ["-t", "ext3", "-b", "1024"]),
    ("ext4_1k", "8M", ["-t", "ext4", "-b", "1024"]),
    ("ext4_4k", "32M", ["-t", "ext4", "-b", "4096"]),
    ("bigalloc_4k", "32M", ["-t", "ext4", "-b", "4096", "-O", "bigalloc", "-C", "16384"]),
    ("bigalloc_1k", "16M", ["-t", "ext4", "-b", "1024", "-O", "bigalloc,^resize_inode", "-C", "4096"]),
    ("64bit_meta_bg", "32M", ["-t", "ext4", "-b", "1024", "-O", "64bit,meta_bg,^resize_inode", "-g", "1024"]),
    ("flex_bg4", "16M", ["-t", "ext4", "-b", "1024", "-G", "4", "-g", "2048"]),
    ("no_flex_bg", "16M", ["-t", "ext4", "-b", "1024", "-O", "^flex_bg", "-g", "2048"]),
    ("inline_data", "8M", ["-t", "ext4", "-b", "1024", "-O", "inline_data"]),
    ("ea_inode", "8M", ["-t", "ext4", "-b", "1024", "-O", "ea_inode"]),
    ("csum_quota", "8M", ["-t", "ext4", "-b", "1024", "-O", "quota,project", "-I", "256"]),
    ("uninit_bg_nocsum", "16M", ["-t", "ext4", "-b", "1024", "-O", "^metadata_csum,uninit_bg", "-g", "2048"]),
    ("sparse_super2", "16M", ["-t", "ext4", "-b", "1024", "-O", "sparse_super2", "-g", "1024", "-E", "num_backup_sb=2"]),
    ("inode128", "8M", ["-t", "ext4", "-b", "1024", "-I", "128"]),
    ("mmp", "8M", ["-t", "ext4", "-b", "1024", "-O", "mmp"]),
]


def make_tree(root, nlong=640):
    """host tree copied by `mke2fs -d`"""
    import random
    rnd = random.Random(7)
    os.makedirs(root + "/d1/d2/d3")
    os.makedirs(root + "/bigdir")
    os.makedirs(root + "/emptydir")
    for k in range(nlong):
        name = ("n%04d_" % k) + "".join(rnd.choice("abcdefghijklmnopqrstuvwxyz") for _ in range(230))
        open(root + "/bigdir/" + name, "w").close()
    for k in range(40):
        with open(root + "/d1/s%02d" % k, "wb") as f:
            f.write(rnd.randbytes(rnd.choice((0, 1, 30, 59, 60, 61, 100, 160, 700, 1023, 1024, 1025, 5000))))
    with open(root + "/big400k", "wb") as f:
        f.write(rnd.randbytes(400 * 1024))            # 12 direct + ind + dind with 1 KiB blocks
    with open(root + "/frag", "wb") as f:              # many extents -> extent tree depth 1
        for k in range(14):
            f.seek(k * 65536)
            f.write(rnd.randbytes(8192))
    with open(root + "/sparse", "wb") as f:
        f.seek(300000)
        f.write(b"tail")
        f.truncate(1 << 20)
    with open(root + "/d1/d2/d3/deep", "w") as f:
        f.write("deep file\n")
    os.symlink("big400k", root + "/fastlink")
    os.symlink("d1/" + "x" * 100, root + "/slowlink")
    os.link(root + "/big400k", root + "/d1/hardlink")
    os.link(root + "/d1/s05", root + "/d1/d2/hl2")
    os.chmod(root + "/d1/s07", 0o4755)
    os.chmod(root + "/d1/d2", 0o1777)


DEBUGFS_SCRIPT = """\
cd /
mknod cdev c 1 3
mknod bdev b 8 1
mknod fifo p
ea_set /d1/s03 user.small v1
ea_set /d1/s03 user.second value-two
ea_set /d1/s04 trusted.t tvalue
ea_set -f %(work)s/xv600 /d1/s10 user.blockval
ea_set -f %(work)s/xv600 /d1/s11 user.blockval
ea_set /d1/d2 user.ondir dirvalue
ea_set /fastlink user.onlink lv
write %(work)s/wfile written_by_debugfs
mkdir dbgdir
symlink dbgdir/sl /d1/s01
"""


def shared_xattr_block(img, a_path, b_path):
    """make inode b share a's xattr block (h_refcount 2), recomputing the checksums with the reader's own crc32c.
    b must not have an xattr block of its own.  -> True if done"""
    import struct
    R = ext4read.Reader(img)
    P = R.project()
    byp = {t["path"]: t["ino"] for t in P["tree"]}
    ia, ib = byp.get(a_path), byp.get(b_path)
    if not ia or not ib:
        return False
    A, B = R.inodes_by_no[ia], R.inodes_by_no[ib]
    blk = A["facl"]
    if not blk or B["facl"]:
        return False
    bs = R.bs
    with open(img, "r+b") as f:
        # xattr block: refcount 2
        buf = bytearray(R.blk(blk))
        struct.pack_into("<I", buf, 4, 2)
        if R.meta_csum:
            struct.pack_into("<I", buf, 16, 0)
            c = ext4read.crc32c(R.seed, struct.pack("<Q", blk))
            c = ext4read.crc32c(c, bytes(buf))
            struct.pack_into("<I", buf, 16, c)
        f.seek(blk * bs)
        f.write(buf)
        # inode b: file_acl, i_blocks
        off = R.inode_off(ib)
        raw = bytearray(B["raw"])
        struct.pack_into("<I", raw, 104, blk)
        nb = struct.unpack_from("<I", raw, 28)[0] + (bs // 512) * R.cr
        struct.pack_into("<I", raw, 28, nb)
        if R.meta_csum:
            struct.pack_into("<H", raw, 124, 0)
            hi = R.isize > 128 and struct.unpack_from("<H", raw, 128)[0] >= 4
            if hi:
                struct.pack_into("<H", raw, 130, 0)
            c = ext4read.crc32c(R.seed, struct.pack("<I", ib))
            c = ext4read.crc32c(c, bytes(raw[100:104]))
            c = ext4read.crc32c(c, bytes(raw))
            struct.pack_into("<H", raw, 124, c & 0xFFFF)
            if hi:
                struct.pack_into("<H", raw, 130, c >> 16)
        f.seek(off)
        f.write(raw)
    return True


def build_fresh(bdir, env, work):
    """-> list of (name, image, notes)"""
    src = os.path.join(work, "src")
    if os.path.exists(src):
        shutil.rmtree(src)
    make_tree(src)
    import random
    rnd = random.Random(11)
    with open(os.path.join(work, "xv600"), "wb") as f:
        f.write(bytes(rnd.choice(b"abcdefgh") for _ in range(600)))
    with open(os.path.join(work, "xv5000"), "wb") as f:
        f.write(bytes(rnd.choice(b"ABCDEFGH") for _ in range(5000)))
    with open(os.path.join(work, "wfile"), "wb") as f:
        f.write(rnd.randbytes(3000))
    mke2fs = os.path.join(bdir, "misc", "mke2fs")
    debugfs = os.path.join(bdir, "debugfs", "debugfs")
    e2fsck = os.path.join(bdir, "e2fsck", "e2fsck")
    out = []
    for name, size, args in PROFILES:
        img = os.path.join(work, name + ".img")
        notes = []
        if os.path.exists(img):
            os.unlink(img)
        rc, o, e = sh([mke2fs, "-q", "-F", "-d", src] + args + [img, size], env)
        if rc != 0:
            out.append((name, None, ["mke2fs failed: " + (o + e).decode("latin-1")[-300:]]))
            continue
        script = DEBUGFS_SCRIPT % {"work": work}
        if name == "ea_inode":
            script += "ea_set -f %s/xv5000 /d1/s12 user.huge\n" % work
        rc, o, e = sh([debugfs, "-w", "-f", "-", img], env, input=script.encode())
        txt = (o + e).decode("latin-1")
        bad = [l for l in txt.split("\n") if ":" in l and ("rror" in l or "nvalid" in l or "failed" in l)]
        if bad:
            notes.append("debugfs: " + " | ".join(bad)[:300])
        # settle: index the big directory (-D), fix what the populate path is known to leave behind (quota usage,
        # ea_inode i_blocks)
        rc1, o, e = sh([e2fsck, "-fyD", img], env)
        notes.append("e2fsck -fyD rc=%d" % rc1)
        if shared_xattr_block(img, "/d1/s10", "/d1/s20"):
            notes.append("shared xattr block made")
        else:
            notes.append("NO shared xattr block")
        if "quota" in name:
            rc2, o, e = sh([e2fsck, "-fy", img], env)      # i_blocks of s20 changed: let e2fsck redo the usage
            notes.append("e2fsck -fy (quota usage) rc=%d" % rc2)
        out.append((name, img, notes))
    return out


# ------------------------------------------------------------------------------------------------
# a few checksum-correct mutations of the fresh images (both verdicts must flip together)
# ------------------------------------------------------------------------------------------------
class Patcher:
    """edits a copy of an image; checksums are recomputed with the reader's own crc32c / crc16"""

    def __init__(self, img):
        import struct
        self.st = struct
        self.R = ext4read.Reader(img)
        self.P = self.R.project()
        self.b = bytearray(self.R.img)
        self.paths = {t["path"]: t["ino"] for t in self.P["tree"]}

    def ino(self, path):
        return self.paths[path]

    def raw_inode(self, ino):
        off = self.R.inode_off(ino)
        return off, bytearray(self.b[off:off + self.R.isize])

    def put_inode(self, ino, raw):
        R, st = self.R, self.st
        off = R.inode_off(ino)
        if R.meta_csum:
            st.pack_into("<H", raw, 124, 0)
            hi = R.isize > 128 and st.unpack_from("<H", raw, 128)[0] >= 4
            if hi:
                st.pack_into("<H", raw, 130, 0)
            c = ext4read.crc32c(R.seed, st.pack("<I", ino))
            c = ext4read.crc32c(c, bytes(raw[100:104]))
            c = ext4read.crc32c(c, bytes(raw))
            st.pack_into("<H", raw, 124, c & 0xFFFF)
            if hi:
                st.pack_into("<H", raw, 130, c >> 16)
        self.b[off:off + R.isize] = raw

    def iseed(self, ino):
        R, st = self.R, self.st
        off, raw = self.raw_inode(ino)
        c = ext4read.crc32c(R.seed, st.pack("<I", ino))
        return ext4read.crc32c(c, bytes(raw[100:104]))

    def fix_gd(self, g):
        R, st = self.R, self.st
        if R.csum_kind == "none":
            return
        off = R.loc["gd%d" % g]
        raw = bytes(self.b[off:off + R.dsize])
        st.pack_into("<H", self.b, off + 0x1E, R.gd_csum(g, raw))

    def fix_bitmap(self, g, which):
        R, st = self.R, self.st
        if R.meta_csum:
            d = R.gd[g]
            blk = d["bb" if which == "b" else "ib"]
            n = (R.cpg if which == "b" else R.ipg) // 8
            c = ext4read.crc32c(R.seed, bytes(self.b[blk * R.bs:blk * R.bs + n]))
            off = R.loc["gd%d" % g]
            st.pack_into("<H", self.b, off + (0x18 if which == "b" else 0x1A), c & 0xFFFF)
            if R.dsize >= 64:
                st.pack_into("<H", self.b, off + (0x38 if which == "b" else 0x3A), c >> 16)
        self.fix_gd(g)

    def flip_block_bit(self, blk):
        R = self.R
        c = (blk - R.first) // R.cr
        g, bit = divmod(c, R.cpg)
        if R.gd[g]["flagbits"] & 2 and R.csum_kind != "none":
            return False
        o = R.gd[g]["bb"] * R.bs + bit // 8
        self.b[o] ^= 1 << (bit % 8)
        self.fix_bitmap(g, "b")
        return True

    def flip_inode_bit(self, ino):
        R = self.R
        g, bit = divmod(ino - 1, R.ipg)
        o = R.gd[g]["ib"] * R.bs + bit // 8
        self.b[o] ^= 1 << (bit % 8)
        self.fix_bitmap(g, "i")

    def fix_dirblock(self, dirino, pblk):
        R, st = self.R, self.st
        if not R.meta_csum:
            return
        o = pblk * R.bs
        c = ext4read.crc32c(self.iseed(dirino), bytes(self.b[o:o + R.bs - 12]))
        st.pack_into("<I", self.b, o + R.bs - 4, c)

    def inode_rec(self, ino):
        for i in self.P["inodes"]:
            if i["ino"] == ino:
                return i

    def save(self, path):
        with open(path, "wb") as f:
            f.write(self.b)


def mutations(img, outdir, tag):
    """-> list of (name, path, expectation note)"""
    import struct
    out = []

    def emit(name, pt):
        p = os.path.join(outdir, "%s__%s.img" % (tag, name))
        pt.save(p)
        out.append(("%s/%s" % (tag, name), p))

    def fresh():
        return Patcher(img)
    base = fresh()
    R = base.R
    try:
        big = base.inode_rec(base.ino("/big400k"))
        frag = base.inode_rec(base.ino("/frag"))
        s02 = base.ino("/d1/s02")
        d2 = base.ino("/d1/d2")
    except KeyError:
        return out
    # 1 clear the bitmap bit of an owned block
    pt = fresh()
    if pt.flip_block_bit(big["own"]["data"][0][0]):
        emit("bb_clear_owned", pt)
    # 2 set the bit of a free block (last cluster of the bitmap that is clear)
    pt = fresh()
    used = set()
    for a, b in base.P["bbitmap"]:
        used.update(range(a, b + 1))
    free = [c for c in range(base.P["geo"]["ncl"]) if c not in used]
    if free and pt.flip_block_bit(R.first + free[len(free) // 2] * R.cr):
        emit("bb_set_free", pt)
    # 3 clear the inode bitmap bit of a live inode
    pt = fresh()
    pt.flip_inode_bit(s02)
    emit("ib_clear_live", pt)
    # 4 links_count + 1
    pt = fresh()
    off, raw = pt.raw_inode(s02)
    struct.pack_into("<H", raw, 26, struct.unpack_from("<H", raw, 26)[0] + 1)
    pt.put_inode(s02, raw)
    emit("links_plus1", pt)
    # 5 group free blocks + 1
    pt = fresh()
    o = R.loc["gd0"]
    struct.pack_into("<H", pt.b, o + 12, struct.unpack_from("<H", pt.b, o + 12)[0] + 1)
    pt.fix_gd(0)
    emit("gd_free_blocks_plus1", pt)
    # 6 group descriptor checksum alone (metadata csum / uninit_bg only)
    if R.csum_kind != "none":
        pt = fresh()
        o = R.loc["gd0"] + 0x1E
        pt.b[o] ^= 0x55
        emit("gd_csum_only", pt)
    # 7 i_blocks + 2
    pt = fresh()
    off, raw = pt.raw_inode(big["ino"])
    struct.pack_into("<I", raw, 28, struct.unpack_from("<I", raw, 28)[0] + 2)
    pt.put_inode(big["ino"], raw)
    emit("iblocks_plus2", pt)
    # 8 directory i_size + one block
    pt = fresh()
    off, raw = pt.raw_inode(d2)
    if not (struct.unpack_from("<I", raw, 32)[0] & 0x10000000):
        struct.pack_into("<I", raw, 4, struct.unpack_from("<I", raw, 4)[0] + R.bs)
        pt.put_inode(d2, raw)
        emit("dir_size_plus_block", pt)
    # 9 stale inode checksum (a byte of mtime changes, checksum does not)
    if R.meta_csum:
        pt = fresh()
        off, raw = pt.raw_inode(s02)
        pt.b[off + 16] ^= 1
        emit("inode_csum_stale", pt)
    # 10 a directory entry names a free inode / '..' names the wrong directory
    d2rec = [d for d in base.P["dirs"] if d["dir"] == d2][0]
    if d2rec["kind"] in ("linear", "htree"):
        key = "%d:0" % d2
        o = R.loc["dirblk"][key]
        freeino = base.P["geo"]["inodes"] - 3
        # walk the first block: entries are (ino, rec_len, name_len, ft, name)
        pos = 0
        ents = []
        while pos < R.bs:
            ino_, rl, nl, ft = struct.unpack_from("<IHBB", pt.b, o + pos)
            if rl < 8:
                break
            ents.append((pos, ino_, bytes(pt.b[o + pos + 8:o + pos + 8 + nl])))
            pos += rl
        for pos, ino_, nm in ents:
            if nm not in (b".", b"..") and ino_:
                pt = fresh()
                struct.pack_into("<I", pt.b, o + pos, freeino)
                pt.fix_dirblock(d2, o // R.bs)
                emit("dirent_to_free_inode", pt)
                break
        for pos, ino_, nm in ents:
            if nm == b"..":
                pt = fresh()
                struct.pack_into("<I", pt.b, o + pos, d2)
                pt.fix_dirblock(d2, o // R.bs)
                emit("dotdot_wrong", pt)
                break
    # 11 two files claim the same block (extent files: first extent of /frag := first block of /big400k;
    #    block-mapped files: i_block[0])
    pt = fresh()
    off, raw = pt.raw_inode(frag["ino"])
    target = big["own"]["data"][0][0]
    if frag["map"] == "extent" and not frag["own"]["index"]:
        struct.pack_into("<I", raw, 40 + 12 + 8, target & 0xFFFFFFFF)
        struct.pack_into("<H", raw, 40 + 12 + 6, target >> 32)
        pt.put_inode(frag["ino"], raw)
        emit("alias_block", pt)
    elif frag["map"] == "indirect":
        struct.pack_into("<I", raw, 40, target)
        pt.put_inode(frag["ino"], raw)
        emit("alias_block", pt)
    elif frag["map"] == "extent":
        eb = frag["own"]["index"][0][0]
        o = eb * R.bs
        mx = struct.unpack_from("<H", pt.b, o + 4)[0]
        struct.pack_into("<I", pt.b, o + 12 + 8, target & 0xFFFFFFFF)
        struct.pack_into("<H", pt.b, o + 12 + 6, target >> 32)
        if R.meta_csum:
            c = ext4read.crc32c(pt.iseed(frag["ino"]), bytes(pt.b[o:o + 12 + 12 * mx]))
            struct.pack_into("<I", pt.b, o + 12 + 12 * mx, c)
        emit("alias_block", pt)
    # 12 a data block inside the inode table
    pt = fresh()
    off, raw = pt.raw_inode(big["ino"])
    itb = R.gd[0]["it"] + 1
    if big["map"] == "indirect":
        struct.pack_into("<I", raw, 40, itb)
        pt.put_inode(big["ino"], raw)
        emit("block_in_inode_table", pt)
    elif big["map"] == "extent" and not big["own"]["index"]:
        struct.pack_into("<I", raw, 40 + 12 + 8, itb)
        struct.pack_into("<H", raw, 40 + 12 + 6, 0)
        pt.put_inode(big["ino"], raw)
        emit("block_in_inode_table", pt)
    # 13 shared xattr block: refcount 2 -> 3
    for x in base.P["xblocks"]:
        if x["refcount"] == 2:
            pt = fresh()
            o = x["blk"] * R.bs
            struct.pack_into("<I", pt.b, o + 4, 3)
            if R.meta_csum:
                struct.pack_into("<I", pt.b, o + 16, 0)
                c = ext4read.crc32c(R.seed, struct.pack("<Q", x["blk"]))
                c = ext4read.crc32c(c, bytes(pt.b[o:o + R.bs]))
                struct.pack_into("<I", pt.b, o + 16, c)
            emit("xattr_refcount_3", pt)
            break
    # 14 htree: the hashes of two index entries of the root swap places
    for d in base.P["dirs"]:
        if d["kind"] == "htree":
            pt = fresh()
            o = R.loc["dirblk"]["%d:0" % d["dir"]]
            limit, count = struct.unpack_from("<HH", pt.b, o + 32)
            if count >= 4:
                h1 = pt.b[o + 32 + 8:o + 32 + 12]
                h2 = pt.b[o + 32 + 16:o + 32 + 20]
                pt.b[o + 32 + 8:o + 32 + 12] = h2
                pt.b[o + 32 + 16:o + 32 + 20] = h1
                if R.meta_csum:
                    t = o + 32 + limit * 8
                    c = ext4read.crc32c(pt.iseed(d["dir"]), bytes(pt.b[o:o + 32 + count * 8]))
                    c = ext4read.crc32c(c, bytes(pt.b[t:t + 4]) + bytes(4))
                    struct.pack_into("<I", pt.b, t + 4, c)
                emit("htree_hash_swap", pt)
            break
    return out


def tree_vs_rdump(bdir, env, img, work):
    """compare the reader's tree digests with what `debugfs rdump` extracts -> list of differences"""
    d = os.path.join(work, "rdump")
    if os.path.exists(d):
        shutil.rmtree(d)
    os.makedirs(d)
    sh([os.path.join(bdir, "debugfs", "debugfs"), "-R", "rdump / %s" % d, img], env)
    P = ext4read.project(img)
    inline_fs = "inline_data" in P["geo"]["features"]
    diffs = []
    nfiles = 0
    for t in P["tree"]:
        hp = d + t["path"]
        if t["type"] == "reg":
            nfiles += 1
            try:
                data = open(hp, "rb").read()
            except OSError as ex:
                diffs.append("%s: missing in rdump (%s)" % (t["path"], ex))
                continue
            dg = "sha256:" + hashlib.sha256(data).hexdigest()
            if dg != t["digest"]:
                size = t["size"][1]
                if inline_fs and size < 60 and len(data) == 60 and data[:size] == data[:size] and \
                        "sha256:" + hashlib.sha256(data[:size]).hexdigest() == t["digest"]:
                    continue    # known defect: debugfs returns inline files padded to 60 bytes
                diffs.append("%s: digest differs (reader size %d, rdump %d bytes)" % (t["path"], size, len(data)))
        elif t["type"] == "lnk":
            try:
                if os.readlink(hp) != t["target"]:
                    diffs.append("%s: symlink target differs" % t["path"])
            except OSError:
                diffs.append("%s: symlink missing in rdump" % t["path"])
        elif t["type"] == "dir":
            if not os.path.isdir(hp):
                diffs.append("%s: directory missing in rdump" % t["path"])
    shutil.rmtree(d)
    return nfiles, diffs


def cmd_fresh():
    bdir = build.build()
    env = common.tool_env(bdir)
    work = os.path.join(WORK, "fresh")
    os.makedirs(work, exist_ok=True)
    made = build_fresh(bdir, env, work)
    jobs = [(n, i) for n, i, _ in made if i]
    out, meta = run_set(jobs, bdir, env, "fresh.json")
    table(out, meta)
    for n, i, notes in made:
        print("  %-18s %s" % (n, "; ".join(notes)))
    # mutations
    md = os.path.join(work, "mut")
    if os.path.exists(md):
        shutil.rmtree(md)
    os.makedirs(md)
    mjobs = []
    for n, i in jobs:
        try:
            mjobs += mutations(i, md, n)
        except Exception as ex:
            print("  mutation of %s failed: %r" % (n, ex))
    print("mutated images:")
    mout, mmeta = run_set(mjobs, bdir, env, "mutated.json")
    table(mout, mmeta)
    byk = {}
    for r in mout:
        k = r["name"].split("/")[1]
        byk.setdefault(k, []).append(r)
    for k, rs in sorted(byk.items()):
        print("  %-24s n=%2d  fsck!=0: %2d  inconsistent: %2d  failed=%s" % (
            k, len(rs), sum(1 for r in rs if r["fsck_rc"]), sum(1 for r in rs if not r["consistent"]),
            sorted({f for r in rs for f in r["failed"]})))
    shutil.rmtree(md)
    print("tree vs debugfs rdump:")
    for n, i in jobs:
        nf, diffs = tree_vs_rdump(bdir, env, i, work)
        print("  %-18s %d regular files, %d differences %s" % (n, nf, len(diffs), diffs[:3]))
    return out


if __name__ == "__main__":
    c = sys.argv[1] if len(sys.argv) > 1 else "all"
    pat = None
    if "-k" in sys.argv:
        pat = sys.argv[sys.argv.index("-k") + 1]
    if c in ("tests", "all"):
        cmd_tests(pat)
    if c in ("fresh", "all"):
        cmd_fresh()
