#!/usr/bin/env python3
"""Cross-validation of the independent reader + Ext4Abs!Consistent against `e2fsck -fn`.

  python3 xval.py tests   [-k PATTERN]     every image shipped under /repo/tests/*/image*
  python3 xval.py fresh                    ~14 freshly made and populated filesystems (feature profiles)
  python3 xval.py all                      both, and print the summary table

Results go to $XVAL_OUT (default /dev/shm/reader-work/xval/*.json); XVAL_REPORT.md is written by hand from them
(every disagreement is triaged by a human, see DESIGN.md section 8 rule 6).
"""
import os, sys, json, gzip, bz2, glob, shutil, subprocess, tarfile, time, hashlib, fnmatch
import concurrent.futures
HERE = os.path.dirname(os.path.abspath(__file__))
sys.path.insert(0, HERE)
sys.path.insert(0, os.path.join(os.path.dirname(HERE), "lib"))
import ext4read
import common, build, absstate

WORK = os.environ.get("XVAL_WORK", "/dev/shm/reader-work/xval")
REPO = common.REPO


def sh(cmd, env, timeout=120, input=None, cwd=None):
    return common.run(cmd, timeout=timeout, env=env, input=input, cwd=cwd)


def unpack(src, dst):
    """decompress a test image to dst; -> list of extra files (external journals) or None if unusable"""
    if src.endswith(".tar.bz2"):
        d = dst + ".d"
        os.makedirs(d, exist_ok=True)
        with tarfile.open(src) as t:
            t.extractall(d)
        img = os.path.join(d, "image")
        if not os.path.exists(img):
            return None
        shutil.move(img, dst)
        return [os.path.join(d, f) for f in os.listdir(d)]
    if src.endswith(".gz"):
        data = gzip.open(src).read()
    elif src.endswith(".bz2"):
        data = bz2.open(src).read()
    else:
        data = open(src, "rb").read()
    with open(dst, "wb") as f:
        f.write(data)
    return []


def fsck_n(bdir, img, env):
    cp = img + ".fsck"
    shutil.copyfile(img, cp)
    rc, out, err = sh([os.path.join(bdir, "e2fsck", "e2fsck"), "-fn", cp], env, timeout=20)
    os.unlink(cp)
    return rc, (out + err).decode("latin-1")


def project_one(job):
    name, img = job
    t0 = time.time()
    P = ext4read.project(img)
    return name, P, time.time() - t0


def summarize_errs(P):
    if "fatal" in P:
        return {"fatal": P["fatal"]}
    S = {}
    for k in ("sb_err", "gd_err", "inode_err", "reader_err", "unsupported"):
        if P.get(k):
            S[k] = P[k]
    sh_ = {i["ino"]: (i["shape_err"] + i["range_err"] + i["csum_err"] + ([] if i["csum_ok"] else ["csum:inode"]))
           for i in P.get("inodes", []) if (i["links"] or i["special"]) and
           (i["shape_err"] or i["range_err"] or i["csum_err"] or not i["csum_ok"])}
    if sh_:
        S["inode"] = sh_
    de = {d["dir"]: d["err"] + d["csum_err"] for d in P.get("dirs", []) if d["err"] or d["csum_err"]}
    if de:
        S["dir"] = de
    xe = {x["blk"]: x["err"] + ([] if x["csum_ok"] else ["csum"]) + ([] if x["hash_ok"] else ["hash"])
          for x in P.get("xblocks", []) if x["err"] or not x["csum_ok"] or not x["hash_ok"]}
    if xe:
        S["xblock"] = xe
    for k in ("journal", "orphans", "mmp"):
        v = P.get(k) or {}
        if v.get("err") or v.get("csum_ok") is False:
            S[k] = v
    g = [d for d in P.get("gd", []) if not (d["csum_ok"] and d["bbcsum_ok"] and d["ibcsum_ok"] and d["bb_pad_ok"])]
    if g:
        S["gd"] = g[:4]
    if P.get("sb") and not (P["sb"]["csum_ok"] and P["sb"]["valid"] and not P["sb"]["error_fs"] and
                            not P["sb"]["needs_recovery"]):
        S["sb"] = {k: P["sb"][k] for k in ("csum_ok", "valid", "error_fs", "needs_recovery")}
    return S


def run_set(jobs, bdir, env, outname):
    """jobs: list of (name, image path).  -> list of result dicts"""
    os.makedirs(WORK, exist_ok=True)
    res = {}
    with concurrent.futures.ProcessPoolExecutor(max_workers=common.NPROC) as ex:
        projs = list(ex.map(project_one, jobs, chunksize=1))
    with concurrent.futures.ThreadPoolExecutor(max_workers=common.NPROC) as ex:
        fs = list(ex.map(lambda j: fsck_n(bdir, j[1], env), jobs))
    stats = {}
    t0 = time.time()
    verdicts = absstate.evaluate([p for _, p, _ in projs], stats=stats)
    tlc_total = time.time() - t0
    out = []
    for (name, img), (_, P, rt), (rc, txt), v in zip(jobs, projs, fs, verdicts):
        out.append({"name": name, "fsck_rc": rc, "consistent": v["consistent"], "failed": v["failed"],
                    "agree": (rc == 0) == v["consistent"], "reader_s": round(rt, 3), "errs": summarize_errs(P),
                    "fsck_out": txt[-3000:], "size": os.path.getsize(img)})
    meta = {"tlc_wall_total": round(tlc_total, 2), "tlc_cpu_sum": round(stats.get("tlc_wall", 0), 2),
            "tlc_runs": stats.get("tlc_runs"), "n": len(out)}
    with open(os.path.join(WORK, outname), "w") as f:
        json.dump({"meta": meta, "results": out}, f, indent=1)
    return out, meta


def table(out, meta):
    n = len(out)
    ag = sum(1 for r in out if r["agree"])
    both_ok = sum(1 for r in out if r["agree"] and r["consistent"])
    both_bad = sum(1 for r in out if r["agree"] and not r["consistent"])
    fsck_ok_only = [r for r in out if r["fsck_rc"] == 0 and not r["consistent"]]
    cons_only = [r for r in out if r["fsck_rc"] != 0 and r["consistent"]]
    print("images %d  agree %d (clean/clean %d, bad/bad %d)  e2fsck-clean-but-inconsistent %d  "
          "consistent-but-e2fsck-complains %d" % (n, ag, both_ok, both_bad, len(fsck_ok_only), len(cons_only)))
    print("reader: mean %.3f s, max %.3f s;  TLC: %.2f s wall for %d states (%s JVMs, %.2f s summed)" % (
        sum(r["reader_s"] for r in out) / max(n, 1), max([r["reader_s"] for r in out] or [0]),
        meta["tlc_wall_total"], n, meta["tlc_runs"], meta["tlc_cpu_sum"]))
    for r in fsck_ok_only:
        print("  FSCK-CLEAN/INCONSISTENT %-40s failed=%s errs=%s" % (r["name"], r["failed"], json.dumps(r["errs"])[:300]))
    for r in cons_only:
        print("  CONSISTENT/FSCK-rc=%d %-40s %s" % (r["fsck_rc"], r["name"], r["fsck_out"].strip().replace("\n", " | ")[-400:]))


def cmd_tests(pattern=None):
    bdir = build.build()
    env = common.tool_env(bdir)
    d = os.path.join(WORK, "timg")
    os.makedirs(d, exist_ok=True)
    jobs = []
    skipped = []
    for src in sorted(glob.glob(os.path.join(REPO, "tests", "*", "image*"))):
        t = os.path.basename(os.path.dirname(src))
        name = t + "/" + os.path.basename(src)
        if pattern and not fnmatch.fnmatch(name, pattern):
            continue
        dst = os.path.join(d, name.replace("/", "__"))
        try:
            extra = unpack(src, dst)
        except Exception as ex:
            skipped.append((name, "unpack: %s" % ex))
            continue
        if extra is None:
            skipped.append((name, "no member called image"))
            continue
        jobs.append((name, dst))
    out, meta = run_set(jobs, bdir, env, "tests.json")
    table(out, meta)
    for s in skipped:
        print("  SKIPPED", s)
    return out


if __name__ == "__main__":
    c = sys.argv[1] if len(sys.argv) > 1 else "all"
    pat = None
    if "-k" in sys.argv:
        pat = sys.argv[sys.argv.index("-k") + 1]
    if c in ("tests", "all"):
        cmd_tests(pat)
    if c in ("fresh", "all"):
        import xval_fresh
        xval_fresh.cmd_fresh()
